"""K23  usual-arithmetic-conversion block of SymbolDatabase::setValueType (lib/symboldatabase.cpp)
and the helper getIntegerTypeSize.

Region: from `ValueType vt;` to the call `setValueType(parent, vt);` in the branch for a binary arithmetic / bit
operator with two integer operands.  Postcondition: the result (type, sign) is the one C11 6.3.1.1 (integer
promotions) + 6.3.1.8 (usual arithmetic conversions) give for the platform's sizes.
"""
import re

from vlib import extract, native
from vlib.kernel import KernelBuild, located_rules
from . import _common

ID = "K23"
SERVES = ["C09", "C03", "C13"]
TITLE = "setValueType: usual arithmetic conversions of two integer operands"

HARNESS = r'''
int g_in_t1, g_in_s1, g_in_t2, g_in_s2, g_in_szi, g_in_szl, g_in_szll;
static int rank_size(enum VType t, const struct Platform *p) { return t == VType_INT ? (int)p->sizeof_int : t == VType_LONG ? (int)p->sizeof_long : (int)p->sizeof_long_long; }
void h_conv(void) {
    struct Platform pl; pl.sizeof_short = 2; pl.sizeof_int = nondet_size_t(); pl.sizeof_long = nondet_size_t(); pl.sizeof_long_long = 8;
    __CPROVER_assume((pl.sizeof_int == 2 || pl.sizeof_int == 4) && (pl.sizeof_long == 4 || pl.sizeof_long == 8) && pl.sizeof_long >= pl.sizeof_int);
    enum VType t1 = (enum VType)nondet_int(), t2 = (enum VType)nondet_int(); enum Sign s1 = (enum Sign)nondet_int(), s2 = (enum Sign)nondet_int();
    /* integer operand types up to long long; from int upwards the sign is known; plain char may be unknown; bool has no sign */
    __CPROVER_assume(t1 >= VType_BOOL && t1 <= VType_LONGLONG && t2 >= VType_BOOL && t2 <= VType_LONGLONG);
    __CPROVER_assume(s1 >= Sign_UNKNOWN_SIGN && s1 <= Sign_UNSIGNED && s2 >= Sign_UNKNOWN_SIGN && s2 <= Sign_UNSIGNED);
    __CPROVER_assume((t1 < VType_INT || s1 != Sign_UNKNOWN_SIGN) && (t2 < VType_INT || s2 != Sign_UNKNOWN_SIGN));
    __CPROVER_assume(pl.sizeof_int == 4);       /* below-int types promote to signed int only if int is wider than short: the built-in platforms */
    g_in_t1 = t1; g_in_s1 = s1; g_in_t2 = t2; g_in_s2 = s2; g_in_szi = pl.sizeof_int; g_in_szl = pl.sizeof_long; g_in_szll = 8;
    enum VType rt; enum Sign rs;
    conv_block(t1, s1, 1, t2, s2, 0, &pl, &rt, &rs);
    /* C11 6.3.1.1: everything below int (bool, char, short, wchar_t) promotes to int */
    enum VType p1 = t1 < VType_INT ? VType_INT : t1, p2 = t2 < VType_INT ? VType_INT : t2;
    _Bool u1 = t1 < VType_INT ? 0 : (s1 == Sign_UNSIGNED), u2 = t2 < VType_INT ? 0 : (s2 == Sign_UNSIGNED);
    /* C11 6.3.1.8 */
    enum VType wt; _Bool wu;
    if (p1 == p2) { wt = p1; wu = u1 || u2; }
    else {
        enum VType hi = p1 > p2 ? p1 : p2, lo = p1 > p2 ? p2 : p1; _Bool hu = p1 > p2 ? u1 : u2, lu = p1 > p2 ? u2 : u1;
        wt = hi;
        if (hu == lu) wu = hu;
        else if (hu) wu = 1;                                                     /* unsigned operand has the higher rank */
        else wu = !(rank_size(hi, &pl) > rank_size(lo, &pl));                     /* signed higher rank: keeps its sign only if it can represent all values of the unsigned operand */
    }
    __CPROVER_assert(rt == wt, "result type is the common type of the usual arithmetic conversions");
    __CPROVER_assert((rs == Sign_UNSIGNED) == wu && rs != Sign_UNKNOWN_SIGN, "result signedness follows the usual arithmetic conversions for the platform's sizes");
}
void h_unary(void) {
    struct Platform pl; pl.sizeof_int = 4; pl.sizeof_long = nondet_size_t(); pl.sizeof_long_long = 8; __CPROVER_assume(pl.sizeof_long == 4 || pl.sizeof_long == 8);
    enum VType t1 = (enum VType)nondet_int(); enum Sign s1 = (enum Sign)nondet_int();
    __CPROVER_assume(t1 >= VType_BOOL && t1 <= VType_LONGLONG && s1 >= Sign_UNKNOWN_SIGN && s1 <= Sign_UNSIGNED && (t1 < VType_INT || s1 != Sign_UNKNOWN_SIGN));
    enum VType rt; enum Sign rs;
    conv_block(t1, s1, 0, VType_UNKNOWN_TYPE, Sign_UNKNOWN_SIGN, 0, &pl, &rt, &rs);
    __CPROVER_assert(rt == (t1 < VType_INT ? VType_INT : t1) && (t1 < VType_INT ? rs == Sign_SIGNED : rs == s1), "a single operand is integer-promoted and otherwise unchanged");
}
void h_incdec(void) {
    struct Platform pl; pl.sizeof_int = 4; pl.sizeof_long = nondet_size_t(); pl.sizeof_long_long = 8; __CPROVER_assume(pl.sizeof_long == 4 || pl.sizeof_long == 8);
    enum VType t1 = (enum VType)nondet_int(); enum Sign s1 = (enum Sign)nondet_int();
    __CPROVER_assume(t1 >= VType_BOOL && t1 <= VType_LONGLONG && s1 >= Sign_UNKNOWN_SIGN && s1 <= Sign_UNSIGNED && (t1 < VType_INT || s1 != Sign_UNKNOWN_SIGN));
    enum VType rt; enum Sign rs;
    g_is_incdec = 1;
    conv_block(t1, s1, 0, VType_UNKNOWN_TYPE, Sign_UNKNOWN_SIGN, 0, &pl, &rt, &rs);
    g_is_incdec = 0;
    /* C11 6.5.2.4p2 / 6.5.3.1: the result of ++ and -- has the (unqualified) type of the operand - no integer promotion */
    __CPROVER_assert(rt == t1 && rs == s1, "the result of ++ / -- has the type and signedness of its operand");
}
int g_in_c;
/* c ? a : b with two integer operands: C11 6.5.15p5 - the type the usual arithmetic conversions give (also when both operands
   have the same type); C++ [expr.cond] - operands of the same type keep it, otherwise the usual arithmetic conversions */
void h_ternary(void) {
    struct Platform pl; pl.sizeof_short = 2; pl.sizeof_int = 4; pl.sizeof_long = nondet_size_t(); pl.sizeof_long_long = 8;
    __CPROVER_assume(pl.sizeof_long == 4 || pl.sizeof_long == 8);
    enum VType t1 = (enum VType)nondet_int(), t2 = (enum VType)nondet_int(); enum Sign s1 = (enum Sign)nondet_int(), s2 = (enum Sign)nondet_int();
    __CPROVER_assume(t1 >= VType_BOOL && t1 <= VType_LONGLONG && t2 >= VType_BOOL && t2 <= VType_LONGLONG && t1 != VType_WCHAR_T && t2 != VType_WCHAR_T);
    __CPROVER_assume(s1 >= Sign_UNKNOWN_SIGN && s1 <= Sign_UNSIGNED && s2 >= Sign_UNKNOWN_SIGN && s2 <= Sign_UNSIGNED);
    /* bool has no sign, plain char may be unknown, the others are known */
    __CPROVER_assume(t1 == VType_BOOL ? s1 == Sign_UNKNOWN_SIGN : (t1 == VType_CHAR || s1 != Sign_UNKNOWN_SIGN));
    __CPROVER_assume(t2 == VType_BOOL ? s2 == Sign_UNKNOWN_SIGN : (t2 == VType_CHAR || s2 != Sign_UNKNOWN_SIGN));
    g_is_c = nondet_bool();
    g_in_t1 = t1; g_in_s1 = s1; g_in_t2 = t2; g_in_s2 = s2; g_in_szi = 4; g_in_szl = pl.sizeof_long; g_in_szll = 8; g_in_c = g_is_c;
    enum VType rt; enum Sign rs;
    int sel = ternary_select(t1, s1, 0, 1, t2, s2, 0, 1);
    if (sel == 1) { rt = t1; rs = s1; }
    else if (sel == 2) { rt = t2; rs = s2; }
    else conv_block(t1, s1, 1, t2, s2, 1, &pl, &rt, &rs);
    if (!g_is_c && t1 == t2 && s1 == s2) {
        __CPROVER_assert(rt == t1 && rs == s1, "C++: operands of the same type keep it");
        return;
    }
    enum VType p1 = t1 < VType_INT ? VType_INT : t1, p2 = t2 < VType_INT ? VType_INT : t2;
    _Bool u1 = t1 < VType_INT ? 0 : (s1 == Sign_UNSIGNED), u2 = t2 < VType_INT ? 0 : (s2 == Sign_UNSIGNED);
    enum VType wt; _Bool wu;
    if (p1 == p2) { wt = p1; wu = u1 || u2; }
    else {
        enum VType hi = p1 > p2 ? p1 : p2, lo = p1 > p2 ? p2 : p1; _Bool hu = p1 > p2 ? u1 : u2, lu = p1 > p2 ? u2 : u1;
        wt = hi;
        if (hu == lu) wu = hu;
        else if (hu) wu = 1;
        else wu = !(rank_size(hi, &pl) > rank_size(lo, &pl));
    }
    __CPROVER_assert(rt == wt, "conditional operator: the result type is the common type of the usual arithmetic conversions");
    __CPROVER_assert((rs == Sign_UNSIGNED) == wu && rs != Sign_UNKNOWN_SIGN, "conditional operator: the result signedness follows the usual arithmetic conversions");
}
int g_in_cpp, g_in_cmp;
/* a < b, a == b, a && b, a || b with scalar operands: int in C (C11 6.5.8p6, 6.5.9p3, 6.5.13p3), bool in C++ */
void h_compare(void) {
    _Bool is_cpp = nondet_bool(), is_cmp = nondet_bool();
#ifdef CLASS_C
    __CPROVER_assume(!is_cpp);
#else
    __CPROVER_assume(is_cpp);
#endif
    g_in_cpp = is_cpp; g_in_cmp = is_cmp;
    enum VType rt = VType_UNKNOWN_TYPE; enum Sign rs = Sign_UNKNOWN_SIGN; _Bool ff = 0;
    compare_block(is_cpp, is_cmp, 0, nondet_bool(), &rt, &rs, &ff);
    __CPROVER_assert(!ff, "operands that are not objects of a class: no overloaded operator is looked up");
    if (is_cpp) __CPROVER_assert(rt == VType_BOOL, "C++: comparison and logical operators have type bool");
    else __CPROVER_assert(rt == VType_INT && rs == Sign_SIGNED, "C: comparison and logical operators have type int");
}
/* a << b, a >> b: the result has the type of the promoted left operand (C11 6.5.7p3) */
void h_shift(void) {
    enum VType t1 = (enum VType)nondet_int(); enum Sign s1 = (enum Sign)nondet_int(); _Bool is_cpp = nondet_bool(), has2 = nondet_bool(), int2 = nondet_bool();
    __CPROVER_assume(t1 >= VType_BOOL && t1 <= VType_LONGLONG && t1 != VType_WCHAR_T && s1 >= Sign_UNKNOWN_SIGN && s1 <= Sign_UNSIGNED);
    __CPROVER_assume(t1 == VType_BOOL ? s1 == Sign_UNKNOWN_SIGN : (t1 == VType_CHAR || s1 != Sign_UNKNOWN_SIGN));
    g_in_t1 = t1; g_in_s1 = s1; g_in_cpp = is_cpp;
    enum VType rt = VType_UNKNOWN_TYPE; enum Sign rs = Sign_UNKNOWN_SIGN; _Bool set = 0;
    shift_block(t1, s1, has2, int2, is_cpp, &rt, &rs, &set);
    if (is_cpp && !(has2 && int2)) return;          /* C++ with a right operand that is not an integer (operator<< of a stream): no type, not decided */
    __CPROVER_assert(set, "a shift of integer operands gets a type");
    if (t1 < VType_INT) __CPROVER_assert(rt == VType_INT && rs == Sign_SIGNED, "a left operand narrower than int is promoted to (signed) int");
    else __CPROVER_assert(rt == t1 && rs == s1, "otherwise the result has the type and signedness of the left operand");
}
int g_in_szt;
/* p - q: the result has type ptrdiff_t, the signed integer type as wide as size_t (and as a pointer) on the built-in platforms */
void h_ptrdiff(void) {
    struct Platform pl; pl.sizeof_short = 2; pl.sizeof_int = nondet_size_t(); pl.sizeof_long = nondet_size_t(); pl.sizeof_long_long = 8; pl.sizeof_size_t = nondet_size_t();
    __CPROVER_assume((pl.sizeof_int == 2 || pl.sizeof_int == 4) && (pl.sizeof_long == 4 || pl.sizeof_long == 8) && pl.sizeof_long >= pl.sizeof_int);
    __CPROVER_assume(pl.sizeof_size_t == pl.sizeof_int || pl.sizeof_size_t == pl.sizeof_long || pl.sizeof_size_t == pl.sizeof_long_long);
    g_in_szi = (int)pl.sizeof_int; g_in_szl = (int)pl.sizeof_long; g_in_szll = 8; g_in_szt = (int)pl.sizeof_size_t;
    enum VType rt = VType_UNKNOWN_TYPE; enum Sign rs = Sign_UNKNOWN_SIGN;
    g_is_incdec = 0;
    int sel = pointer_block(0, &pl, &rt, &rs);
    __CPROVER_assert(sel == 2 && rs == Sign_SIGNED, "a pointer difference is a signed integer");
    __CPROVER_assert((rt == VType_INT || rt == VType_LONG || rt == VType_LONGLONG) && (size_t)rank_size(rt, &pl) == pl.sizeof_size_t, "ptrdiff_t is as wide as size_t on the platform");
    /* ... and the type of lowest rank with that width: int on the 32-bit ABIs (i386, win32), long on LP64, long long on win64 */
    __CPROVER_assert(rt == (pl.sizeof_size_t == pl.sizeof_int ? VType_INT : pl.sizeof_size_t == pl.sizeof_long ? VType_LONG : VType_LONGLONG), "ptrdiff_t is the signed integer type of lowest rank that is as wide as size_t (int on unix32 / win32, long on unix64, long long on win64)");
    g_is_incdec = 1;
    __CPROVER_assert(pointer_block(0, &pl, &rt, &rs) == 1, "p++ is a pointer");
    g_is_incdec = 0;
    __CPROVER_assert(pointer_block(1, &pl, &rt, &rs) == 1, "c ? p : q is a pointer");
}
void h_size(void) {
    struct Platform pl; pl.sizeof_int = nondet_size_t(); pl.sizeof_long = nondet_size_t(); pl.sizeof_long_long = nondet_size_t(); enum VType t = (enum VType)nondet_int();
    size_t r = getIntegerTypeSize(t, &pl);
    __CPROVER_assert(r == (t == VType_INT ? pl.sizeof_int : t == VType_LONG ? pl.sizeof_long : t == VType_LONGLONG ? pl.sizeof_long_long : 0), "getIntegerTypeSize returns the platform size of int / long / long long");
}
void h_cover(void) {
    struct Platform pl; pl.sizeof_int = 4; pl.sizeof_long = 4; pl.sizeof_long_long = 8; enum VType rt; enum Sign rs;
    conv_block(VType_INT, Sign_UNSIGNED, 1, VType_LONG, Sign_SIGNED, 0, &pl, &rt, &rs);
    __CPROVER_assert(!(rt == VType_LONG && rs == Sign_UNSIGNED), "COVER: unsigned int + long is unsigned long with a 32-bit long");
    conv_block(VType_CHAR, Sign_UNKNOWN_SIGN, 1, VType_SHORT, Sign_UNSIGNED, 0, &pl, &rt, &rs);
    __CPROVER_assert(!(rt == VType_INT && rs == Sign_SIGNED), "COVER: char + unsigned short is int");
}
'''

REPLAY_CPP = r'''
#include <cstdio>
#include <cstdlib>
int main(int argc, char **argv) { printf("K23 has no native replay driver (setValueType needs a tokenized program); see the verifier counterexample\n"); return 0; }
'''


def build(ctx):
    kb = KernelBuild(ID, TITLE)
    enums, names = _common.valuetype_enums()
    order = ["BOOL", "CHAR", "SHORT", "WCHAR_T", "INT", "LONG", "LONGLONG"]
    idx = [names.index(x) for x in order]
    if idx != sorted(idx) or idx[-1] - idx[0] != len(order) - 1:
        raise extract.ExtractError("ValueType::Type: the integer types are no longer the contiguous, rank-ordered run BOOL..LONGLONG: %s" % names)
    pstruct, pfields, _ = _common.platform_struct()
    out = [_common.BASE, enums, pstruct, "struct VT { enum VType type; enum Sign sign; };\n"]
    n = 0
    lh = extract.locate_function("lib/symboldatabase.cpp", r'^static std::size_t getIntegerTypeSize\s*\(')
    kb.add_located("getIntegerTypeSize", lh)
    t, k = located_rules(lh, _common.VT_RULES + [
        (r'^static size_t getIntegerTypeSize\s*\(\s*enum VType\s+type\s*,\s*const Platform\s*&\s*platform\s*\)', 'size_t getIntegerTypeSize(enum VType type, const struct Platform *platform)', 1, 1),
        (r'\bplatform\.(\w+)', r'platform->\1', 3, 3),
    ], ID + ".getIntegerTypeSize"); n += k
    out.append(t + "\n")
    reg = extract.locate_region("lib/symboldatabase.cpp", r'^void SymbolDatabase::setValueType\s*\(\s*Token\s*\*\s*tok\s*,\s*const ValueType\s*&\s*valuetype', r'ValueType\s+vt\s*;\s*\n\s*if\s*\(\s*!vt2\s*\|\|',
                                r'setValueType\(parent,\s*vt\)\s*;', include_end=False)
    kb.add_located("SymbolDatabase::setValueType [usual arithmetic conversions block]", reg, "region")
    t, k = located_rules(reg, _common.VT_RULES + [
        (r'ValueType\s+vt\s*;', 'struct VT vt; vt.type = VType_UNKNOWN_TYPE; vt.sign = Sign_UNKNOWN_SIGN;', 1, 1),
        (r'vt\.originalTypeName(?:\s*=[^;]*|\.clear\(\))\s*;', '', 4, 4),
        (r'const ValueType\s*\*\s*const\s+lower\s*=\s*\(vt1->type < vt2->type\)\s*\?\s*vt1\s*:\s*vt2\s*;',
         'const struct VT lower_v = (vt1_type < vt2_type) ? (struct VT){vt1_type, vt1_sign} : (struct VT){vt2_type, vt2_sign}; const struct VT *const lower = &lower_v;', 0, 1),
        (r'\bvt1->type\b', 'vt1_type', 3),
        (r'\bvt1->sign\b', 'vt1_sign', 2),
        (r'\bvt2->type\b', 'vt2_type', 3),
        (r'\bvt2->sign\b', 'vt2_sign', 2),
        (r'!vt2\b', '!has_vt2', 1, 1),
        (r'\(vt2 &&', '(has_vt2 &&', 0, 1),
        (r'\bmSettings\.platform\b', 'platform', 0),
        (r'const size_t lowerSize', 'const size_t lowerSize', 0),
        (r'\bparent->tokType\(\)\s*!=\s*Token::eIncDecOp\b', '!g_is_incdec', 0, 1),      # the parent is ++ / -- (harness flag)
        (r'\bparent->isC\(\)', 'g_is_c', 0, 1),                                          # the file is C (harness flag)
    ], ID + ".conv"); n += k
    # the selection block of the conditional operator (same function, before the conversions)
    fsv = extract.locate_function("lib/symboldatabase.cpp", r'^void SymbolDatabase::setValueType\s*\(\s*Token\s*\*\s*tok\s*,\s*const ValueType\s*&\s*valuetype')
    msv = extract.mask(fsv.text)
    hs = list(re.finditer(r'\}\s*else if \(ternary\)\s*\{', msv))
    if len(hs) != 1:
        raise extract.ExtractError("setValueType: `else if (ternary) {` found %d times" % len(hs))
    ob = hs[0].end() - 1
    cb = extract.match_brace(fsv.text, ob, msv)
    regt = extract.Located("lib/symboldatabase.cpp", fsv.text[ob + 1:cb], fsv.start + ob + 1, fsv.start + cb, extract.read("lib/symboldatabase.cpp"))
    kb.add_located("SymbolDatabase::setValueType [operand selection of the conditional operator]", regt, "region")
    tt, k = located_rules(regt, _common.VT_RULES + [
        (r'\bsetValueType\(parent,\s*\*vt([12])\)\s*;', r'sel = \1;', 5, 5),
        (r'\breturn\s*;', 'return sel;', 3, 3),
        (r'\bvt([12])->isPrimitive\(\)', r'(vt\1_type >= VType_BOOL)   /* ValueType::isPrimitive */', 2, 2),
        (r'\bvt1->isIntegral\(\)', '(vt1_type >= VType_BOOL && vt1_type <= VType_UNKNOWN_INT)   /* ValueType::isIntegral */', 0, 2),
        (r'\bvt1->isTypeEqual\(vt2\)', '(has_vt2 && vt1_type == vt2_type && vt1_pointer == vt2_pointer && other_equal)   /* ValueType::isTypeEqual: type, container, pointer, typeScope, smartPointer */', 1, 1),
        (r'\bvt([12])->(type|sign|pointer)\b', r'vt\1_\2', 4),
        (r'&& vt2 &&', '&& has_vt2 &&', 2, 2),
        (r'\bparent->isC\(\)', 'g_is_c', 0, 1),
    ], ID + ".ternary"); n += k
    if re.search(r'\bparent\b|\bvt[12]\b(?!_)', extract.mask(tt)):
        raise extract.ExtractError("K23: the selection block of the conditional operator was not fully lowered: %r" % re.findall(r'[^\n]*(?:\bparent\b|\bvt[12]\b(?!_))[^\n]*', extract.mask(tt))[:3])
    # pointer operand: pointer result or pointer difference
    hp = list(re.finditer(r'if \(vt1->pointer != 0U\)\s*\{', msv[cb:]))
    if len(hp) < 1:
        raise extract.ExtractError("setValueType: `if (vt1->pointer != 0U) {` after the conditional-operator block not found")
    obp = cb + hp[0].end() - 1
    cbp = extract.match_brace(fsv.text, obp, msv)
    regp = extract.Located("lib/symboldatabase.cpp", fsv.text[obp + 1:cbp], fsv.start + obp + 1, fsv.start + cbp, extract.read("lib/symboldatabase.cpp"))
    kb.add_located("SymbolDatabase::setValueType [pointer result / pointer difference]", regp, "region")
    tp, k = located_rules(regp, _common.VT_RULES + [
        (r'\bsetValueType\(parent,\s*\*vt1\)\s*;', 'sel = 1;', 1, 1),
        (r'\bsetValueType\(parent,\s*ValueType\((\w+),\s*(\w+),\s*0U,\s*0U,\s*"ptrdiff_t"\)\)\s*;', r'{ *rs = \1; *rt = \2; sel = 2; }', 1, 1),
        (r'\breturn\s*;', 'return sel;', 1, 1),
        (r'\bparent->tokType\(\)\s*==\s*Token::eIncDecOp\b', 'g_is_incdec', 1, 1),
        (r'\bmSettings\.platform\.(\w+)', r'platform->\1', 0),
    ], ID + ".ptrdiff"); n += k
    if re.search(r'\bparent\b|\bvt[12]\b|mSettings', extract.mask(tp)):
        raise extract.ExtractError("K23: the pointer block was not fully lowered: %r" % re.findall(r'[^\n]*(?:\bparent\b|\bvt[12]\b|mSettings)[^\n]*', extract.mask(tp))[:3])
    ptr_fn = ("/* the first operand is a pointer - 1: the result has its type, 2: pointer difference of type (*rt, *rs) */\n"
              "int pointer_block(_Bool ternary, const struct Platform *platform, enum VType *rt, enum Sign *rs)\n{\n    int sel = 0;\n%s\n    return 0;\n}\n"
              % extract.strip_comments(tp))
    # comparison and logical operators (setValueTypeInTokenList)
    ftl = extract.locate_function("lib/symboldatabase.cpp", r'^void SymbolDatabase::setValueTypeInTokenList\s*\(')
    mtl = extract.mask(ftl.text)
    hc = list(re.finditer(r'\}\s*else if \(tok->isComparisonOp\(\) \|\| tok->tokType\(\) == Token::eLogicalOp\)\s*\{', mtl))
    if len(hc) != 1:
        raise extract.ExtractError("setValueTypeInTokenList: branch of the comparison / logical operators found %d times" % len(hc))
    obc = hc[0].end() - 1
    cbc = extract.match_brace(ftl.text, obc, mtl)
    regc = extract.Located("lib/symboldatabase.cpp", ftl.text[obc + 1:cbc], ftl.start + obc + 1, ftl.start + cbc, extract.read("lib/symboldatabase.cpp"))
    kb.add_located("SymbolDatabase::setValueTypeInTokenList [comparison / logical operator]", regc, "region")
    tcmp, k = located_rules(regc, _common.VT_RULES + [
        (r'const Function\s*\*\s*function = getOperatorFunction\(tok\)\s*;\s*if \(function\)\s*\{\s*ValueType vt\s*;\s*parsedecl\(function->retDef,\s*&vt,\s*mDefaultSignedness,\s*mSettings\)\s*;\s*setValueType\(tok,\s*vt\)\s*;\s*continue\s*;\s*\}',
         'if (has_function) { *from_function = 1; return; }', 1, 1),
        (r'\(getClassScope\(tok->astOperand1\(\)\) \|\| getClassScope\(tok->astOperand2\(\)\)\)', 'class_operand', 1, 1),
        (r'\btok->isCpp\(\)', 'is_cpp', 1),
        (r'\btok->isC\(\)', '!is_cpp', 0),
        (r'\btok->isComparisonOp\(\)', 'is_comparison', 1),
        (r'\bsetValueType\(tok,\s*ValueType\(([^,()]+(?:\([^()]*\))?[^,()]*),\s*([^,()]+(?:\([^()]*\))?[^,()]*),\s*0U\)\)\s*;', r'{ *rs = \1; *rt = \2; }', 1, 2),
    ], ID + ".compare"); n += k
    if re.search(r'\btok\b|mSettings|Function', extract.mask(tcmp)):
        raise extract.ExtractError("K23: the comparison branch was not fully lowered: %r" % re.findall(r'[^\n]*(?:\btok\b|mSettings|Function)[^\n]*', extract.mask(tcmp))[:3])
    cmp_fn = ("void compare_block(_Bool is_cpp, _Bool is_comparison, _Bool class_operand, _Bool has_function, enum VType *rt, enum Sign *rs, _Bool *from_function)\n{\n%s\n}\n"
              % extract.strip_comments(tcmp))
    # shift operators: the result has the type of the promoted left operand
    hsft = [mo for mo in re.finditer(r'if \(vt1 && Token::Match\(parent, "[^"]*"\)\)\s*\{', msv) if fsv.text[mo.start():mo.end()].startswith('if (vt1 && Token::Match(parent, "<<|>>"))')]
    if len(hsft) != 1:
        raise extract.ExtractError("setValueType: branch of the shift operators found %d times" % len(hsft))
    obs = hsft[0].end() - 1
    cbs = extract.match_brace(fsv.text, obs, msv)
    regs = extract.Located("lib/symboldatabase.cpp", fsv.text[obs + 1:cbs], fsv.start + obs + 1, fsv.start + cbs, extract.read("lib/symboldatabase.cpp"))
    kb.add_located("SymbolDatabase::setValueType [shift operators]", regs, "region")
    tsf, k = located_rules(regs, _common.VT_RULES + [
        (r'!parent->isCpp\(\) \|\| \(vt2 && vt2->isIntegral\(\)\)', '!shift_is_cpp || (has_vt2 && vt2_integral)', 1, 1),
        (r'\bValueType vt\(\*vt1\)\s*;', 'struct VT vt; vt.type = vt1_type; vt.sign = vt1_sign;', 1),
        (r'\bvt\.reference = Reference::None\s*;', '', 1),
        (r'\bsetValueType\(parent,\s*vt\)\s*;', '{ *rt = vt.type; *rs = vt.sign; *set = 1; }', 1),
        (r'\bvt1->(type|sign)\b', r'vt1_\1', 1),
    ], ID + ".shift"); n += k
    if re.search(r'\bparent\b|\bvt[12]\b(?!_)|Reference', extract.mask(tsf)):
        raise extract.ExtractError("K23: the shift branch was not fully lowered: %r" % re.findall(r'[^\n]*(?:\bparent\b|\bvt[12]\b(?!_)|Reference)[^\n]*', extract.mask(tsf))[:3])
    shift_fn = ("void shift_block(enum VType vt1_type, enum Sign vt1_sign, _Bool has_vt2, _Bool vt2_integral, _Bool shift_is_cpp, enum VType *rt, enum Sign *rs, _Bool *set)\n{\n%s\n}\n"
                % extract.strip_comments(tsf))
    ternary_fn = ("/* 0: the conversions below decide, 1 / 2: the result has the type of operand 1 / 2 */\n"
                  "int ternary_select(enum VType vt1_type, enum Sign vt1_sign, int vt1_pointer, _Bool has_vt2, enum VType vt2_type, enum Sign vt2_sign, int vt2_pointer, _Bool other_equal)\n{\n    int sel = 0;\n%s\n    return 0;\n}\n"
                  % extract.strip_comments(tt))
    if re.search(r'\bparent\b', extract.mask(t)):
        raise extract.ExtractError("K23: a use of `parent` in the conversion block was not lowered: %r" % re.findall(r'[^\n]*\bparent\b[^\n]*', extract.mask(t))[:2])
    if re.search(r'\bvt[12]\b(?!_)', extract.mask(t)):
        raise extract.ExtractError("K23: a use of vt1/vt2 was not lowered: %r" % t.strip()[:300])
    out.append("_Bool g_is_incdec;   /* the operator is ++ or -- (parent->tokType() == Token::eIncDecOp) */\n_Bool g_is_c;        /* the file is C (parent->isC()) */\n")
    out.append(ternary_fn)
    out.append(ptr_fn)
    out.append(cmp_fn)
    out.append(shift_fn)
    out.append("void conv_block(enum VType vt1_type, enum Sign vt1_sign, _Bool has_vt2, enum VType vt2_type, enum Sign vt2_sign, _Bool ternary, const struct Platform *platform, enum VType *rt, enum Sign *rs)\n{\n%s\n    *rt = vt.type; *rs = vt.sign;\n}\n"
               % extract.strip_comments(t))
    kb.rules_fired = n
    text = "".join(out)
    extract.residue_scan(text, ID)
    kb.ctext = text + HARNESS
    kb.job("binary", "h_conv", note="loop-free region: complete in both operand types and signs and in the platform sizes (int 4; long 4 or 8; long long 8)")
    kb.job("unary", "h_unary", note="loop-free: complete")
    kb.job("incdec", "h_incdec", note="loop-free: complete; the parent operator is ++ / --")
    kb.job("ternary", "h_ternary", note="loop-free regions (operand selection + conversions): complete in both operand types and signs, C and C++, long 4 or 8")
    kb.job("compare", "h_compare", note="loop-free region; C++ files")
    kb.job("compare.c", "h_compare", kind="known", finding="K23.comparison-bool-in-c", props=["C09"], defines=["CLASS_C"], expect_fail=["h_compare.assertion"],
           note="recorded finding class: C files")
    kb.job("shift", "h_shift", note="loop-free region: every integer left operand type, C and C++")
    kb.job("ptrdiff", "h_ptrdiff", note="loop-free region: int 2/4, long 4/8, size_t as wide as one of int / long / long long")
    kb.job("getIntegerTypeSize", "h_size", note="loop-free: complete")
    kb.job("cover", "h_cover", kind="cover")
    kb.assumptions += ["region interface: (type, sign) of both operands, presence of the second operand, ternary flag, platform; originalTypeName bookkeeping is dropped",
                       "ValueType::Type orders the integer types by rank (checked each run: BOOL..LONGLONG contiguous and ascending)",
                       "operand signs: known from int upwards; int is 4 bytes (with a 16-bit int unsigned short would promote to unsigned int; the block has no such case)",
                       "conditional operator: integer operands only (pointer / record operands are run for safety, not decided); isTypeEqual's container / typeScope / smartPointer comparison is a flag; isPrimitive / isIntegral are the range tests of lib/symboldatabase.h"]
    return kb
