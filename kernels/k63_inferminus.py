"""K63  valueFlowInferCondition (lib/valueflow.cpp): bounds inferred for `a - b` from the bounds of a and b.

For a comparison or a subtraction whose operands have impossible values, infer() (lib/infer.cpp, interval arithmetic: K43)
computes bounds of the result and the block hands them to the token.  The interval difference is the MATHEMATICAL
difference; an unsigned subtraction of less than 64 bits wraps around, so its result is not bounded by it
(`_Bool b; unsigned u; b - u` is not "less than 2": b = 0, u = 1 gives UINT_MAX).
Region: the block for integer / pointer operands.  Contract (C01): no inferred bound is attached to an unsigned
subtraction of less than 64 bits; every other token gets what infer() returns.
"""
import re

from vlib import extract, native
from vlib.kernel import KernelBuild, located_rules
from . import _common

ID = "K63"
SERVES = ["C01", "C03", "C13"]
TITLE = "valueFlowInferCondition: no interval bounds for an unsigned subtraction that can wrap around"

HARNESS = r'''
int g_in_minus, g_in_unsigned, g_in_pointer, g_in_size, g_in_n;
void h_infer(void) {
    _Bool minus = nondet_bool(), uns = nondet_bool(), ptr = nondet_bool(), hasvt = nondet_bool(); size_t sz = nondet_size_t(); int n = nondet_int();
    __CPROVER_assume((sz == 0 || sz == 1 || sz == 2 || sz == 4 || sz == 8) && n >= 0 && n <= 3);
    g_in_minus = minus; g_in_unsigned = uns; g_in_pointer = ptr; g_in_size = (int)sz; g_in_n = n;
    g_set = 0;
    /* the operands' own signedness: arbitrary, except that two unsigned operands give an unsigned result */
    op1_unsigned = nondet_bool(); op2_unsigned = nondet_bool(); tok_has_vt = hasvt;
    __CPROVER_assume(!(op1_unsigned && op2_unsigned) || (hasvt && uns));
    infer_block(minus, hasvt && uns, ptr, sz, n);
    if (minus && hasvt && uns && !ptr && sz >= 1 && sz < 8)
        __CPROVER_assert(g_set == 0, "no inferred bound is attached to an unsigned subtraction of less than 64 bits (it can wrap around)");
    else
        __CPROVER_assert(g_set == n, "every other comparison / subtraction gets the values infer() returns");
}
void h_cover(void) {
    g_set = 0; infer_block(1, 0, 0, 4, 2);
    __CPROVER_assert(!(g_set == 2), "COVER: int - int gets its bounds");
    g_set = 0; infer_block(0, 1, 0, 4, 1);
    __CPROVER_assert(!(g_set == 1), "COVER: a comparison of unsigned operands gets its value");
}
'''

REPLAY_CPP = r'''
#include "settings.h"
#include "tokenize.h"
#include "tokenlist.h"
#include "token.h"
#include "errorlogger.h"
#include "color.h"
#include "platform.h"
#include <cstdio>
struct Log : ErrorLogger {
    void reportOut(const std::string &, Color) override {}
    void reportErr(const ErrorMessage &) override {}
    void reportMetric(const std::string &) override {}
};
int main() {
    const std::string code = "long long f(_Bool b, unsigned u) { long long r = b - u; return r; }";
    Settings settings; settings.platform.set(Platform::Type::Unix64); Log log;
    Tokenizer tokenizer(TokenList(settings, Standards::Language::C), log);
    tokenizer.list.appendFileIfNew("t.c");
    if (!tokenizer.list.createTokensFromBuffer(code.data(), code.size()) || !tokenizer.simplifyTokens1("")) return 2;
    for (const Token *tok = tokenizer.tokens(); tok; tok = tok->next()) {
        if (tok->str() != "-" || !tok->astOperand2()) continue;
        for (const ValueFlow::Value &v : tok->values()) {
            if (v.isImpossible() && v.isIntValue() && v.bound == ValueFlow::Value::Bound::Lower && v.intvalue <= 4294967295LL) {
                printf("%s: `b - u` is said never to be >= %lld; b = 0, u = 1 gives 4294967295\n", code.c_str(), (long long)v.intvalue);
                return 1;
            }
        }
        printf("%s: no upper bound below UINT_MAX is attached to `b - u`\n", code.c_str());
        return 0;
    }
    return 2;
}
'''


def build(ctx):
    kb = KernelBuild(ID, TITLE)
    f = extract.locate_function("lib/valueflow.cpp", r'^static void valueFlowInferCondition\(TokenList& tokenlist, const Settings& settings\)')
    m = extract.mask(f.text)
    s = list(re.finditer(r'\}\s*else if \(isIntegralOrPointer\(tok->astOperand1\(\)\) && isIntegralOrPointer\(tok->astOperand2\(\)\)\)\s*\{', m))
    if len(s) != 1:
        raise extract.ExtractError("valueFlowInferCondition: block for integer / pointer operands found %d times" % len(s))
    ob = s[0].end() - 1
    cb = extract.match_brace(f.text, ob, m)
    reg = extract.Located("lib/valueflow.cpp", f.text[ob + 1:cb], f.start + ob + 1, f.start + cb, extract.read("lib/valueflow.cpp"))
    kb.add_located("valueFlowInferCondition [integer / pointer operands of a comparison or subtraction]", reg, "region")
    t, n = located_rules(reg, _common.VT_RULES + [
        (r'std::vector<ValueFlow::Value> result =\s*infer\(makeIntegralInferModel\(\), tok->str\(\), tok->astOperand1\(\)->values\(\), tok->astOperand2\(\)->values\(\)\)\s*;',
         'const int result_n = n_results;   /* infer(): interval arithmetic, K43 */', 1, 1),
        (r'for \(ValueFlow::Value& value : result\)\s*\{\s*setTokenValue\(tok, std::move\(value\), settings\)\s*;\s*\}', 'for (int k = 0; k < 3; k++) if (k < result_n) g_set++;', 1, 1),
        (r'\btok->str\(\) == "-"', 'is_minus', 0, 1),
        (r'\bastIsUnsigned\(tok\)', 'tok_unsigned', 0, 1),
        (r'\bastIsUnsigned\(tok->astOperand([12])\(\)\)', r'op\1_unsigned', 0, 2),
        (r'\btok->valueType\(\) &&', 'tok_has_vt &&', 0, 1),
        (r'\bastIsPointer\(tok\)', 'tok_pointer', 0, 1),
        (r'\btok->valueType\(\)->getSizeOf\(settings,\s*ValueType::Accuracy::ExactOrZero,\s*ValueType::SizeOf::Pointer\)', 'tok_size', 0, 2),
        (r'\bcontinue\s*;', 'return;', 0, 1),
    ], ID)
    if re.search(r'\btok\b|settings|std::|ValueFlow', extract.mask(t)):
        raise extract.ExtractError("K63: block not fully lowered: %r" % re.findall(r'[^\n]*(?:\btok\b|settings|std::|ValueFlow)[^\n]*', extract.mask(t))[:3])
    kb.rules_fired = n
    text = (_common.BASE + "int g_set;   /* number of values handed to the token */\n_Bool op1_unsigned, op2_unsigned, tok_has_vt;   /* flags of the operands / the token, read only if the guard asks for them */\n"
            "static void infer_block(_Bool is_minus, _Bool tok_unsigned, _Bool tok_pointer, size_t tok_size, int n_results)\n{\n%s\n}\n" % extract.strip_comments(t))
    extract.residue_scan(text, ID)
    kb.ctext = text + HARNESS
    kb.job("infer", "h_infer", replay="minus", note="loop-free region (the loop over the results is a count of at most 3): every combination of operator, result type flags and size")
    kb.job("cover", "h_cover", kind="cover")
    kb.assumptions += ["infer() is a count of results (its interval arithmetic is K43's contract); astIsUnsigned / astIsPointer / getSizeOf are flags of the token",
                       "64-bit unsigned subtractions keep their inferred bounds (TestStl::outOfBounds of the unedited suite relies on them for size_t)"]

    def rp(inputs, ctx):
        rc, o, cmd = native.compile_run("replay_K63", REPLAY_CPP, [])
        return native.verdict_from_rc(rc, o), o, cmd
    kb.replayers["minus"] = rp
    return kb
