"""K67  ForwardTraversal::updateRange (lib/forwardanalyzer.cpp): leaving the body of an if / else / loop in which the analysis
started.

A value assigned inside the `else` body is still the variable's value after the `if` ... `else` only if the else body was
executed.  The block decides, from the known value of the controlling condition: the analysis stops when the body cannot have
been executed, goes on with the value as it is when the body was certainly executed, and lowers it to "possible" when the
condition is not known (or the body is a loop).
Contract (C01 / C03, C11 6.8.4.1p2): the then-body is executed iff the condition compares unequal to 0, the else-body iff it
compares equal to 0 - `if (31)` is a true condition.
"""
import re

from vlib import extract, native
from vlib.kernel import KernelBuild, located_rules
from . import _common

ID = "K67"
SERVES = ["C01", "C03", "C13"]
TITLE = "forward analysis leaving an if / else body: a condition is true if it is not zero"

HARNESS = r'''
bigint g_in_cond; int g_in_known, g_in_else, g_in_loop;
void h_exit(void) {
    _Bool known = nondet_bool(), in_else = nondet_bool(), in_loop = nondet_bool(), lower_ok = nondet_bool(); bigint cond = nondet_bigint();
    g_in_cond = cond; g_in_known = known; g_in_else = in_else; g_in_loop = in_loop;
    g_lowered = 0;
    int r = scope_exit(known, cond, in_else, in_loop, lower_ok);
    if (!known || in_loop) {
        __CPROVER_assert(g_lowered && r == (lower_ok ? 0 : 2), "an unknown condition (or a loop body): the value is lowered to possible, or the analysis bails out");
        return;
    }
    _Bool body_executed = in_else ? (cond == 0) : (cond != 0);
    __CPROVER_assert((r == 1) == !body_executed, "the analysis stops exactly when the body it started in cannot have been executed");
    __CPROVER_assert(!g_lowered, "a known condition does not lower the value");
}
void h_cover(void) {
    g_lowered = 0;
    __CPROVER_assert(!(scope_exit(1, 31, 1, 0, 1) == 1), "COVER: else body of `if (31)` is not executed");
    __CPROVER_assert(!(scope_exit(1, 0, 1, 0, 1) == 0), "COVER: else body of `if (0)` is executed");
}
'''

REPLAY_CPP = r'''
#include "settings.h"
#include "tokenize.h"
#include "tokenlist.h"
#include "token.h"
#include "errorlogger.h"
#include "color.h"
#include "platform.h"
#include <cstdio>
struct Log : ErrorLogger {
    void reportOut(const std::string &, Color) override {}
    void reportErr(const ErrorMessage &) override {}
    void reportMetric(const std::string &) override {}
};
int main() {
    const std::string code = "void g(void); void f(void) { int v = 2; if (31) { v = 4; } else { v = 0; } if (v == 4) { g(); } }";
    Settings settings; settings.platform.set(Platform::Type::Unix64); Log log;
    Tokenizer tokenizer(TokenList(settings, Standards::Language::C), log);
    tokenizer.list.appendFileIfNew("t.c");
    if (!tokenizer.list.createTokensFromBuffer(code.data(), code.size()) || !tokenizer.simplifyTokens1("")) return 2;
    for (const Token *tok = tokenizer.tokens(); tok; tok = tok->next()) {
        if (tok->str() != "==" || !Token::simpleMatch(tok->astOperand1(), "v")) continue;
        if (!tok->hasKnownIntValue()) { printf("%s: `v == 4` has no known value\n", code.c_str()); return 0; }
        printf("%s: `v == 4` has the known value %lld; v is 4\n", code.c_str(), (long long)tok->getKnownIntValue());
        return tok->getKnownIntValue() == 1 ? 0 : 1;
    }
    return 2;
}
'''


def build(ctx):
    kb = KernelBuild(ID, TITLE)
    src = extract.read("lib/forwardanalyzer.cpp")
    m = extract.mask(src)
    s = list(re.finditer(r'if \(!condTok->hasKnownIntValue\(\) \|\| inLoop\)\s*\{', m))
    if len(s) != 1:
        raise extract.ExtractError("forwardanalyzer.cpp: the decision on the controlling condition at the end of a body found %d times" % len(s))
    c1 = extract.match_brace(src, s[0].end() - 1, m)
    e = re.compile(r'\s*else if \([^{]*\{').match(m, c1 + 1)
    if not e:
        raise extract.ExtractError("forwardanalyzer.cpp: the `else if` on the known value of the condition not found")
    c2 = extract.match_brace(src, e.end() - 1, m)
    head = extract.strip_comments(src[max(0, s[0].start() - 1500):s[0].start()])
    if not re.search(r'const bool inElse = scope->type == ScopeType::eElse\s*;', head) or not re.search(r'Token\* condTok = getCondTokFromEnd\(tok\)\s*;', head):
        raise extract.ExtractError("forwardanalyzer.cpp: inElse / condTok are no longer what the region assumes")
    reg = extract.Located("lib/forwardanalyzer.cpp", src[s[0].start():c2 + 1], s[0].start(), c2 + 1, src)
    kb.add_located("ForwardTraversal::updateRange [end of an if / else / loop body]", reg, "region")
    t, n = located_rules(reg, [
        (r'!condTok->hasKnownIntValue\(\)', '!cond_known', 1, 1),
        (r'\bcondTok->getKnownIntValue\(\)', 'cond_value', 1, 1),
        (r'!analyzer->lowerToPossible\(\)', '(g_lowered = 1, !lower_ok)', 1, 1),
        (r'\breturn Break\(Analyzer::Terminate::Bail\)\s*;', 'return 2;', 1, 1),
        (r'\breturn Break\(\)\s*;', 'return 1;', 1, 1),
    ], ID)
    if re.search(r'condTok|analyzer|Break|::', extract.mask(t)):
        raise extract.ExtractError("K67: region not fully lowered: %r" % t[:400])
    kb.rules_fired = n
    text = (_common.BASE + "_Bool g_lowered;   /* analyzer->lowerToPossible() was called */\n"
            "/* 0: the analysis goes on, 1: it stops (the body was not executed), 2: it bails out */\n"
            "static int scope_exit(_Bool cond_known, bigint cond_value, _Bool inElse, _Bool inLoop, _Bool lower_ok)\n{\n%s\n    return 0;\n}\n" % extract.strip_comments(t))
    extract.residue_scan(text, ID)
    kb.ctext = text + HARNESS
    kb.job("exit", "h_exit", replay="ifelse", note="loop-free region: every known value of the condition, then / else / loop body")
    kb.job("cover", "h_cover", kind="cover")
    kb.assumptions += ["region interface: the condition's known value, the kind of the body (pinned by text: inElse is `scope->type == eElse`, condTok is getCondTokFromEnd), lowerToPossible an oracle",
                       "the rest of the forward traversal (loops, branches taken, escapes) is not verified"]

    def rp(inputs, ctx):
        rc, o, cmd = native.compile_run("replay_K67", REPLAY_CPP, [])
        return native.verdict_from_rc(rc, o), o, cmd
    kb.replayers["ifelse"] = rp
    return kb
