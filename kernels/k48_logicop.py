"""K48  CheckCondition::checkIncorrectLogicOperator (lib/checkcondition.cpp): the five-point evaluation that decides
"(x op1 v1) && / || (x op2 v2)" always true / always false / one condition redundant, and sufficientCondition().

Functions (templates instantiated for MathLib::bigint and MathLib::biguint by text): checkIntRelation, getvalue3, getvalue, sign,
sufficientCondition; region: the evaluation loop from `bool alwaysTrue = true, alwaysFalse = true;` to the strings of the message.
Operator spellings (std::string) are lowered to pointers to string literals, compared by content.
Ghost: x is ANY value of the comparison's integer domain (signed 64-bit, or unsigned 64-bit when a constant is LLONG_MAX and the
checker switches to the unsigned reading).  Contract (property C03):
    alwaysTrue  ==> the logical expression is true for every x        alwaysFalse ==> false for every x
    firstTrue   ==> cond2(x) implies cond1(x) for every x             secondTrue  ==> cond1(x) implies cond2(x)
    sufficientCondition == 1 (-1)  ==> the whole expression is equivalent to cond1 (cond2) for every x   [called when firstTrue || secondTrue]
and no undefined arithmetic on the constants.
"""
import re

from vlib import extract, native
from vlib.kernel import KernelBuild, located_rules
from . import _common

ID = "K48"
SERVES = ["C03", "C13"]
TITLE = "incorrectLogicOperator / redundantCondition: the five-point evaluation and sufficientCondition hold for every x"

PRELUDE = r'''
#include "vstr.h"
static _Bool op_is(const char *op, const char *lit) { size_t n = 0; while (op[n] != 0) n++; return vstr_eq(op, n, lit); }
static inline bigint MIN_I(bigint a, bigint b) { return b < a ? b : a; }
static inline biguint MIN_U(biguint a, biguint b) { return b < a ? b : a; }
double nondet_double(void);
static double getvalue_d(int test, double a, double b) { return nondet_double(); }
static _Bool checkFloatRelation(const char *op, double a, double b) { return nondet_bool(); }
'''

HARNESS = r'''
bigint g_in_i1, g_in_i2, g_in_x; biguint g_in_u1, g_in_u2, g_in_ux; int g_in_op1, g_in_op2, g_in_not1, g_in_not2, g_in_and, g_in_uns;
static const char *opname(int k) { return k == 0 ? "==" : k == 1 ? "!=" : k == 2 ? "<" : k == 3 ? "<=" : k == 4 ? ">" : ">="; }
static _Bool rel_i(int op, bigint a, bigint b) { return op == 0 ? a == b : op == 1 ? a != b : op == 2 ? a < b : op == 3 ? a <= b : op == 4 ? a > b : a >= b; }
static _Bool rel_u(int op, biguint a, biguint b) { return op == 0 ? a == b : op == 1 ? a != b : op == 2 ? a < b : op == 3 ? a <= b : op == 4 ? a > b : a >= b; }
void h_eval(void) {
    int op1 = nondet_int(), op2 = nondet_int(); _Bool not1 = nondet_bool(), not2 = nondet_bool(), isAnd = nondet_bool();
    __CPROVER_assume(op1 >= 0 && op1 <= 5 && op2 >= 0 && op2 <= 5);
    bigint i1 = nondet_bigint(), i2 = nondet_bigint();
    /* the checker reads a constant equal to LLONG_MAX again as unsigned (it may have been clamped) and then compares unsigned */
    _Bool useUnsignedInt = i1 == LLONG_MAX || i2 == LLONG_MAX;
    biguint u1 = 0, u2 = 0;
    if (useUnsignedInt) { u1 = nondet_biguint(); u2 = nondet_biguint(); __CPROVER_assume((i1 == LLONG_MAX ? u1 >= (biguint)LLONG_MAX : u1 == (biguint)i1) && (i2 == LLONG_MAX ? u2 >= (biguint)LLONG_MAX : u2 == (biguint)i2)); __CPROVER_assume(i1 >= 0 && i2 >= 0); }
    _Bool alwaysTrue, alwaysFalse, firstTrue, secondTrue;
    eval_block(opname(op1), opname(op2), not1, not2, isAnd, 0, useUnsignedInt, 0.0, 0.0, i1, i2, u1, u2, &alwaysTrue, &alwaysFalse, &firstTrue, &secondTrue);
    bigint x = nondet_bigint(); biguint ux = nondet_biguint();
    g_in_i1 = i1; g_in_i2 = i2; g_in_x = x; g_in_u1 = u1; g_in_u2 = u2; g_in_ux = ux; g_in_op1 = op1; g_in_op2 = op2; g_in_not1 = not1; g_in_not2 = not2; g_in_and = isAnd; g_in_uns = useUnsignedInt;
    _Bool c1 = useUnsignedInt ? rel_u(op1, ux, u1) : rel_i(op1, x, i1); if (not1) c1 = !c1;
    _Bool c2 = useUnsignedInt ? rel_u(op2, ux, u2) : rel_i(op2, x, i2); if (not2) c2 = !c2;
    _Bool whole = isAnd ? (c1 && c2) : (c1 || c2);
    if (alwaysTrue) __CPROVER_assert(whole, "alwaysTrue: the logical expression is true for every x");
    if (alwaysFalse) __CPROVER_assert(!whole, "alwaysFalse: the logical expression is false for every x");
    if (firstTrue) __CPROVER_assert(!c2 || c1, "firstTrue: the second condition implies the first for every x");
    if (secondTrue) __CPROVER_assert(!c1 || c2, "secondTrue: the first condition implies the second for every x");
}
void h_sufficient(void) {
    int op1 = nondet_int(), op2 = nondet_int(); _Bool not1 = nondet_bool(), not2 = nondet_bool(), isAnd = nondet_bool();
    __CPROVER_assume(op1 >= 0 && op1 <= 5 && op2 >= 0 && op2 <= 5);
    bigint i1 = nondet_bigint(), i2 = nondet_bigint(), x = nondet_bigint();
    g_in_i1 = i1; g_in_i2 = i2; g_in_x = x; g_in_op1 = op1; g_in_op2 = op2; g_in_not1 = not1; g_in_not2 = not2; g_in_and = isAnd; g_in_uns = 0;
    /* call-site precondition: one condition implies the other for every x (firstTrue || secondTrue); checked on the ghost x and a second ghost */
    _Bool alwaysTrue, alwaysFalse, firstTrue, secondTrue;
    eval_block(opname(op1), opname(op2), not1, not2, isAnd, 0, 0, 0.0, 0.0, i1, i2, 0, 0, &alwaysTrue, &alwaysFalse, &firstTrue, &secondTrue);
    __CPROVER_assume(!(i1 == LLONG_MAX || i2 == LLONG_MAX));
    __CPROVER_assume(!alwaysTrue && !alwaysFalse && (firstTrue || secondTrue));
    /* a condition that is constant on the whole 64-bit domain by itself (x >= LLONG_MIN, x > LLONG_MAX ...) is not a "condition" in the sense of the message */
    __CPROVER_assume(!((op1 == 5 || op1 == 2) && i1 == LLONG_MIN) && !((op1 == 3 || op1 == 4) && i1 == LLONG_MAX));
    __CPROVER_assume(!((op2 == 5 || op2 == 2) && i2 == LLONG_MIN) && !((op2 == 3 || op2 == 4) && i2 == LLONG_MAX));
    int which = sufficientCondition_i(opname(op1), not1, i1, opname(op2), not2, i2, isAnd);
    _Bool c1 = rel_i(op1, x, i1); if (not1) c1 = !c1;
    _Bool c2 = rel_i(op2, x, i2); if (not2) c2 = !c2;
    _Bool whole = isAnd ? (c1 && c2) : (c1 || c2);
    __CPROVER_assert(which >= -1 && which <= 1, "sufficientCondition returns -1, 0 or 1");
    if (which == 1) __CPROVER_assert(whole == c1, "`cond2 is redundant since cond1 is sufficient`: the expression is equivalent to cond1 for every x");
    if (which == -1) __CPROVER_assert(whole == c2, "`cond1 is redundant since cond2 is sufficient`: the expression is equivalent to cond2 for every x");
}
void h_cover(void) {
    _Bool at, af, ft, st;
    eval_block("<", ">", 0, 0, 1, 0, 0, 0.0, 0.0, 3, 5, 0, 0, &at, &af, &ft, &st);
    __CPROVER_assert(!af, "COVER: x < 3 && x > 5 is always false");
    eval_block("!=", "!=", 0, 0, 0, 0, 0, 0.0, 0.0, 3, 4, 0, 0, &at, &af, &ft, &st);
    __CPROVER_assert(!at, "COVER: x != 3 || x != 4 is always true");
    __CPROVER_assert(!(sufficientCondition_i(">", 0, 5, ">", 0, 3, 1) == 1), "COVER: x > 5 && x > 3: the first condition is sufficient");
}
'''

REPLAY_CPP = r'''
#include <cstdio>
int main() { printf("K48: the counterexample gives the two comparisons (operator index 0..5 for == != < <= > >=, negation flags, constants), the logical operator and a value of x; compare `cppcheck --enable=warning,style` on `void f(long long x){ if (x OP1 V1 && x OP2 V2) g(); }`\n"); return 0; }
'''


def build(ctx):
    kb = KernelBuild(ID, TITLE)
    src = "lib/checkcondition.cpp"
    n = 0
    OPS = [
        (r'\b(op[12]?)\s*==\s*("(?:[^"\\]|\\.)*")', r'op_is(\1, \2)', 0),
        (r'\b(op[12]?)\s*!=\s*("(?:[^"\\]|\\.)*")', r'!op_is(\1, \2)', 0),
    ]
    out = []

    def inst(fn_rx, name, what, extra, suffixes):
        nonlocal n
        f = extract.locate_function(src, fn_rx)
        kb.add_located(what, f)
        for suf, T in suffixes:
            t, k = located_rules(f, [(r'^template<(?:typename|class) T>\s*', '', 1, 1)] + extra(suf, T) + [
                (r'std::numeric_limits<T>::max\(\)', 'LLONG_MAX' if T == "bigint" else 'ULLONG_MAX', 0),
                (r'std::numeric_limits<T>::lowest\(\)', 'LLONG_MIN' if T == "bigint" else '0', 0),
                (r'\bconst T\b', 'const %s' % T, 0), (r'\bT\b', T, 0),
            ] + OPS, ID + "." + name + suf); n += k
            if re.search(r'std::|template|typename', extract.mask(t)):
                raise extract.ExtractError("K48 %s: not fully lowered: %r" % (name, re.findall(r'[^\n]*(?:std::|template|typename)[^\n]*', extract.mask(t))[:3]))
            out.append(t + "\n")

    both = [("_i", "bigint"), ("_u", "biguint")]
    inst(r'^template<typename T>\s*static int compareValues\(const T a, const T b\)', "compareValues", "compareValues<T>",
         lambda s, T: [(r'static int compareValues\(', 'static int compareValues%s(' % s, 1, 1)], [("_i", "bigint")])
    inst(r'^template<typename T>\s*static bool checkIntRelation\(', "checkIntRelation", "checkIntRelation<T>",
         lambda s, T: [(r'static bool checkIntRelation\(const std::string &op,', 'static _Bool checkIntRelation%s(const char *op,' % s, 1, 1)], both)
    inst(r'^template<class T>\s*static T getvalue3\(', "getvalue3", "getvalue3<T>",
         lambda s, T: [(r'static T getvalue3\(', 'static T getvalue3%s(' % s, 1, 1), (r'std::min\(', 'MIN_I(' if T == "bigint" else 'MIN_U(', 1, 1)], both)
    inst(r'^template<class T>\s*static inline T getvalue\(', "getvalue", "getvalue<T>",
         lambda s, T: [(r'static inline T getvalue\(', 'static T getvalue%s(' % s, 1, 1), (r'getvalue3<T>\(', 'getvalue3%s(' % s, 1, 1)], both)
    # sufficientCondition<bigint>: the lambda becomes a function (rule), std::string parameters become pointers to literals
    f = extract.locate_function(src, r'^template<typename T>\s*static int sufficientCondition\(')
    kb.add_located("sufficientCondition<T>", f)
    body_t = extract.strip_comments(f.text)
    ml = re.search(r'auto transformOp = \[\]\(std::string& op, const bool invert\)\s*\{', body_t)
    if not ml:
        raise extract.ExtractError("sufficientCondition: lambda transformOp not found")
    lo = body_t.index('{', ml.end() - 1)
    lc = extract.match_brace(body_t, lo, extract.mask(body_t))
    lam_body = body_t[lo:lc + 1]
    if not re.match(r'\s*;', body_t[lc + 1:]):
        raise extract.ExtractError("sufficientCondition: unexpected text after the lambda")
    rest = body_t[:ml.start()] + body_t[body_t.index(';', lc) + 1:]
    lam, k = extract.apply_rules(lam_body, [
        (r'\bop\s*==\s*("(?:[^"\\]|\\.)*")', r'op_is(*op, \1)', 6),
        (r'\bop\s*=\s*("(?:[^"\\]|\\.)*")\s*;', r'*op = \1;', 6),
    ], ID + ".transformOp"); n += sum(c for _, c in k)
    out.append("static void transformOp(const char **op, const _Bool invert)\n%s\n" % lam)
    t, k = extract.apply_rules(rest, extract.GENERIC + [
        (r'^template<typename T>\s*', '', 1, 1),
        (r'static int sufficientCondition\(std::string op1, const bool not1, const T value1, std::string op2, const bool not2, const T value2, const bool isAnd\)',
         'static int sufficientCondition_i(const char *op1, const _Bool not1, const bigint value1, const char *op2, const _Bool not2, const bigint value2, const _Bool isAnd)', 1, 1),
        (r'\btransformOp\((op[12]), (not[12])\)\s*;', r'transformOp(&\1, \2);', 2, 2),
        (r'\bop1\s*==\s*op2\b', 'op_is(op1, op2)', 1, 1),
        (r'\bcompareValues\(', 'compareValues_i(', 6),
    ] + OPS, ID + ".sufficientCondition"); n += sum(c for _, c in k)
    if re.search(r'std::|template|typename|\bT\b|auto', extract.mask(t)):
        raise extract.ExtractError("K48 sufficientCondition: not fully lowered: %r" % re.findall(r'[^\n]*(?:std::|template|typename|\bT\b|auto)[^\n]*', extract.mask(t))[:3])
    out.append(t + "\n")
    # the evaluation loop of checkIncorrectLogicOperator
    g = extract.locate_function(src, r'^void CheckCondition::checkIncorrectLogicOperator\s*\(\s*\)')
    gm = extract.mask(g.text)
    s = list(re.finditer(r'bool alwaysTrue = true, alwaysFalse = true\s*;', gm))
    e = list(re.finditer(r'const std::string cond1str = conditionString\(', gm))
    if len(s) != 1 or len(e) != 1 or e[0].start() < s[0].end():
        raise extract.ExtractError("checkIncorrectLogicOperator: evaluation loop anchors not found")
    # the constants feeding the loop: pinned by text
    pre = " ".join(extract.strip_comments(g.text[:s[0].start()]).split())
    for piece in ('const MathLib::bigint i1 = isfloat ? 0 : MathLib::toBigNumber(value1, expr1);', 'const MathLib::bigint i2 = isfloat ? 0 : MathLib::toBigNumber(value2, expr2);',
                  'const bool useUnsignedInt = (std::numeric_limits<MathLib::bigint>::max()==i1) || (std::numeric_limits<MathLib::bigint>::max()==i2);',
                  'const MathLib::biguint u1 = useUnsignedInt ? MathLib::toBigUNumber(value1, expr1) : 0;'):
        if piece.replace(" ", "") not in pre.replace(" ", ""):
            raise extract.ExtractError("checkIncorrectLogicOperator: the constants of the evaluation changed: %r missing" % piece)
    reg = extract.Located(src, g.text[s[0].start():e[0].start()], g.start + s[0].start(), g.start + e[0].start(), extract.read(src))
    kb.add_located("CheckCondition::checkIncorrectLogicOperator [five-point evaluation]", reg, "region")
    tr, k = located_rules(reg, [
        (r'const bool isAnd = tok->str\(\) == "&&"\s*;', '', 1, 1),
        (r'const auto testvalue = getvalue<double>\(test, d1, d2\)\s*;', 'const double testvalue = getvalue_d(test, d1, d2);', 1, 1),
        (r'const auto testvalue = getvalue<biguint>\(test, u1, u2\)\s*;', 'const biguint testvalue = getvalue_u(test, u1, u2);', 1, 1),
        (r'const auto testvalue = getvalue<bigint>\(test, i1, i2\)\s*;', 'const bigint testvalue = getvalue_i(test, i1, i2);', 1, 1),
        (r'checkIntRelation\((op[12]), testvalue, (u[12])\)', r'checkIntRelation_u(\1, testvalue, \2)', 2, 2),
        (r'checkIntRelation\((op[12]), testvalue, (i[12])\)', r'checkIntRelation_i(\1, testvalue, \2)', 2, 2),
        (r'\bbool\b', '_Bool', 3),
    ], ID + ".eval"); n += k
    if re.search(r'std::|tok->|auto|MathLib', extract.mask(tr)):
        raise extract.ExtractError("K48 eval: not fully lowered: %r" % re.findall(r'[^\n]*(?:std::|tok->|auto|MathLib)[^\n]*', extract.mask(tr))[:3])
    out.append("static void eval_block(const char *op1, const char *op2, _Bool not1, _Bool not2, _Bool isAnd, _Bool isfloat, _Bool useUnsignedInt, double d1, double d2, bigint i1, bigint i2, biguint u1, biguint u2,\n"
               "                       _Bool *at, _Bool *af, _Bool *ft, _Bool *st)\n{\n%s\n    *at = alwaysTrue; *af = alwaysFalse; *ft = firstTrue; *st = secondTrue;\n}\n" % extract.strip_comments(tr))
    kb.rules_fired = n
    text = _common.BASE + PRELUDE + "".join(out)
    extract.residue_scan(text, ID)
    kb.ctext = text + HARNESS
    kb.job("eval", "h_eval", unwind=8, replay="note", note="all operator pairs, negations, && and ||, all 64-bit constants (signed; unsigned when a constant is LLONG_MAX), every x")
    kb.job("sufficient", "h_sufficient", unwind=8, replay="note", note="sufficientCondition<bigint> under its call-site precondition, every x")
    kb.job("cover", "h_cover", kind="cover", unwind=8)
    kb.assumptions += ["operator spellings are pointers to string literals compared by content; the float instantiation (getvalue<double>, checkFloatRelation) is not verified",
                       "the constants are the values of the two number tokens (MathLib::toBigNumber / toBigUNumber, pinned by text); a constant equal to LLONG_MAX may stand for any unsigned value >= LLONG_MAX",
                       "x ranges over the 64-bit domain the checker uses; the conversions of the compared expression's real type are not modelled"]

    def rnote(inputs, ctx):
        rc, o, cmd = native.compile_run("replay_K48", REPLAY_CPP, [], need_core=False)
        return "none", o, cmd
    kb.replayers["note"] = rnote
    return kb
