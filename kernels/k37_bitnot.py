"""K37  constant folding of unary `~` in ValueFlow::setTokenValue (lib/vf_settokenvalue.cpp).

Region: from `v.intvalue = ~v.intvalue;` to the hand-over `setTokenValue(parent, ...)`.  Postcondition (C11 6.5.3.3 +
6.3.1.1): the operand is integer-promoted, the result is the complement in the promoted type; values of unsigned
types are kept modulo 2^width (cppcheck's convention for unsigned values in MathLib::bigint).
"""
import re

from vlib import extract, native
from vlib.kernel import KernelBuild, located_rules
from . import _common

ID = "K37"
SERVES = ["C10", "C01", "C13"]
TITLE = "constant folding of ~ follows the integer promotions"

HARNESS = r'''
bigint g_in_x; int g_in_type, g_in_sign, g_in_long_bit;
void h_bitnot(void) {
    struct Platform pl; pl.char_bit = 8; pl.short_bit = 16; pl.int_bit = 32; pl.long_bit = nondet_uchar(); pl.long_long_bit = 64; __CPROVER_assume(pl.long_bit == 32 || pl.long_bit == 64);
    enum VType t = (enum VType)nondet_int(); enum Sign s = (enum Sign)nondet_int();
    __CPROVER_assume(t >= VType_BOOL && t <= VType_LONGLONG && t != VType_WCHAR_T && (s == Sign_SIGNED || s == Sign_UNSIGNED));
    int w = t == VType_BOOL ? 1 : t == VType_CHAR ? 8 : t == VType_SHORT ? 16 : t == VType_INT ? 32 : t == VType_LONG ? pl.long_bit : 64;
    bigint x = nondet_bigint();
    /* the operand's value is a value of its type */
    if (t == VType_BOOL) __CPROVER_assume(x == 0 || x == 1);
    else if (w < 64) { if (s == Sign_UNSIGNED) __CPROVER_assume(x >= 0 && x <= (bigint)((1ULL << w) - 1)); else __CPROVER_assume(x >= -(bigint)(1ULL << (w - 1)) && x <= (bigint)((1ULL << (w - 1)) - 1)); }
    g_in_x = x; g_in_type = t; g_in_sign = s; g_in_long_bit = pl.long_bit;
    bigint r = bitnot_block(x, 1, t, s, 0, &pl);
    /* promoted type: everything narrower than int becomes (signed) int on a platform whose int is wider than short */
    int pw = w < 32 ? 32 : w; _Bool pu = w < 32 ? 0 : (s == Sign_UNSIGNED);
    bigint want = pu && pw < 64 ? (bigint)((~(biguint)x) & ((1ULL << pw) - 1)) : ~x;
    __CPROVER_assert(r == want, "~x is the complement in the integer-promoted type of the operand");
}
/* impossible values with a bound: "x <= v never" (bound 0, Upper), "x >= v never" (bound 1, Lower), "x != v" (bound 2, Point) */
int g_in_bound; bigint g_in_v;
static _Bool imp_fact(int bound, bigint v, bigint x) { return bound == 2 ? x != v : bound == 0 ? x > v : x < v; }
void h_bitnot_bounds(void) {
    struct Platform pl; pl.char_bit = 8; pl.short_bit = 16; pl.int_bit = 32; pl.long_bit = nondet_uchar(); pl.long_long_bit = 64; __CPROVER_assume(pl.long_bit == 32 || pl.long_bit == 64);
    enum VType t = (enum VType)nondet_int(); enum Sign s = (enum Sign)nondet_int();
    __CPROVER_assume(t >= VType_CHAR && t <= VType_LONG && t != VType_WCHAR_T && (s == Sign_SIGNED || s == Sign_UNSIGNED));
    int w = t == VType_CHAR ? 8 : t == VType_SHORT ? 16 : t == VType_INT ? 32 : pl.long_bit;
    __CPROVER_assume(w < 64);          /* 64-bit operands: ordering of unsigned patterns above LLONG_MAX is not decided */
    bigint x = nondet_bigint(), v = nondet_bigint(); int bound = nondet_int(); __CPROVER_assume(bound >= 0 && bound <= 2);
    /* x is a value of the type; the bound v of a fact need not be one: `x > -1` is a fact cppcheck attaches to every unsigned
       expression, `x < max + 1` is equally true (one step outside the range on either side; point facts stay in range) */
    int slack = bound == 2 ? 0 : 1;
    if (s == Sign_UNSIGNED) __CPROVER_assume(x >= 0 && x <= (bigint)((1ULL << w) - 1) && v >= -slack && v <= (bigint)((1ULL << w) - 1) + slack);
    else __CPROVER_assume(x >= -(bigint)(1ULL << (w - 1)) && x <= (bigint)((1ULL << (w - 1)) - 1) && v >= -(bigint)(1ULL << (w - 1)) - slack && v <= (bigint)((1ULL << (w - 1)) - 1) + slack);
    __CPROVER_assume(imp_fact(bound, v, x));
    g_in_x = x; g_in_v = v; g_in_bound = bound; g_in_type = t; g_in_sign = s; g_in_long_bit = pl.long_bit;
    int b2 = bound; _Bool dropped = 0;
    bigint nv = bitnot_block3(v, &b2, 1, &dropped, 1, t, s, 0, &pl);
    if (dropped) return;               /* no value is handed on: nothing is claimed */
    int pw = w < 32 ? 32 : w; _Bool pu = w < 32 ? 0 : (s == Sign_UNSIGNED);
    bigint y = pu ? (bigint)((~(biguint)x) & ((1ULL << pw) - 1)) : ~x;
    __CPROVER_assert(imp_fact(b2, nv, y), "an impossible value of x (with its bound) handed on through ~ is a true fact about ~x in the promoted type");
}
void h_cover(void) {
    struct Platform pl; pl.int_bit = 32; pl.long_bit = 64;
    __CPROVER_assert(!(bitnot_block(0, 1, VType_INT, Sign_UNSIGNED, 0, &pl) == 4294967295LL), "COVER: ~0U is 4294967295");
    __CPROVER_assert(!(bitnot_block(0, 1, VType_CHAR, Sign_UNSIGNED, 0, &pl) == -1), "COVER: ~(unsigned char)0 is -1");
}
'''

REPLAY_CPP = r'''
#include <cstdio>
int main() { printf("K37: see the verifier counterexample; `cppcheck --debug` prints the value of the ~ expression\n"); return 0; }
'''


def build(ctx):
    kb = KernelBuild(ID, TITLE)
    enums, _ = _common.valuetype_enums()
    pstruct, fields, _ = _common.platform_struct()
    mb = re.search(r'const\s+int\s+MathLib::bigint_bits\s*=\s*(\d+)\s*;', extract.read("lib/mathlib.cpp"))
    if not mb:
        raise extract.ExtractError("MathLib::bigint_bits definition not found")
    f = extract.locate_function("lib/vf_settokenvalue.cpp", r'^\s*void\s+setTokenValue\s*\(\s*Token\s*\*\s*tok\s*,')
    m = extract.mask(f.text)
    s = list(re.finditer(r'v\.intvalue\s*=\s*~v\.intvalue\s*;', m))
    if len(s) != 1:
        raise extract.ExtractError("setTokenValue: `v.intvalue = ~v.intvalue;` found %d times" % len(s))
    e = re.compile(r'setTokenValue\(parent,\s*std::move\(v\),\s*settings\)\s*;').search(m, s[0].end())
    if not e:
        raise extract.ExtractError("setTokenValue: hand-over after the ~ block not found")
    reg = extract.Located("lib/vf_settokenvalue.cpp", f.text[s[0].start():e.start()], f.start + s[0].start(), f.start + e.start(), extract.read("lib/vf_settokenvalue.cpp"))
    kb.add_located("ValueFlow::setTokenValue [unary ~ block]", reg, "region")
    t, n = located_rules(reg, _common.VT_RULES + [
        (r'\bv\.intvalue\b', 'v_intvalue', 3),
        (r'\bv\.invertBound\(\)\s*;', 'if (*v_bound == 1) *v_bound = 0; else if (*v_bound == 0) *v_bound = 1;   /* Value::invertBound (extracted and checked in K44): 0 Upper, 1 Lower, 2 Point */', 0, 1),
        (r'\bv\.isImpossible\(\)', 'v_impossible', 0, 1),
        (r'\bv\.bound != Value::Bound::Point\b', '*v_bound != 2', 0, 1),
        (r'\bval\.intvalue\b', 'val_intvalue', 0),
        (r'\bcontinue\s*;', '{ *dropped = 1; return 0; }', 0, 1),
        (r'\btok->valueType\(\)->(sign|type|pointer)\b', r'vt_\1', 3),
        (r'\btok->valueType\(\)(?!->)', 'has_vt', 1, 1),
        (r'\bsettings\.platform\.(\w+)', r'platform->\1', 2),
        (r'\bMathLib::bigint_bits\b', 'BIGINT_BITS', 1, 1),
    ], ID)
    if re.search(r'tok->|settings\.|MathLib', extract.mask(t)):
        raise extract.ExtractError("K37: part of the ~ block was not lowered: %r" % t.strip()[:300])
    kb.rules_fired = n
    text = (_common.BASE + enums + pstruct + "#define BIGINT_BITS %s\n" % mb.group(1) +
            "static int g_bound_dummy;\n"
            "bigint bitnot_block3(bigint v_intvalue, int *v_bound, _Bool v_impossible, _Bool *dropped, _Bool has_vt, enum VType vt_type, enum Sign vt_sign, int vt_pointer, const struct Platform *platform)\n{\n    const bigint val_intvalue = v_intvalue;   /* Value v(val) */\n%s\n    return v_intvalue;\n}\n"
            "bigint bitnot_block2(bigint v_intvalue, int *v_bound, _Bool has_vt, enum VType vt_type, enum Sign vt_sign, int vt_pointer, const struct Platform *platform) { _Bool d = 0; return bitnot_block3(v_intvalue, v_bound, 1, &d, has_vt, vt_type, vt_sign, vt_pointer, platform); }\n"
            "bigint bitnot_block(bigint v_intvalue, _Bool has_vt, enum VType vt_type, enum Sign vt_sign, int vt_pointer, const struct Platform *platform) { int b = 2; _Bool d = 0; return bitnot_block3(v_intvalue, &b, 0, &d, has_vt, vt_type, vt_sign, vt_pointer, platform); }\n"
            % extract.strip_comments(t))
    extract.residue_scan(text, ID)
    kb.ctext = text + HARNESS
    kb.job("bitnot", "h_bitnot", note="loop-free region: complete in the operand value, its type and sign, long 32/64")
    kb.job("bounds", "h_bitnot_bounds", note="loop-free region: impossible values with upper / lower / point bound, operand types up to 32 bits (and 64-bit long excluded), every operand value")
    kb.job("cover", "h_cover", kind="cover")
    kb.assumptions += ["region interface: (value, operand type/sign/pointer, platform); int is 32 bits and wider than short (built-in platforms)",
                       "unsigned values are carried modulo 2^width in MathLib::bigint; unsigned long long results are compared as 64-bit patterns"]
    return kb
