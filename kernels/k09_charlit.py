"""K09  simplecpp::characterLiteralToLL and stringToULLbounded (externals/simplecpp/simplecpp.cpp): the value of a
character literal, used by the preprocessor (`#if 'a' == 97`) and, through MathLib, for the values of character tokens.

C13: for EVERY spelling (any bytes) the function stays inside the string and performs no undefined operation - it either
returns or throws.  C10: when it returns and the spelling is a literal of the reference subset (specs/charlit_ref.h), the
value is the one a compiler computes.

`s.substr(pos, maxlen)` + `std::strtoull(start, &end, base)` is lowered to one model call (prelude below): glibc's strtoull
on the bounded substring - white space, sign, optional 0x for base 16, digits, saturation - written out in C.
Bounded: every spelling of up to N bytes (N = 6 quick, 7 thorough), all byte values.
"""
import re

from vlib import extract, native
from vlib.kernel import KernelBuild, located_rules
from . import _common

ID = "K09"
SERVES = ["C10", "C13"]
TITLE = "characterLiteralToLL: memory-safe on every spelling; value of the literal as a compiler computes it"

PRELUDE = r'''
#define CHARLIT_MAX @N@
#include "charlit_ref.h"
/* model of `s.substr(pos, maxlen)` followed by `strtoull(sub.c_str(), &end, base)`: returns the value, *used = end - start.
   The text is s[pos .. min(pos + maxlen, s_len)); the string is NUL-terminated, strtoull stops at the NUL. */
static int dig_of(unsigned char c) { return (c >= '0' && c <= '9') ? c - '0' : (c >= 'a' && c <= 'z') ? c - 'a' + 10 : (c >= 'A' && c <= 'Z') ? c - 'A' + 10 : 99; }
static unsigned long long model_substr_strtoull(const char *s, size_t s_len, size_t pos, size_t maxlen, int base, size_t *used)
{
    __CPROVER_assert(pos <= s_len, "std::string::substr: pos <= size() (else std::out_of_range)");
    size_t avail = s_len - pos; if (maxlen < avail) avail = maxlen;
    size_t i = 0; _Bool neg = 0;
    for (int k = 0; k < CHARLIT_MAX; k++) { if (i < avail && (s[pos + i] == ' ' || (s[pos + i] >= 9 && s[pos + i] <= 13))) i++; else break; }
    if (i < avail && (s[pos + i] == '+' || s[pos + i] == '-')) { neg = s[pos + i] == '-'; i++; }
    if (base == 16 && i + 1 < avail && s[pos + i] == '0' && (s[pos + i + 1] == 'x' || s[pos + i + 1] == 'X') && i + 2 < avail && dig_of((unsigned char)s[pos + i + 2]) < 16) i += 2;
    size_t first = i; unsigned long long v = 0; _Bool over = 0;
    for (int k = 0; k < CHARLIT_MAX; k++) {
        if (i < avail && s[pos + i] != 0 && dig_of((unsigned char)s[pos + i]) < base) {
            unsigned d = (unsigned)dig_of((unsigned char)s[pos + i]);
            if (v > (~0ULL - d) / (unsigned)base) over = 1; else v = v * (unsigned)base + d;
            i++;
        } else break;
    }
    if (i == first) { *used = 0; return 0; }
    *used = i;
    if (over) return ~0ULL;
    return neg ? (0ULL - v) : v;
}
'''

HARNESS = r'''
#define N @N@
unsigned char g_in_s[N + 1]; size_t g_in_len;
static size_t mk_spelling(char *buf) {
    size_t n = nondet_size_t(); __CPROVER_assume(n <= N);
    for (int i = 0; i < N; i++) { char c = nondet_char(); if ((size_t)i < n) __CPROVER_assume(c != 0); buf[i] = (size_t)i < n ? c : 0; }
    buf[N] = 0;
    for (int i = 0; i <= N; i++) g_in_s[i] = (unsigned char)buf[i];
    g_in_len = n;
    return n;
}
void h_charlit(void) {
    char buf[N + 1]; size_t n = mk_spelling(buf);
    verif_thrown = 0;
    long long r = characterLiteralToLL(buf, n);
    long long want = 0;
    int ok = charlit_ref((const unsigned char *)buf, n, &want);
    if (!verif_thrown && ok) __CPROVER_assert(r == want, "the value of an accepted character literal is the value a compiler computes");
}
void h_cover(void) {
    char buf[N + 1]; size_t n = mk_spelling(buf);
    verif_thrown = 0;
    long long r = characterLiteralToLL(buf, n);
    long long want = 0; int ok = charlit_ref((const unsigned char *)buf, n, &want);
    __CPROVER_assert(!(ok && !verif_thrown && n == N && r < 0), "COVER: a literal of maximal length with a negative value");
    __CPROVER_assert(!(ok && !verif_thrown && buf[0] == 'L' && r == 0x41), "COVER: L'A'");
    __CPROVER_assert(!(verif_thrown), "COVER: a spelling is refused");
    __CPROVER_assert(!(ok && !verif_thrown && buf[1] == '\\' && buf[2] == 'x' && r == 255), "COVER: a hexadecimal escape");
}
'''

REPLAY_CPP = r'''
#include "@REPO@/externals/simplecpp/simplecpp.h"
#include <cstdio>
#include <cstdlib>
#include <string>
#include <stdexcept>
int main(int argc, char **argv) {
    std::string s; for (int i = 3; i < argc; i++) s += (char)atoi(argv[i]);
    const bool haveWant = atoi(argv[1]) != 0; const long long want = atoll(argv[2]);
    printf("spelling:"); for (unsigned char c : s) printf(c >= 32 && c < 127 ? " %c" : " \\x%02x", c); printf("\n");
    try {
        const long long r = simplecpp::characterLiteralToLL(s);
        printf("characterLiteralToLL = %lld", r);
        if (haveWant) printf(", a compiler gives %lld", want);
        printf("\n");
        return (haveWant && r != want) ? 1 : 0;
    } catch (const std::exception &e) { printf("refused: %s\n", e.what()); return 0; }
}
'''


def build(ctx):
    kb = KernelBuild(ID, TITLE)
    N = 7 if ctx.tier == "thorough" else 6
    src = "externals/simplecpp/simplecpp.cpp"
    n = 0
    # stringToULLbounded
    fs = extract.locate_function(src, r'^static unsigned long long stringToULLbounded\s*\(')
    kb.add_located("stringToULLbounded", fs)
    sig_s, body_s = extract.body_of(extract.strip_comments(fs.text))
    if not re.search(r'const\s+std::string\s*&\s*s\s*,\s*std::size_t\s*&\s*pos\s*,\s*int\s+base\s*=\s*0\s*,\s*std::ptrdiff_t\s+minlen\s*=\s*1\s*,\s*std::size_t\s+maxlen\s*=\s*std::string::npos', sig_s):
        raise extract.ExtractError("stringToULLbounded: signature changed: %r" % " ".join(sig_s.split())[:300])
    # `pos` is a reference parameter; the substr / c_str / strtoull / end-start group becomes the model call on the same (pos, length) pair
    th, k = extract.apply_rules(body_s, extract.GENERIC + [
        (r'const std::string sub = s\.substr\(pos,\s*(\w+)\)\s*;\s*const char \* const start = sub\.c_str\(\)\s*;\s*char\s*\*\s*end\s*;\s*'
         r'const unsigned long long value = std::strtoull\(start,\s*&end,\s*base\)\s*;\s*pos \+= end - start\s*;\s*if \(end - start < minlen\)',
         r'size_t used; const unsigned long long value = model_substr_strtoull(s, s_len, pos, \1, base, &used); pos += used; if ((ptrdiff_t)used < minlen)', 1, 1),
        (r'throw std::runtime_error\("[^"]*"\)\s*;', '{ VERIF_THROW(); return 0; }', 1),
        (r'\bs\.size\(\)', 's_len', 0),
        (r'\bpos\b', '(*pos)', 1),
    ], ID + ".stringToULLbounded"); n += sum(c for _, c in k)
    if re.search(r'std::|\bsub\b|\bend\b', extract.mask(th)):
        raise extract.ExtractError("stringToULLbounded: not fully lowered: %r" % th[:400])
    helper = ("static unsigned long long stringToULLbounded(const char *s, size_t s_len, size_t *pos, int base, ptrdiff_t minlen, size_t maxlen)\n%s\n" % th)
    # characterLiteralToLL
    f = extract.locate_function(src, r'^long long simplecpp::characterLiteralToLL\s*\(')
    kb.add_located("simplecpp::characterLiteralToLL", f)
    t, k = located_rules(f, [
        (r'^long long simplecpp::characterLiteralToLL\s*\(\s*const std::string\s*&\s*str\s*\)', 'long long characterLiteralToLL(const char *str, size_t str_len)', 1, 1),
        (r'!str\.empty\(\)', '(str_len != 0)', 1, 1),
        (r'\bstr\.size\(\)', 'str_len', 5),
        (r'throw std::runtime_error\("[^"]*"\)\s*;', '{ VERIF_THROW(); return 0; }', 10),
        (r'\bvalue = stringToULLbounded\(str,\s*--pos,\s*8,\s*1,\s*3\)\s*;', 'value = (--pos, stringToULLbounded(str, str_len, &pos, 8, 1, 3)); if (verif_thrown) return 0;', 1, 1),
        (r'\bvalue = stringToULLbounded\(str,\s*pos,\s*16\)\s*;', 'value = stringToULLbounded(str, str_len, &pos, 16, 1, (size_t)-1); if (verif_thrown) return 0;', 1, 1),
        (r'\bvalue = stringToULLbounded\(str,\s*pos,\s*16,\s*ndigits,\s*ndigits\)\s*;', 'value = stringToULLbounded(str, str_len, &pos, 16, (ptrdiff_t)ndigits, ndigits); if (verif_thrown) return 0;', 1, 1),
        (r'std::numeric_limits<unsigned char>::max\(\)', 'UCHAR_MAX', 1, 1),
    ], ID); n += k
    if re.search(r'std::|stringToULLbounded\(str,(?!\s*str_len)', extract.mask(t)):
        raise extract.ExtractError("K09: characterLiteralToLL not fully lowered: %r" % re.findall(r'[^\n]*std::[^\n]*', extract.mask(t))[:3])
    kb.rules_fired = n
    text = _common.BASE + PRELUDE.replace("@N@", str(N)) + helper + extract.strip_comments(t) + "\n"
    extract.residue_scan(helper + t, ID)
    kb.ctext = text + HARNESS.replace("@N@", str(N))
    kb.job("charlit", "h_charlit", kind="bounded", unwind=N + 3, timeout=900, replay="lit", mem_kb=12000000,
           note="every spelling of up to %d bytes (all byte values): no out-of-bounds read, no undefined operation; value == reference for the literals of the subset" % N)
    kb.job("cover", "h_cover", kind="cover", unwind=N + 3, timeout=900, mem_kb=12000000)
    kb.assumptions += ["std::string is a NUL-terminated buffer with its length; operator[] may read index size() (the terminator) but not beyond",
                       "substr + strtoull are one hand-written model (glibc behaviour: white space, sign, 0x prefix for base 16, saturation)",
                       "plain char is signed (host); the reference subset excludes universal character names and non-ASCII characters in prefixed literals",
                       "thrown std::runtime_error is a flag; the callers' handling of it is not verified"]

    def rp(inputs, ctx):
        buf = inputs.get("g_in_s") or []
        ln = int(inputs.get("g_in_len", 0) or 0)
        bs = [int(b) & 0xff for b in buf[:ln]]
        want = ref_py(bytes(bs))
        rc, o, cmd = native.compile_run("replay_K09", REPLAY_CPP.replace("@REPO@", extract.REPO), ["1" if want is not None else "0", str(want or 0)] + [str(b) for b in bs], sanitize=True)
        return native.verdict_from_rc(rc, o), o, cmd
    kb.replayers["lit"] = rp
    return kb


def ref_py(s):
    """specs/charlit_ref.h in python (replay side)"""
    n = len(s)
    narrow = False
    if n >= 1 and s[0:1] == b"'":
        narrow, pos, limit = True, 1, 0xff
    elif n >= 3 and s[0:3] == b"u8'":
        pos, limit = 3, 0xff
    elif n >= 2 and s[0:2] == b"u'":
        pos, limit = 2, 0xffff
    elif n >= 2 and s[0:1] in (b"L", b"U") and s[1:2] == b"'":
        pos, limit = 2, 0xffffffff
    else:
        return None
    if n < pos + 2 or s[n - 1:n] != b"'":
        return None
    acc, count = 0, 0
    simple = {ord("'"): 39, ord('"'): 34, ord('?'): 63, ord('\\'): 92, ord('a'): 7, ord('b'): 8, ord('f'): 12, ord('n'): 10, ord('r'): 13, ord('t'): 9, ord('v'): 11}
    while pos < n - 1:
        c = s[pos]
        if c in (39, 10):
            return None
        if c == 92:
            pos += 1
            if pos >= n - 1:
                return None
            e = s[pos]; pos += 1
            if e in simple:
                v = simple[e]
            elif 48 <= e <= 55:
                v = e - 48; k = 0
                while k < 2 and pos < n - 1 and 48 <= s[pos] <= 55:
                    v = v * 8 + s[pos] - 48; pos += 1; k += 1
            elif e == ord('x'):
                hexd = b"0123456789abcdefABCDEF"
                if pos >= n - 1 or s[pos] not in hexd:
                    return None
                v = 0
                while pos < n - 1 and s[pos] in hexd:
                    if v >> 60:
                        return None
                    v = v * 16 + int(chr(s[pos]), 16); pos += 1
            else:
                return None
            if v > limit:
                return None
        else:
            if c >= 0x80 and not narrow:
                return None
            v = c; pos += 1
        acc = (acc << 8) | v; count += 1
    if pos != n - 1 or count == 0:
        return None
    if not narrow:
        return acc if count == 1 else None
    if count == 1:
        b = acc & 0xff
        return b - 256 if b >= 128 else b
    w = acc & 0xffffffff
    return w - (1 << 32) if w >= (1 << 31) else w
