"""K02/K03  Platform range helpers (lib/platform.h) and Platform::set(Type) (lib/platform.cpp).

Oracles: two's-complement ranges of an N-bit integer type; the data models the
property names (ILP32 for win32A/W and unix32, LLP64 for win64, LP64 for unix64)
typed in from the Microsoft x86/x64 and SysV i386/x86-64 ABI documents.
"""
import re

from vlib import extract, native
from vlib.kernel import KernelBuild, located_rules
from . import _common

ID = "K02"
SERVES = ["C09", "C10", "C03", "C13"]
TITLE = "Platform integer ranges and built-in data models"

RANGE = {
    "min_value": ("long long min_value", "static", None, r'''
__CPROVER_requires(bit > 0)
__CPROVER_ensures(bit >= 64 ==> __CPROVER_return_value == LLONG_MIN)
__CPROVER_ensures(bit < 64 ==> __CPROVER_return_value == -(long long)(1ULL << (bit - 1)))
__CPROVER_assigns()
'''),
    "max_value": ("long long max_value", "static", None, r'''
__CPROVER_requires(bit > 0)
__CPROVER_ensures(bit >= 64 ==> __CPROVER_return_value == LLONG_MAX)
__CPROVER_ensures(bit < 64 ==> __CPROVER_return_value == (long long)((1ULL << (bit - 1)) - 1ULL))
__CPROVER_assigns()
'''),
    "max_value_unsigned": ("unsigned long long max_value_unsigned", "static", None, r'''
__CPROVER_requires(bit > 0)
__CPROVER_ensures(bit >= 64 ==> __CPROVER_return_value == ULLONG_MAX)
__CPROVER_ensures(bit < 64 ==> (__CPROVER_return_value == (ULLONG_MAX >> (64 - bit))))
__CPROVER_assigns()
'''),
}

# name -> (signature regex, new name, bit member, signedness of the argument)
PRED = [
    ("isIntValue", r'bool\s+isIntValue\s*\(\s*MathLib::bigint\s+value\s*\)', "isIntValue_s", "int_bit", True),
    ("isIntValue", r'bool\s+isIntValue\s*\(\s*MathLib::biguint\s+value\s*\)', "isIntValue_u", "int_bit", False),
    ("isLongValue", r'bool\s+isLongValue\s*\(\s*MathLib::bigint\s+value\s*\)', "isLongValue_s", "long_bit", True),
    ("isLongValue", r'bool\s+isLongValue\s*\(\s*MathLib::biguint\s+value\s*\)', "isLongValue_u", "long_bit", False),
    ("isLongLongValue", r'bool\s+isLongLongValue\s*\(\s*MathLib::biguint\s+value\s*\)', "isLongLongValue_u", "long_long_bit", False),
]

CHARFN = [
    ("unsignedCharMax", r'long long\s+unsignedCharMax\s*\(\s*\)',
     "__CPROVER_requires(self->char_bit >= 1 && self->char_bit <= 62)\n__CPROVER_ensures(__CPROVER_return_value == (long long)((1ULL << self->char_bit) - 1))\n__CPROVER_assigns()\n"),
    ("signedCharMax", r'long long\s+signedCharMax\s*\(\s*\)',
     "__CPROVER_requires(self->char_bit >= 1 && self->char_bit <= 63)\n__CPROVER_ensures(__CPROVER_return_value == (long long)((1ULL << (self->char_bit - 1)) - 1))\n__CPROVER_assigns()\n"),
    ("signedCharMin", r'long long\s+signedCharMin\s*\(\s*\)',
     "__CPROVER_requires(self->char_bit >= 1 && self->char_bit <= 63)\n__CPROVER_ensures(__CPROVER_return_value == -(long long)(1ULL << (self->char_bit - 1)))\n__CPROVER_assigns()\n"),
]

# data models (bool, short, int, long, long long, float, double, long double, wchar_t, size_t, pointer, windows)
ABI = {
    "Win32A": (1, 2, 4, 4, 8, 4, 8, 8, 2, 4, 4, 1),
    "Win32W": (1, 2, 4, 4, 8, 4, 8, 8, 2, 4, 4, 1),
    "Win64": (1, 2, 4, 4, 8, 4, 8, 8, 2, 8, 8, 1),
    "Unix32": (1, 2, 4, 4, 8, 4, 8, 12, 4, 4, 4, 0),
    "Unix64": (1, 2, 4, 8, 8, 4, 8, 16, 4, 8, 8, 0),
}
ABI_FIELDS = ["sizeof_bool", "sizeof_short", "sizeof_int", "sizeof_long", "sizeof_long_long", "sizeof_float",
              "sizeof_double", "sizeof_long_double", "sizeof_wchar_t", "sizeof_size_t", "sizeof_pointer", "windows"]
NATIVE = ["sizeof(_Bool)", "sizeof(short)", "sizeof(int)", "sizeof(long)", "sizeof(long long)", "sizeof(float)",
          "sizeof(double)", "sizeof(long double)", "sizeof(wchar_t)", "sizeof(size_t)", "sizeof(void *)", "0"]
BITS = [("short_bit", "sizeof_short"), ("int_bit", "sizeof_int"), ("long_bit", "sizeof_long"), ("long_long_bit", "sizeof_long_long"),
        ("float_bit", "sizeof_float"), ("double_bit", "sizeof_double"), ("long_double_bit", "sizeof_long_double")]


def pred_contract(bitm, signed):
    if signed:
        spec = "(self->%s >= 64 || (value >= -(long long)(1ULL << (self->%s - 1)) && value <= (long long)((1ULL << (self->%s - 1)) - 1)))" % (bitm, bitm, bitm)
    else:
        spec = "(self->%s >= 64 ? value <= (biguint)LLONG_MAX : value <= ((1ULL << (self->%s - 1)) - 1))" % (bitm, bitm)
    spec = spec.replace("self->", "")
    return ("__CPROVER_requires(%s > 0)\n"
            "#ifndef TWIN\n__CPROVER_ensures(__CPROVER_return_value == %s)\n#else\n__CPROVER_ensures(__CPROVER_return_value == (value <= 1000))\n#endif\n"
            "__CPROVER_assigns()\n" % (bitm, spec))


def set_contract(fields):
    lines = ["__CPROVER_requires(__CPROVER_is_fresh(self, sizeof(*self)))",
             "__CPROVER_assigns(__CPROVER_object_whole(self))"]
    def conj(t, vals):
        c = ["self->type == PType_%s" % t, "self->char_bit == 8"]
        for f, v in zip(ABI_FIELDS, vals):
            c.append("self->%s == %s" % (f, v))
        for b, s in BITS:
            c.append("self->%s == 8 * self->%s" % (b, s))
        return c
    for t, vals in ABI.items():
        c = conj(t, vals) + ["self->defaultSign == 's'", "__CPROVER_return_value == 1"]
        lines.append("__CPROVER_ensures(t == PType_%s ==> (%s))" % (t, " && ".join(c)))
    for t in ("Native", "Unspecified"):
        c = conj(t, NATIVE) + ["__CPROVER_return_value == 1",
                               "self->defaultSign == %s" % ("(CHAR_MIN < 0 ? 's' : 'u')" if t == "Native" else "0")]
        lines.append("__CPROVER_ensures(t == PType_%s ==> (%s))" % (t, " && ".join(c)))
    same = " && ".join("self->%s == __CPROVER_old(self->%s)" % (f, f) for f in fields + ["type"])
    lines.append("__CPROVER_ensures((t == PType_File || (int)t > PType_File || (int)t < 0) ==> (__CPROVER_return_value == 0 && %s))" % same)
    return "\n".join(ln if "is_fresh" in ln or "object_whole" in ln else ln.replace("self->", "") for ln in lines) + "\n"


REPLAY_SET = r'''
#include "platform.h"
#include <cstdio>
#include <cstdlib>
int main(int argc, char **argv) {
    int t = atoi(argv[1]);
    static const size_t abi[5][11] = {
      {1,2,4,4,8,4,8,8,2,4,4},{1,2,4,4,8,4,8,8,2,4,4},{1,2,4,4,8,4,8,8,2,8,8},{1,2,4,4,8,4,8,12,4,4,4},{1,2,4,8,8,4,8,16,4,8,8}};
    Platform p; bool r = p.set(static_cast<Platform::Type>(t));
    const size_t *w = nullptr;
    switch (static_cast<Platform::Type>(t)) { case Platform::Win32A: w = abi[0]; break; case Platform::Win32W: w = abi[1]; break;
      case Platform::Win64: w = abi[2]; break; case Platform::Unix32: w = abi[3]; break; case Platform::Unix64: w = abi[4]; break; default: break; }
    if (!w) { printf("type %d: no fixed table, set() returned %d\n", t, (int)r); return 0; }
    size_t got[11] = {p.sizeof_bool,p.sizeof_short,p.sizeof_int,p.sizeof_long,p.sizeof_long_long,p.sizeof_float,p.sizeof_double,p.sizeof_long_double,p.sizeof_wchar_t,p.sizeof_size_t,p.sizeof_pointer};
    int bad = !r || p.char_bit != 8 || p.short_bit != 8*p.sizeof_short || p.int_bit != 8*p.sizeof_int || p.long_bit != 8*p.sizeof_long || p.long_long_bit != 8*p.sizeof_long_long || p.defaultSign != 's';
    for (int i = 0; i < 11; i++) { if (got[i] != w[i]) { printf("field %d: got %zu want %zu\n", i, got[i], w[i]); bad = 1; } }
    printf("Platform::set(%d): %s (bits: short %d int %d long %d long long %d)\n", t, bad ? "DIFFERS from ABI data model" : "matches", p.short_bit, p.int_bit, p.long_bit, p.long_long_bit);
    return bad ? 1 : 0;
}
'''

REPLAY_PRED = r'''
#include "platform.h"
#include <cstdio>
#include <cstdlib>
#include <cstring>
int main(int argc, char **argv) {
    const char *fn = argv[1]; unsigned bit = atoi(argv[2]); const char *v = argv[3];
    Platform p; p.set(Platform::Unix64); p.int_bit = p.long_bit = p.long_long_bit = (std::uint8_t)bit;
    bool got, want;
    if (strstr(fn, "_s")) { long long x = strtoll(v, nullptr, 10);
        want = bit >= 64 || (x >= -(long long)(1ULL << (bit-1)) && x <= (long long)((1ULL << (bit-1)) - 1));
        got = !strcmp(fn, "isIntValue_s") ? p.isIntValue((MathLib::bigint)x) : p.isLongValue((MathLib::bigint)x);
    } else { unsigned long long x = strtoull(v, nullptr, 10);
        want = bit >= 64 ? x <= (unsigned long long)LLONG_MAX : x <= ((1ULL << (bit-1)) - 1);
        got = !strcmp(fn, "isIntValue_u") ? p.isIntValue((MathLib::biguint)x) : !strcmp(fn, "isLongValue_u") ? p.isLongValue((MathLib::biguint)x) : p.isLongLongValue((MathLib::biguint)x);
    }
    printf("%s(bit=%u, %s) = %d, range semantics say %d\n", fn, bit, v, (int)got, (int)want);
    return got == want ? 0 : 1;
}
'''


def build(ctx):
    kb = KernelBuild(ID, TITLE)
    pstruct, fields, ptypes = _common.platform_struct()
    for need in ABI_FIELDS + ["char_bit", "defaultSign"] + [b for b, _ in BITS]:
        if need not in fields:
            raise extract.ExtractError("Platform member %s not found in lib/platform.h" % need)
    out = [_common.BASE, "#include <wchar.h>\n#define assert(c) __CPROVER_assert(c, \"assert(\" #c \")\")\n", pstruct]
    nrules = 0
    # static range helpers
    for name, (sigrx, _, _, contract) in RANGE.items():
        loc = extract.locate_function("lib/platform.h", r'^\s*static\s+' + sigrx.replace(" ", r'\s+') + r'\s*\(')
        kb.add_located("Platform::" + name, loc)
        text, n = located_rules(loc, [(r'^\s*static\s+', '', 1, 1)], ID + "." + name)
        nrules += n
        sig, body = extract.body_of(text)
        out.append("%s\n%s%s\n" % (sig, contract, body))
    out.append(_common.member_macros(fields + ["type"]))
    # calculateBitMembers
    loc = extract.locate_function("lib/platform.h", r'^\s*void\s+calculateBitMembers\s*\(\s*\)')
    kb.add_located("Platform::calculateBitMembers", loc)
    text, n = located_rules(loc, [], ID)
    sig, body = extract.body_of(text)
    out.append("%s\n%s\n" % (_common.add_self(sig, "struct Platform *self"), body))
    # predicates
    for name, sigrx, newname, bitm, signed in PRED:
        loc = extract.locate_function("lib/platform.h", r'^\s*' + sigrx + r'\s*const')
        kb.add_located("Platform::%s(%s)" % (name, "bigint" if signed else "biguint"), loc)
        text, n = located_rules(loc, [], ID + "." + newname)
        nrules += n
        sig, body = extract.body_of(text)
        out.append("%s\n%s%s\n" % (_common.add_self(sig, "const struct Platform *self", newname), pred_contract(bitm, signed), body))
    for name, sigrx, contract in CHARFN:
        loc = extract.locate_function("lib/platform.h", r'^\s*' + sigrx.replace(" ", r'\s+') + r'\s*const')
        kb.add_located("Platform::" + name, loc)
        text, n = located_rules(loc, [], ID + "." + name)
        sig, body = extract.body_of(text)
        out.append("%s\n%s%s\n" % (_common.add_self(sig, "const struct Platform *self"), contract.replace("self->", ""), body))
    # set(Type)
    loc = extract.locate_function("lib/platform.cpp", r'^bool\s+Platform::set\s*\(\s*Type\s+t\s*\)')
    kb.add_located("Platform::set(Type)", loc)
    text, n = located_rules(loc, [
        (r'\bType::(\w+)', r'PType_\1', 8),
        (r'^bool\s+Platform::set\s*\(\s*Type\s+t\s*\)', 'bool Platform_set(struct Platform *self, enum PType t)', 1, 1),
        (r'\bcalculateBitMembers\(\)', 'calculateBitMembers(self)', 5),
        (r'std::numeric_limits<char>::is_signed', '(CHAR_MIN < 0)', 0, 1),
        (r'sizeof\(bool\)', 'sizeof(_Bool)', 0),
    ], ID + ".set")
    nrules += n
    sig, body = extract.body_of(text)
    out.append("%s\n%s%s\n" % (sig, set_contract(fields), body))
    out.append(_common.member_macros(fields + ["type"], undef=True))
    kb.rules_fired = nrules

    h = ["unsigned char g_in_bit; bigint g_in_value; biguint g_in_uvalue; int g_in_t;"]
    for name in RANGE:
        h.append("void h_%s(void) { unsigned char bit = nondet_uchar(); g_in_bit = bit; (void)%s(bit); }" % (name, name))
    for name, sigrx, newname, bitm, signed in PRED:
        ty = "bigint" if signed else "biguint"
        h.append("void h_%s(void) { struct Platform p; p.%s = nondet_uchar(); %s v = nondet_%s(); g_in_bit = p.%s; g_in_%svalue = v; (void)%s(&p, v); }"
                 % (newname, bitm, ty, ty, bitm, "" if signed else "u", newname))
    for name, sigrx, contract in CHARFN:
        h.append("void h_%s(void) { struct Platform p; p.char_bit = nondet_uchar(); (void)%s(&p); }" % (name, name))
    h.append("void h_set(void) { struct Platform *p = 0; enum PType t = (enum PType)nondet_int(); g_in_t = (int)t; (void)Platform_set(p, t); }")
    h.append("void h_set_cover(void) { struct Platform p; enum PType t = (enum PType)nondet_int(); _Bool r = Platform_set(&p, t);"
             " __CPROVER_assert(!(r && p.sizeof_long == 8), \"COVER: a platform with 8-byte long\");"
             " __CPROVER_assert(!(r && p.sizeof_long == 4 && p.sizeof_pointer == 8), \"COVER: LLP64\"); __CPROVER_assert(r, \"COVER: set can fail\"); }")
    extract.residue_scan("".join(out), ID)
    kb.ctext = "".join(out) + "\n".join(h) + "\n"

    for name in RANGE:
        kb.job(name, "h_" + name, enforce=name)
    for name, sigrx, newname, bitm, signed in PRED:
        kb.job(newname, "h_" + newname, enforce=newname, replace=["min_value", "max_value"] if signed else ["max_value"], replay="pred:" + newname)
        kb.job(newname + ".twin", "h_" + newname, kind="twin", enforce=newname, defines=["TWIN"])
    for name, sigrx, contract in CHARFN:
        kb.job(name, "h_" + name, enforce=name, replace=["min_value"] if name.endswith("Min") else ["max_value"])
    kb.job("set", "h_set", enforce="Platform_set", replay="set")
    kb.job("set.cover", "h_set_cover", kind="cover")
    kb.assumptions += ["range predicates require <type>_bit > 0 (Platform::set and platform files give char_bit*sizeof >= 8; XML loading is not verified)",
                       "Native/Unspecified: the verifier's own sizeof (LP64) stands for the build's"]
    kb.trusted += ["ABI tables typed into the contract from the Microsoft x86/x64 and SysV i386 / x86-64 psABI documents"]

    def replay_set(inputs, ctx):
        rc, out, cmd = native.compile_run("replay_K02_set", REPLAY_SET, [inputs.get("g_in_t", 0)])
        return native.verdict_from_rc(rc, out), out, cmd
    kb.replayers["set"] = replay_set
    for name, sigrx, newname, bitm, signed in PRED:
        def rp(inputs, ctx, newname=newname, signed=signed):
            rc, out, cmd = native.compile_run("replay_K02_pred", REPLAY_PRED,
                                              [newname, inputs.get("g_in_bit", 32), inputs.get("g_in_value" if signed else "g_in_uvalue", 0)])
            return native.verdict_from_rc(rc, out), out, cmd
        kb.replayers["pred:" + newname] = rp
    return kb
