"""K62  followVariableExpression (lib/astutils.cpp): when may a variable be replaced by its initialiser?

isSameExpression / isOppositeCond / the logical-operator checks "follow" a local variable to the expression it was
initialised with and then compare THAT expression.  This is sound only if the variable holds the value of the expression:
an initialisation that converts the value (narrower integer type, other signedness, bool) breaks it.

Under contract: the helper `canRepresentAllValues(dst, src)` and the guard block in followVariableExpression that uses it.
Contract (C03 / C01): if the guard lets the function go on (the variable is followed), every value the initialiser can have
- any value of its type, or its known value - is a value of the variable's type, so the conversion leaves it unchanged.
"""
import re

from vlib import extract, native
from vlib.kernel import KernelBuild, located_rules
from . import _common

ID = "K62"
SERVES = ["C03", "C01", "C13"]
TITLE = "followVariableExpression: a variable is followed to its initialiser only if the initialisation preserves the value"

PRELUDE = r'''
struct VT { enum VType type; enum Sign sign; };
/* ValueType::getSizeOf for the integer types (first lines of the real function; not verified here) */
static size_t vt_sizeof(const struct VT *vt, const struct Platform *pl)
{
    switch (vt->type) {
    case VType_BOOL: case VType_CHAR: return 1;
    case VType_SHORT: return pl->sizeof_short;
    case VType_INT: return pl->sizeof_int;
    case VType_LONG: return pl->sizeof_long;
    case VType_LONGLONG: return pl->sizeof_long_long;
    default: return 0;
    }
}
/* oracle for ValueFlow::getMinMaxValues (contract: K04): the range of the type, 64-bit unsigned clamped to LLONG_MAX */
static _Bool mm_ok; static bigint mm_min, mm_max;
static _Bool getMinMaxValues_oracle(bigint *mn, bigint *mx) { if (mm_ok) { *mn = mm_min; *mx = mm_max; } return mm_ok; }
'''

HARNESS = r'''
int g_in_dt, g_in_ds, g_in_st, g_in_ss, g_in_known, g_in_long; bigint g_in_v, g_in_kv;
_Bool g_char_signed;       /* plain char is signed on the platform */
static void mk_platform(struct Platform *pl) {
    pl->char_bit = 8; pl->sizeof_bool = 1; pl->sizeof_short = 2; pl->sizeof_int = 4; pl->sizeof_long_long = 8;
    pl->sizeof_long = nondet_bool() ? 4 : 8;
    g_char_signed = nondet_bool();
}
static void mk_type(struct VT *vt) {
    vt->type = (enum VType)nondet_int(); vt->sign = (enum Sign)nondet_int();
    __CPROVER_assume(vt->type == VType_BOOL || vt->type == VType_CHAR || vt->type == VType_SHORT || vt->type == VType_INT || vt->type == VType_LONG || vt->type == VType_LONGLONG);
    if (vt->type == VType_BOOL) __CPROVER_assume(vt->sign == Sign_UNKNOWN_SIGN);
    else if (vt->type == VType_CHAR) __CPROVER_assume(vt->sign == Sign_UNKNOWN_SIGN || vt->sign == Sign_SIGNED || vt->sign == Sign_UNSIGNED);
    else __CPROVER_assume(vt->sign == Sign_SIGNED || vt->sign == Sign_UNSIGNED);
}
/* v is a value of the type (mathematical value; unsigned 64 bits up to 2^63 - 1 only, which is enough to refute a narrowing);
   plain char has the signedness of the platform */
static _Bool in_type(bigint v, const struct VT *vt, const struct Platform *pl) {
    size_t n = vt_sizeof(vt, pl);
    if (vt->type == VType_BOOL) return v == 0 || v == 1;
    if (n >= 8) return vt->sign == Sign_UNSIGNED ? v >= 0 : 1;
    bigint lim = (bigint)1 << (8 * n);
    _Bool is_signed = vt->sign == Sign_SIGNED || (vt->sign == Sign_UNKNOWN_SIGN && g_char_signed);
    return is_signed ? (v >= -(lim / 2) && v < lim / 2) : (v >= 0 && v < lim);
}
void h_helper(void) {
    struct Platform pl; mk_platform(&pl);
    struct VT dst, src; mk_type(&dst); mk_type(&src);
    bigint v = nondet_bigint();                       /* ghost: some value of the source type */
    __CPROVER_assume(in_type(v, &src, &pl));
    g_in_dt = dst.type; g_in_ds = dst.sign; g_in_st = src.type; g_in_ss = src.sign; g_in_long = (int)pl.sizeof_long; g_in_v = v;
    _Bool r = canRepresentAllValues(&dst, &src, &pl);
    if (r) __CPROVER_assert(in_type(v, &dst, &pl), "canRepresentAllValues(dst, src): every value of src is a value of dst");
}
void h_guard(void) {
    struct Platform pl; mk_platform(&pl);
    struct VT dst, src; mk_type(&dst); mk_type(&src);
    _Bool known = nondet_bool(); bigint kv = nondet_bigint();
    bigint v = nondet_bigint();                       /* ghost: the value of the initialiser in some execution */
    __CPROVER_assume(in_type(v, &src, &pl) && (!known || v == kv));
    /* getMinMaxValues: the range of dst (K04) */
    size_t n = vt_sizeof(&dst, &pl);
    mm_ok = 1;
    if (dst.type == VType_BOOL) { mm_min = 0; mm_max = 1; }
    else if (n >= 8) { mm_min = dst.sign == Sign_UNSIGNED ? 0 : LLONG_MIN; mm_max = LLONG_MAX; }
    else if (dst.sign == Sign_UNSIGNED) { mm_min = 0; mm_max = ((bigint)1 << (8 * n)) - 1; }
    else { mm_min = -((bigint)1 << (8 * n - 1)); mm_max = ((bigint)1 << (8 * n - 1)) - 1; }       /* plain char is given the signed range by getMinMaxValues */
    g_in_dt = dst.type; g_in_ds = dst.sign; g_in_st = src.type; g_in_ss = src.sign; g_in_long = (int)pl.sizeof_long; g_in_v = v; g_in_known = known; g_in_kv = kv;
    _Bool follows = follow_guard(1, &dst, 1, 0, 1, &src, 1, 0, known, kv, &pl);
    if (follows && !(dst.type == VType_CHAR && dst.sign == Sign_UNKNOWN_SIGN && known))
        __CPROVER_assert(in_type(v, &dst, &pl), "the variable is followed only if its type can hold the value of the initialiser");
}
void h_cover(void) {
    struct Platform pl; pl.char_bit = 8; pl.sizeof_bool = 1; pl.sizeof_short = 2; pl.sizeof_int = 4; pl.sizeof_long = 8; pl.sizeof_long_long = 8;
    struct VT si = { VType_INT, Sign_SIGNED }, ui = { VType_INT, Sign_UNSIGNED }, sl = { VType_LONG, Sign_SIGNED }, ss = { VType_SHORT, Sign_SIGNED };
    __CPROVER_assert(!canRepresentAllValues(&sl, &si, &pl), "COVER: long l = i is followed");
    __CPROVER_assert(canRepresentAllValues(&ss, &si, &pl), "COVER: short s = i is not");
    __CPROVER_assert(canRepresentAllValues(&ui, &si, &pl), "COVER: unsigned u = i is not");
    mm_ok = 1; mm_min = -32768; mm_max = 32767;
    __CPROVER_assert(!follow_guard(1, &ss, 1, 0, 1, &si, 1, 0, 1, 4, &pl), "COVER: short s = <known 4> is followed");
}
'''

REPLAY_CPP = r'''
#include "settings.h"
#include "tokenize.h"
#include "tokenlist.h"
#include "token.h"
#include "errorlogger.h"
#include "color.h"
#include "platform.h"
#include "astutils.h"
#include <cstdio>
struct Log : ErrorLogger {
    void reportOut(const std::string &, Color) override {}
    void reportErr(const ErrorMessage &) override {}
    void reportMetric(const std::string &) override {}
};
/* `short s = x; if (s == x)`: isSameExpression with followVar must not call s and x the same expression */
int main() {
    const std::string code = "void g(void); void f(int x) { short s = x; if (s == x) g(); }";
    Settings settings; settings.platform.set(Platform::Type::Unix64); Log log;
    Tokenizer tokenizer(TokenList(settings, Standards::Language::C), log);
    tokenizer.list.appendFileIfNew("t.c");
    if (!tokenizer.list.createTokensFromBuffer(code.data(), code.size()) || !tokenizer.simplifyTokens1("")) return 2;
    for (const Token *tok = tokenizer.tokens(); tok; tok = tok->next()) {
        if (tok->str() != "==" || !tok->astOperand1() || !tok->astOperand2()) continue;
        const bool same = isSameExpression(true, tok->astOperand1(), tok->astOperand2(), settings, true, true, nullptr);
        printf("%s: isSameExpression(s, x) with variable following = %d (x = 70000 makes s != x)\n", code.c_str(), (int)same);
        return same ? 1 : 0;
    }
    return 2;
}
'''


def build(ctx):
    kb = KernelBuild(ID, TITLE)
    enums, _ = _common.valuetype_enums()
    pstruct, fields, _ = _common.platform_struct()
    n = 0
    fh = extract.locate_function("lib/astutils.cpp", r'^static bool canRepresentAllValues\(const ValueType& dst, const ValueType& src, const Settings& settings\)')
    kb.add_located("canRepresentAllValues", fh)
    th, k = located_rules(fh, _common.VT_RULES + [
        (r'^static bool canRepresentAllValues\(const ValueType& dst, const ValueType& src, const Settings& settings\)',
         'static _Bool canRepresentAllValues(const struct VT *dst, const struct VT *src, const struct Platform *platform)', 1, 1),
        (r'\b(dst|src)\.getSizeOf\(settings,\s*ValueType::Accuracy::ExactOrZero,\s*ValueType::SizeOf::Pointee\)', r'vt_sizeof(\1, platform)', 2, 2),
        (r'\b(dst|src)\.(type|sign)\b', r'\1->\2', 6),
    ], ID + ".helper"); n += k
    f = extract.locate_function("lib/astutils.cpp", r'^static const Token \* followVariableExpression\(')
    m = extract.mask(f.text)
    s = list(re.finditer(r'if \(var->valueType\(\) && var->valueType\(\)->isIntegral\(\) && var->valueType\(\)->pointer == 0 &&', m))
    if len(s) != 1:
        raise extract.ExtractError("followVariableExpression: the guard on the variable's integer type found %d times" % len(s))
    ob = m.index("{", s[0].end())
    cb = extract.match_brace(f.text, ob, m)
    reg = extract.Located("lib/astutils.cpp", f.text[s[0].start():cb + 1], f.start + s[0].start(), f.start + cb + 1, extract.read("lib/astutils.cpp"))
    kb.add_located("followVariableExpression [value-preserving initialisation guard]", reg, "region")
    tg, k = located_rules(reg, _common.VT_RULES + [
        (r'\bvar->valueType\(\) && var->valueType\(\)->isIntegral\(\) && var->valueType\(\)->pointer == 0', 'var_has_vt && var_integral && var_pointer == 0', 1, 1),
        (r'\bvarTok->valueType\(\) && varTok->valueType\(\)->isIntegral\(\) && varTok->valueType\(\)->pointer == 0', 'init_has_vt && init_integral && init_pointer == 0', 1, 1),
        (r'\bcanRepresentAllValues\(\*var->valueType\(\),\s*\*varTok->valueType\(\),\s*settings\)', 'canRepresentAllValues(var_vt, init_vt, platform)', 1, 1),
        (r'\bvarTok->hasKnownIntValue\(\)', 'init_known', 1, 1),
        (r'\bValueFlow::getMinMaxValues\(var->valueType\(\),\s*settings\.platform,\s*minValue,\s*maxValue\)', 'getMinMaxValues_oracle(&minValue, &maxValue)', 1, 1),
        (r'\bvarTok->getKnownIntValue\(\)', 'init_value', 2, 2),
        (r'\breturn tok\s*;', 'return 0;', 1, 1),
    ], ID + ".guard"); n += k
    for nm, t in (("canRepresentAllValues", th), ("guard", tg)):
        if re.search(r'\bvar\b|varTok|settings|ValueFlow|\bdst\.|\bsrc\.', extract.mask(t)):
            raise extract.ExtractError("K62: %s not fully lowered: %r" % (nm, re.findall(r'[^\n]*(?:\bvar\b|varTok|settings|ValueFlow|\bdst\.|\bsrc\.)[^\n]*', extract.mask(t))[:3]))
    kb.rules_fired = n
    guard_fn = ("/* 1: the function goes on (the variable is followed), 0: `return tok` */\n"
                "static _Bool follow_guard(_Bool var_has_vt, const struct VT *var_vt, _Bool var_integral, int var_pointer, _Bool init_has_vt, const struct VT *init_vt, _Bool init_integral, int init_pointer, _Bool init_known, bigint init_value, const struct Platform *platform)\n{\n%s\n    return 1;\n}\n"
                % extract.strip_comments(tg))
    text = _common.BASE + enums + pstruct + PRELUDE + extract.strip_comments(th) + "\n" + guard_fn
    extract.residue_scan(text, ID)
    kb.ctext = text + HARNESS
    kb.job("helper", "h_helper", note="loop-free function: every pair of integer types (bool, plain / signed / unsigned char ... long long), long 32/64, every source value")
    kb.job("guard", "h_guard", replay="same", note="loop-free region: as helper, with and without a known value of the initialiser")
    kb.job("cover", "h_cover", kind="cover")
    kb.assumptions += ["interface: types as (type, sign); ValueType::getSizeOf is the table of its first lines, isIntegral / pointer are flags; getMinMaxValues is an oracle with K04's contract",
                       "unsigned 64-bit values above LLONG_MAX are not represented (they only make more conversions narrowing); a plain char destination with a known value is not decided (getMinMaxValues gives it the signed range)",
                       "everything else in followVariableExpression (modification between initialisation and use, aliasing, loops) is not verified"]

    def rp(inputs, ctx):
        rc, o, cmd = native.compile_run("replay_K62", REPLAY_CPP, [])
        return native.verdict_from_rc(rc, o), o, cmd
    kb.replayers["same"] = rp
    return kb
