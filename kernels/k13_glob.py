"""K13  matchglob   and   K14  isValidGlobPattern   (lib/utils.cpp).

K14, unbounded (loop contract): memory safety, termination, counter stays in 0..2.
K14, bounded (every byte string up to L): result <=> no run of more than two '*' and no '?' directly after a '*'
     (the rule stated in SuppressionList::addSuppression's error text / manual).
K13, bounded (pattern and name up to L characters): matchglob(p, n, false) == textbook glob semantics
     ('?' exactly one character, '*' and '**' any sequence, everything else literal), reference written as the
     usual recursion.  Case-insensitive mode: same with ASCII case folding.
"""
import re

from vlib import extract, native
from vlib.kernel import KernelBuild, located_rules
from . import _common

ID = "K13"
SERVES = ["C23", "C13"]
TITLE = "matchglob == glob semantics (bounded); isValidGlobPattern safety + rule"

VALID_CONTRACT = r'''
#ifndef NOCONTRACT
__CPROVER_requires(pattern_len <= 1000000 && __CPROVER_is_fresh(pattern, pattern_len + 1))
__CPROVER_assigns()
#endif
'''
VALID_LOOP = r'''
#ifndef NOCONTRACT
__CPROVER_assigns(i, consecutiveAsterisks)
__CPROVER_loop_invariant(__CPROVER_same_object(i, pattern) && (size_t)__CPROVER_POINTER_OFFSET(i) <= pattern_len)
__CPROVER_loop_invariant(consecutiveAsterisks >= 0 && consecutiveAsterisks <= 2)
__CPROVER_decreases(pattern_len - (size_t)__CPROVER_POINTER_OFFSET(i))
#endif
'''

BT = r'''
#ifndef BT_CAP
#define BT_CAP 8
#endif
struct bt_entry { const char *first; const char *second; };
struct bt_stack { struct bt_entry e[BT_CAP]; size_t n; _Bool overflow; };
static inline void bt_push(struct bt_stack *s, const char *a, const char *b) { if (s->n < BT_CAP) { s->e[s->n].first = a; s->e[s->n].second = b; } else s->overflow = 1; s->n++; }
'''

HARNESS = r'''
#ifndef LMAX
#define LMAX 3
#endif
char g_in_p[LMAX + 1], g_in_n[LMAX + 1]; size_t g_in_plen, g_in_nlen; int g_in_ci;
static int ref_lower(int c) { return (c >= 'A' && c <= 'Z') ? c + 32 : c; }
/* textbook glob: '?' one character, '*' any sequence (so '**' too), anything else literal */
/* (the usual recursion  m(i,j) = "p[i..] matches n[j..]"  tabulated bottom-up so that all loop bounds are constants) */
static _Bool ref_glob(const char *p, const char *n, _Bool ci)
{
    _Bool m[LMAX + 2][LMAX + 2]; size_t pl = 0, nl = 0;
    for (size_t i = 0; i <= LMAX; i++) { if (p[i] == 0) break; pl++; }
    for (size_t i = 0; i <= LMAX; i++) { if (n[i] == 0) break; nl++; }
    for (size_t ii = 0; ii <= LMAX + 1; ii++) for (size_t jj = 0; jj <= LMAX + 1; jj++) m[ii][jj] = 0;
    for (size_t ii = 0; ii <= LMAX; ii++) { size_t i = LMAX - ii;
        for (size_t jj = 0; jj <= LMAX; jj++) { size_t j = LMAX - jj;
            if (i > pl || j > nl) continue;
            if (i == pl) { m[i][j] = (j == nl); continue; }
            if (p[i] == '*') m[i][j] = m[i + 1][j] || (j < nl && m[i][j + 1]);
            else if (p[i] == '?') m[i][j] = j < nl && m[i + 1][j + 1];
            else m[i][j] = j < nl && (n[j] == p[i] || (ci && ref_lower(n[j]) == ref_lower(p[i]))) && m[i + 1][j + 1];
        } }
    return m[0][0];
}
static _Bool ref_valid(const char *p, size_t len)
{
    for (size_t i = 0; i < len; i++) {
        if (i >= 2 && p[i] == '*' && p[i - 1] == '*' && p[i - 2] == '*') return 0;
        if (i >= 1 && p[i] == '?' && p[i - 1] == '*') return 0;
    }
    return 1;
}
static void mk_str(char *s, size_t *len) {
    *len = nondet_size_t(); __CPROVER_assume(*len <= LMAX);
    for (int i = 0; i <= LMAX; i++) { s[i] = nondet_char();
#ifdef SMALL_ALPHABET
        __CPROVER_assume(s[i] == '*' || s[i] == '?' || s[i] == 'a' || s[i] == 'b' || s[i] == 'A');
#endif
        if (i < *len) __CPROVER_assume(s[i] != 0); }
    s[*len] = 0;
}
void h_glob(void) {
    char p[LMAX + 1], n[LMAX + 1]; size_t pl, nl; mk_str(p, &pl); mk_str(n, &nl);
    _Bool ci =
#ifdef CASEINS
        1;
#else
        0;
#endif
    for (int i = 0; i <= LMAX; i++) { g_in_p[i] = p[i]; g_in_n[i] = n[i]; } g_in_plen = pl; g_in_nlen = nl; g_in_ci = ci;
    _Bool r = matchglob(p, pl, n, nl, ci);
    __CPROVER_assert(!verif_bt_overflow, "backtrack stack capacity suffices");
    __CPROVER_assert(r == ref_glob(p, n, ci), "matchglob agrees with glob semantics (? one character, * any sequence)");
}
void h_valid_b(void) {
    char p[LMAX + 1]; size_t pl; mk_str(p, &pl);
    for (int i = 0; i <= LMAX; i++) g_in_p[i] = p[i]; g_in_plen = pl;
    __CPROVER_assert(isValidGlobPattern(p, pl) == ref_valid(p, pl), "isValidGlobPattern <=> no run of three '*' and no '?' directly after '*'");
}
void h_valid(void) { const char *p; size_t n = nondet_size_t(); (void)isValidGlobPattern(p, n); }
void h_cover(void) {
    char p[LMAX + 1], n[LMAX + 1]; size_t pl, nl; mk_str(p, &pl); mk_str(n, &nl);
    _Bool r = matchglob(p, pl, n, nl, 0);
    __CPROVER_assert(!(r && pl == 2 && nl == 3), "COVER: a 2-char pattern matches a 3-char name");
    __CPROVER_assert(!(!r && pl == 3 && nl == 3 && p[0] == n[0]), "COVER: a mismatch after an equal first character");
}
'''

REPLAY_CPP = r'''
#include "utils.h"
#include <cstdio>
#include <cstdlib>
#include <cstring>
#include <string>
static int lower(int c) { return (c >= 'A' && c <= 'Z') ? c + 32 : c; }
static bool ref(const char *p, const char *n, bool ci) {
    if (!*p) return !*n;
    if (*p == '*') return ref(p + 1, n, ci) || (*n && ref(p, n + 1, ci));
    if (*p == '?') return *n && ref(p + 1, n + 1, ci);
    return *n && (*n == *p || (ci && lower(*n) == lower(*p))) && ref(p + 1, n + 1, ci);
}
int main(int argc, char **argv) {
    std::string mode = argv[1]; int ci = atoi(argv[2]); int pl = atoi(argv[3]); std::string p, n;
    for (int i = 0; i < pl; i++) p.push_back((char)atoi(argv[4 + i]));
    for (int i = 4 + pl; i < argc; i++) n.push_back((char)atoi(argv[i]));
    if (mode == "valid") {
        bool want = true; for (size_t i = 0; i < p.size(); i++) { if (i >= 2 && p[i] == '*' && p[i-1] == '*' && p[i-2] == '*') want = false; if (i >= 1 && p[i] == '?' && p[i-1] == '*') want = false; }
        bool r = isValidGlobPattern(p); printf("isValidGlobPattern(\"%s\") = %d, rule says %d\n", p.c_str(), (int)r, (int)want); return r == want ? 0 : 1;
    }
    bool r = matchglob(p, n, ci != 0), w = ref(p.c_str(), n.c_str(), ci != 0);
    printf("matchglob(\"%s\", \"%s\", %d) = %d, glob semantics say %d\n", p.c_str(), n.c_str(), ci, (int)r, (int)w);
    return r == w ? 0 : 1;
}
'''


def build(ctx):
    kb = KernelBuild(ID, TITLE)
    out = [_common.BASE, BT, "_Bool verif_bt_overflow;\n"]
    n = 0
    lv = extract.locate_function("lib/utils.cpp", r'^bool isValidGlobPattern\s*\(')
    kb.add_located("isValidGlobPattern", lv)
    t, k = located_rules(lv, _common.str_rules("pattern", 1) + [(r'\bauto\s+i\s*=', 'const char *i =', 1, 1)], ID + ".valid"); n += k
    sig, body = extract.body_of(t)
    body = extract.insert_loop_contracts(body, [VALID_LOOP], ID + ".valid")
    out.append("%s\n%s%s\n" % (sig, VALID_CONTRACT, body))
    lm = extract.locate_function("lib/utils.cpp", r'^bool matchglob\s*\(')
    kb.add_located("matchglob", lm)
    t, k = located_rules(lm, _common.str_rules("pattern", 1) + _common.str_rules("name", 1) + [
        (r'\bpattern\.c_str\(\)', 'pattern', 1, 1),
        (r'\bname\.c_str\(\)', 'name', 1, 1),
        (r'std::stack<std::pair<const char\s*\*,\s*const char\s*\*>,\s*std::vector<std::pair<const char\s*\*,\s*const char\s*\*>>>\s+backtrack\s*;',
         'struct bt_stack backtrack; backtrack.n = 0; backtrack.overflow = 0;', 1, 1),
        (r'\bbacktrack\.emplace\(p,\s*n\)', 'bt_push(&backtrack, p, n); verif_bt_overflow = backtrack.overflow', 1, 1),
        (r'\bbacktrack\.empty\(\)', '(backtrack.n == 0)', 1, 1),
        (r'\bbacktrack\.top\(\)\.(first|second)', r'backtrack.e[backtrack.n - 1].\1', 2, 2),
        (r'\bbacktrack\.pop\(\)', 'backtrack.n--', 1, 1),
    ], ID + ".matchglob"); n += k
    out.append(t + "\n")
    kb.rules_fired = n
    text = "".join(out)
    extract.residue_scan(text, ID)
    kb.ctext = text + HARNESS

    kb.job("isValidGlobPattern", "h_valid", enforce="isValidGlobPattern", loop_contracts=True, search="isValidGlobPattern.rule", replay="valid")
    kb.job("isValidGlobPattern.rule", "h_valid_b", kind="bounded", unwind=10, defines=["NOCONTRACT", "LMAX=7"], replay="valid",
           note="all byte strings of length <= 7, loops fully unwound")
    kb.job("isValidGlobPattern.rule12", "h_valid_b", kind="bounded", unwind=15, defines=["NOCONTRACT", "LMAX=12"], replay="valid", tier="thorough",
           note="all byte strings of length <= 12, loops fully unwound", timeout=1500)
    def gjob(name, lmax, extra, note, tier="quick", timeout=600, mem_kb=None):
        # CBMC numbers loops by their back edges: matchglob.2 is the outer retry loop (one iteration per backtrack entry),
        # matchglob.1 scans the pattern, matchglob.0 skips in the name; a too small bound shows as *undecided*, never as a violation
        kb.job(name, "h_glob", kind="bounded", flags=["--sat-solver", "minisat2"], unwind=lmax + 3, unwindset=["matchglob.2:%d" % (16 if lmax <= 3 else 70)], no_std_checks=False,
               defines=["NOCONTRACT", "LMAX=%d" % lmax] + extra, replay="glob", timeout=timeout, tier=tier, note=note, mem_kb=mem_kb)
    gjob("matchglob", 3, ["SMALL_ALPHABET"], "pattern and name of length <= 3 over the alphabet {* ? a b A} (the code inspects characters only through equality with the specials and each other)")
    gjob("matchglob.ci", 3, ["SMALL_ALPHABET", "CASEINS"], "case-insensitive mode, length <= 3, alphabet {* ? a b A}")
    gjob("matchglob.full3", 3, [], "pattern and name of length <= 3, all byte values", tier="thorough", timeout=3000)
    gjob("matchglob.small4", 4, ["SMALL_ALPHABET"], "pattern and name of length <= 4 over {* ? a b A}", tier="thorough", timeout=3000, mem_kb=24 * 1024 * 1024)
    kb.job("cover", "h_cover", kind="cover", flags=["--sat-solver", "minisat2"], unwind=6, unwindset=["matchglob.2:16"], defines=["NOCONTRACT", "LMAX=3", "SMALL_ALPHABET"])
    kb.assumptions += ["std::string arguments have no embedded NUL (c_str() scanning stops at the first NUL)",
                       "std::stack<pair<const char*,const char*>> lowered to a fixed array of 8 entries with an asserted capacity",
                       "tolower: CBMC's model (ASCII)"]

    def rp(mode):
        def f(inputs, ctx):
            p = inputs.get("g_in_p") or []
            nm = inputs.get("g_in_n") or []
            pl = int(inputs.get("g_in_plen", 0) or 0); nl = int(inputs.get("g_in_nlen", 0) or 0)
            args = [mode, int(inputs.get("g_in_ci", 0) or 0), pl] + [int(x) for x in p[:pl]] + [int(x) for x in nm[:nl]]
            rc, o, cmd = native.compile_run("replay_K13", REPLAY_CPP, args)
            return native.verdict_from_rc(rc, o), o, cmd
        return f
    kb.replayers["glob"] = rp("glob")
    kb.replayers["valid"] = rp("valid")
    return kb
