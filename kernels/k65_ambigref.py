"""K65  ValueFlowAnalyzer::analyzeToken (lib/vf_analyzers.cpp): what the forward / reverse analysis does at a token that
refers to the tracked expression only *possibly*.

`Token::refs()` of a conditional operator `c ? a : b` lists both operands; the analyzer then asks analyzeToken(ref, tok,
d, inconclusiveRef = true) for each of them.  A value of `a` is not a value of `c ? a : b`.
Contract (C01 / C03): with inconclusiveRef the returned action never makes the analysis READ the tracked value at the
token (Action::Read without Action::Inconclusive) - the token may be invalidated or made inconclusive, nothing else.
The callees (match, isModified, analyzeLifetime, isAlias, isAliasModified, isSameSymbolicValue, the scan of lifetime values)
are arbitrary oracles with the result sets read off their code.
"""
import re

from vlib import extract, native
from vlib.kernel import KernelBuild, located_rules
from . import _common

ID = "K65"
SERVES = ["C01", "C03", "C13"]
TITLE = "analyzeToken: the value of one operand of a conditional operator is not read as the value of the operator"

HARNESS = r'''
int g_in_match, g_in_deref, g_in_sym, g_in_alias, g_in_mod, g_in_la;
void h_ambig(void) {
    o_match = nondet_bool(); o_deref = nondet_bool(); o_match_op1 = nondet_bool(); o_lifetok = nondet_bool(); o_assign_lhs = nondet_bool();
    o_isAlias = nondet_bool(); o_alias_inconclusive = nondet_bool(); o_symbolic = nondet_bool();
    o_isModified = nondet_unsigned(); o_isAliasModified = nondet_unsigned(); o_la = nondet_unsigned(); o_analyzeMatch = nondet_unsigned();
    /* result sets of the callees, read off their code: isModified / isAliasModified answer None, Invalid, Write or Inconclusive;
       analyzeLifetime answers None, Read, Match (| Read); every action is a 9-bit set */
    __CPROVER_assume((o_isModified & ~(A_Invalid | A_Write | A_Inconclusive)) == 0 && (o_isAliasModified & ~(A_Invalid | A_Inconclusive)) == 0);
    __CPROVER_assume((o_la & ~(A_Read | A_Match)) == 0 && o_analyzeMatch < 512);
    g_in_match = o_match; g_in_deref = o_deref; g_in_sym = o_symbolic; g_in_alias = o_isAlias; g_in_mod = (int)o_isModified; g_in_la = (int)o_la;
    unsigned r = analyzeToken(1, 0, 1 /* inconclusiveRef */);
    __CPROVER_assert((r & A_Read) == 0 || (r & A_Inconclusive) != 0, "a token that only possibly refers to the tracked expression does not read its value");
    __CPROVER_assert((r & (A_Match | A_SymbolicMatch)) == 0, "... and is not a match of it");
}
void h_cover(void) {
    o_match = 1; o_deref = 0; o_match_op1 = 0; o_lifetok = 0; o_assign_lhs = 0; o_isAlias = 0; o_alias_inconclusive = 0; o_symbolic = 0; o_isModified = 0; o_isAliasModified = 0; o_la = 0; o_analyzeMatch = A_Read;
    __CPROVER_assert(!((analyzeToken(1, 1, 0) & (A_Read | A_Match)) == (A_Read | A_Match)), "COVER: a definite match reads the value");
    o_isModified = A_Invalid;
    __CPROVER_assert(!(analyzeToken(1, 0, 1) == A_Inconclusive), "COVER: a possibly modified possible referent makes the value inconclusive");
}
'''

REPLAY_CPP = r'''
#include "settings.h"
#include "tokenize.h"
#include "tokenlist.h"
#include "token.h"
#include "errorlogger.h"
#include "color.h"
#include "platform.h"
#include <cstdio>
struct Log : ErrorLogger {
    void reportOut(const std::string &, Color) override {}
    void reportErr(const ErrorMessage &) override {}
    void reportMetric(const std::string &) override {}
};
static int check(const std::string &code) {
    Settings settings; settings.platform.set(Platform::Type::Unix64); Log log;
    Tokenizer tokenizer(TokenList(settings, Standards::Language::C), log);
    tokenizer.list.appendFileIfNew("t.c");
    if (!tokenizer.list.createTokensFromBuffer(code.data(), code.size()) || !tokenizer.simplifyTokens1("")) return 2;
    for (const Token *tok = tokenizer.tokens(); tok; tok = tok->next()) {
        if (tok->str() != "?") continue;
        if (tok->hasKnownIntValue()) { printf("%s: the conditional operator has the known value %lld although its condition is unknown\n", code.c_str(), (long long)tok->getKnownIntValue()); return 1; }
        printf("%s: no known value on the conditional operator\n", code.c_str());
        return 0;
    }
    return 2;
}
int main() {
    const int a = check("void g(void); void f(int c, int y) { int a = 5; int *p = &a; int e = c ? *p : y; if (e == 5) g(); }");
    const int b = check("void g(void); void f(int x, int y) { if (x == 128) { int v = x; int e = y ? 1 : v; if (e == 128) g(); } }");
    return (a == 1 || b == 1) ? 1 : (a == 2 || b == 2) ? 2 : 0;
}
'''


def build(ctx):
    kb = KernelBuild(ID, TITLE)
    acts, names = extract.enum_list("lib/analyzer.h", r'enum\s*:\s*std::uint16_t\s*\{\s*None\b', "A_")
    f = extract.locate_function("lib/vf_analyzers.cpp", r'^\s*Action analyzeToken\(const Token\* ref, const Token\* tok, Direction d, bool inconclusiveRef\) const')
    kb.add_located("ValueFlowAnalyzer::analyzeToken", f)
    src = f.text
    m = extract.mask(src)
    # the scan of the operand's lifetime values (a loop over a list) is an oracle: did it find exactly one unconditional local lifetime
    s = re.search(r'const Token\* lifeTok = nullptr\s*;', m)
    lo = re.compile(r'for \(const ValueFlow::Value& v\s*:\s*ref->astOperand1\(\)->values\(\)\)\s*\{').search(m, s.end() if s else 0)
    if not s or not lo:
        raise extract.ExtractError("analyzeToken: the scan for the lifetime token not found")
    cb = extract.match_brace(src, lo.end() - 1, m)
    src = src[:s.start()] + "_Bool lifeTok = o_lifetok;   /* the scan of the operand's lifetime values */" + src[cb + 1:]
    loc2 = extract.Located("lib/vf_analyzers.cpp", src, f.start, f.end, extract.read("lib/vf_analyzers.cpp"))
    t, n = located_rules(loc2, [
        (r'^\s*Action analyzeToken\(const Token\* ref, const Token\* tok, Direction d, bool inconclusiveRef\) const', 'static unsigned analyzeToken(_Bool has_ref, _Bool ref_is_tok, _Bool inconclusiveRef)', 1, 1),
        (r'if \(!ref\)', 'if (!has_ref)', 1, 1),
        (r'\bassert\(!inconclusiveRef \|\| ref != tok\)\s*;', '__CPROVER_assert(!inconclusiveRef || !ref_is_tok, "an inconclusive reference is not the token itself");', 1, 1),
        (r'\bmatch\(ref->astOperand1\(\)\)', 'o_match_op1', 1, 1),
        (r'\bmatch\(ref\)', 'o_match', 1, 1),
        (r'\bisDereferenceOp\(ref\)', 'o_deref', 1, 1),
        (r'\bisModified\(tok\)\.isModified\(\)', 'A_MODIFIED(o_isModified)', 1, 1),
        (r'\bAction a = isModified\(tok\)\s*;', 'unsigned a = o_isModified;', 1, 1),
        (r'\bAction a = isAliasModified\(tok\)\s*;', 'unsigned a = o_isAliasModified;', 1, 1),
        (r'\breturn isAliasModified\(tok\)\s*;', 'return o_isAliasModified;', 1, 1),
        (r'\bAction la = analyzeLifetime\(lifeTok\)\s*;', 'unsigned la = o_la;', 1, 1),
        (r'\bAction a = Action::Read\s*;', 'unsigned a = A_Read;', 1, 1),
        (r'\breturn analyzeMatch\(tok, d\) \| Action::Match\s*;', 'return o_analyzeMatch | A_Match;', 1, 1),
        (r'\bToken::Match\(tok->astParent\(\), "%assign%"\) && astIsLHS\(tok\)', 'o_assign_lhs', 1, 1),
        (r'\bisAlias\(ref, inconclusive\)', '(inconclusive = o_alias_inconclusive, o_isAlias)', 1, 1),
        (r'\bisSameSymbolicValue\(ref\)', 'o_symbolic', 1, 1),
        (r'\b(a|la)\.isModified\(\)', r'A_MODIFIED(\1)', 2),
        (r'\b(a|la)\.isInconclusive\(\)', r'((\1 & A_Inconclusive) != 0)', 1),
        (r'\bla\.matches\(\)', '((la & A_Match) != 0)', 1, 1),
        (r'\bla\.isRead\(\)', '((la & A_Read) != 0)', 1, 1),
        (r'\bAction::(\w+)\b', r'A_\1', 8),
        (r'\bbool\b', '_Bool', 1),
    ], ID)
    if re.search(r'\bref\b|\btok\b|Action|ValueFlow|->', extract.mask(t)):
        raise extract.ExtractError("K65: analyzeToken not fully lowered: %r" % re.findall(r'[^\n]*(?:\bref\b|\btok\b|Action|ValueFlow|->)[^\n]*', extract.mask(t))[:4])
    kb.rules_fired = n
    text = (_common.BASE + "enum Act %s;\n#define A_MODIFIED(x) ((((x) & A_Write) != 0) || (((x) & A_Invalid) != 0))   /* Action::isModified (lib/analyzer.h) */\n" % acts +
            "_Bool o_match, o_deref, o_match_op1, o_lifetok, o_assign_lhs, o_isAlias, o_alias_inconclusive, o_symbolic; unsigned o_isModified, o_isAliasModified, o_la, o_analyzeMatch;\n" +
            extract.strip_comments(t) + "\n")
    extract.residue_scan(text, ID)
    kb.ctext = text + HARNESS
    kb.job("ambig", "h_ambig", replay="tern", note="the function with every callee an arbitrary oracle (the one loop, a scan of a value list, is replaced by its outcome): complete in all oracle answers")
    kb.job("cover", "h_cover", kind="cover")
    kb.assumptions += ["callees are oracles: match, isModified (None / Write / Invalid / Inconclusive), isAliasModified (None / Invalid / Inconclusive), analyzeLifetime (Read / Match), isAlias, isSameSymbolicValue, analyzeMatch; the scan of lifetime values is its outcome",
                       "Action is its bit set (enum taken from lib/analyzer.h); Action::isModified is Write or Invalid",
                       "that Token::refs() lists both operands of a conditional operator, and what update() does with the action, are not verified"]

    def rp(inputs, ctx):
        rc, o, cmd = native.compile_run("replay_K65", REPLAY_CPP, [])
        return native.verdict_from_rc(rc, o), o, cmd
    kb.replayers["tern"] = rp
    return kb
