"""K15  SuppressionList::Suppression::isSuppressed / isMatch / isSameParameters / isLocal / isWildcard
K16  per-suppression predicates of getUnmatched{Local,Global,Inline}Suppressions   (lib/suppressions.cpp, .h)

isSuppressed: callees matchglob (K13), PathMatch::match and macroNames.count are external oracles with an
arbitrary result; each oracle asserts that it is handed the right operands.  Postcondition from the manual:
Matched <=> the documented conjunction; None exactly for "does not apply here" (other line / other file / macro absent).
The symbol clause (exists a newline-separated segment of symbolNames that the glob accepts) is checked for
symbolNames of <= 4 bytes (bounded): every segment handed over is a maximal newline-free slice, segments are
tried in order until one matches.
getUnmatched*: the loop body of each function as a predicate region (continue -> return 0, push_back -> return 1):
a suppression with matched == true is never reported; inline/non-inline split; local/global disjoint.
"""
import re

from vlib import extract, native
from vlib.kernel import KernelBuild, located_rules
from . import _common

ID = "K15"
SERVES = ["C23", "C24", "C13"]
TITLE = "Suppression::isSuppressed decision table; getUnmatched* never report a matched suppression"

PRELUDE = r'''
#include "vstr.h"
#define SYM_MAX 4
#define NPOS ((size_t)-1)
struct Str { const char *p; size_t n; };
/* the m_ aliases are what the extracted member functions use (the plain names are shadowed there by the `self->` member macros) */
struct ErrMsg { union { size_t hash; size_t m_hash; }; union { struct Str errorId; struct Str m_errorId; }; struct Str mFileName; union { int lineNumber; int m_lineNumber; }; struct Str symbolNames; int macroNames_tag; };
struct Suppression { struct Str errorId, fileName, symbolName, macroName; int lineNumber, lineBegin, lineEnd; enum SType type; size_t hash;
                     _Bool thisAndNextLine, matched, checked, isInline; };
#define NO_LINE (-1)
/* external oracles: arbitrary results; each records what it was asked */
_Bool nondet_bool(void);
int g_glob_id_calls, g_path_calls, g_macro_calls, g_sym_calls; _Bool g_glob_id_res, g_path_res, g_macro_res, g_sym_any, g_bad_operand;
size_t g_sym_pos[SYM_MAX + 2], g_sym_len[SYM_MAX + 2]; const struct Suppression *g_self; const struct ErrMsg *g_msg;
static _Bool ext_matchglob(const char *pat, size_t pat_len, const char *name, size_t name_len)
{
    if (pat == g_self->errorId.p && pat_len == g_self->errorId.n) {            /* error-id glob */
        if (!(name == g_msg->errorId.p && name_len == g_msg->errorId.n)) g_bad_operand = 1;
        g_glob_id_calls++; return g_glob_id_res;
    }
    if (pat == g_self->symbolName.p && pat_len == g_self->symbolName.n) {      /* symbol-name glob on one segment */
        size_t off = (size_t)(name - g_msg->symbolNames.p);
        if (!(__CPROVER_same_object(name, g_msg->symbolNames.p) && off <= g_msg->symbolNames.n && name_len <= g_msg->symbolNames.n - off)) { g_bad_operand = 1; return 0; }
        if (g_sym_calls <= SYM_MAX) { g_sym_pos[g_sym_calls] = off; g_sym_len[g_sym_calls] = name_len; }
        g_sym_calls++;
        _Bool r = nondet_bool(); if (r) g_sym_any = 1; return r;
    }
    g_bad_operand = 1; return nondet_bool();
}
static _Bool ext_pathmatch(const char *pat, size_t pat_len, const char *path, size_t path_len)
{
    if (!(pat == g_self->fileName.p && pat_len == g_self->fileName.n)) g_bad_operand = 1;
    g_path_calls++; return g_path_res;
}
static size_t ext_macro_count(int set_tag, const char *m, size_t m_len)
{
    if (!(set_tag == g_msg->macroNames_tag && m == g_self->macroName.p && m_len == g_self->macroName.n)) g_bad_operand = 1;
    g_macro_calls++; return g_macro_res ? 1 : 0;
}
static size_t vstr_find_ch(const char *s, size_t n, char c, size_t pos) { for (size_t i = 0; i <= SYM_MAX; i++) if (i >= pos && i < n && s[i] == c) return i; return NPOS; }
static _Bool vstr_has_any(const char *s, size_t n, const char *set) { for (size_t i = 0; i < 3; i++) if (i < n) for (size_t k = 0; set[k] != 0; k++) if (s[i] == set[k]) return 1; return 0; }
'''

HARNESS = r'''
int g_in_type, g_in_line, g_in_mline, g_in_tanl, g_in_lb, g_in_le, g_in_fn_empty, g_in_id_empty, g_in_mid_empty, g_in_sym_empty, g_in_hash_s, g_in_hash_m, g_in_glob, g_in_path, g_in_macro;
static char buf_id[2], buf_mid[2], buf_fn[2], buf_mfn[2], buf_sym[2], buf_macro[2], buf_syms[SYM_MAX + 1];
static void mk_str(struct Str *s, char *buf, size_t maxn) { s->p = buf; s->n = nondet_size_t(); __CPROVER_assume(s->n <= maxn); }
static void mk_case(struct Suppression *s, struct ErrMsg *m) {
    mk_str(&s->errorId, buf_id, 1); mk_str(&s->fileName, buf_fn, 1); mk_str(&s->symbolName, buf_sym, 1); mk_str(&s->macroName, buf_macro, 1);
    mk_str(&m->errorId, buf_mid, 1); mk_str(&m->mFileName, buf_mfn, 1); mk_str(&m->symbolNames, buf_syms, SYM_MAX);
    for (int i = 0; i <= SYM_MAX; i++) buf_syms[i] = nondet_char();
    s->lineNumber = nondet_int(); s->lineBegin = nondet_int(); s->lineEnd = nondet_int(); s->type = (enum SType)nondet_int(); s->hash = nondet_size_t();
    s->thisAndNextLine = nondet_bool(); s->matched = nondet_bool(); s->checked = nondet_bool(); s->isInline = nondet_bool();
    __CPROVER_assume(s->type >= SType_unique && s->type <= SType_macro);
    __CPROVER_assume(s->lineNumber >= NO_LINE && s->lineNumber < 2147483647);      /* line numbers of source files */
    m->hash = nondet_size_t(); m->lineNumber = nondet_int(); m->macroNames_tag = 77;
    g_self = s; g_msg = m; g_glob_id_res = nondet_bool(); g_path_res = nondet_bool(); g_macro_res = nondet_bool();
    g_glob_id_calls = g_path_calls = g_macro_calls = g_sym_calls = 0; g_sym_any = 0; g_bad_operand = 0;
    g_in_type = s->type; g_in_line = s->lineNumber; g_in_mline = m->lineNumber; g_in_tanl = s->thisAndNextLine; g_in_lb = s->lineBegin; g_in_le = s->lineEnd;
    g_in_fn_empty = s->fileName.n == 0; g_in_id_empty = s->errorId.n == 0; g_in_mid_empty = m->errorId.n == 0; g_in_sym_empty = s->symbolName.n == 0;
    g_in_hash_s = s->hash > 0; g_in_hash_m = (s->hash == m->hash); g_in_glob = g_glob_id_res; g_in_path = g_path_res; g_in_macro = g_macro_res;
}
/* number of newline-separated segments of symbolNames and whether slice (pos,len) is one of them */
static _Bool is_segment(const struct Str *t, size_t pos, size_t len) {
    if (pos > t->n || len > t->n - pos) return 0;
    if (pos != 0 && t->p[pos - 1] != '\n') return 0;
    if (pos + len != t->n && t->p[pos + len] != '\n') return 0;
    for (size_t i = 0; i < SYM_MAX; i++) if (i >= pos && i < pos + len && t->p[i] == '\n') return 0;
    return 1;
}
void h_issuppressed(void) {
    struct Suppression s; struct ErrMsg m; mk_case(&s, &m);
    enum Result r = isSuppressed(&s, &m);
    __CPROVER_assert(!g_bad_operand, "matchglob / PathMatch::match / macroNames.count are called with the suppression's pattern and the finding's value");
    _Bool applies, filters;
    if (s.type == SType_macro) {
        applies = g_macro_res;
        filters = !(s.hash > 0 && s.hash != m.hash) && (s.errorId.n == 0 || g_glob_id_res);
    } else {
        _Bool line_ok = !(s.type == SType_unique && s.lineNumber != NO_LINE) || s.lineNumber == m.lineNumber || (s.thisAndNextLine && (long long)s.lineNumber + 1 == m.lineNumber);
        applies = line_ok && (s.fileName.n == 0 || g_path_res);
        filters = !(s.hash > 0 && s.hash != m.hash) && (s.errorId.n == 0 || (m.errorId.n != 0 && g_glob_id_res)) &&
                  !(s.type == SType_block && (m.lineNumber < s.lineBegin || m.lineNumber > s.lineEnd));
    }
    __CPROVER_assert((r == Result_None) == !applies, "None exactly when the suppression does not apply to this line / file / macro");
    __CPROVER_assert(!(r == Result_Matched) || (applies && filters && (s.symbolName.n == 0 || g_sym_any)), "Matched only if id, hash, block range and (when given) some symbol name match");
    __CPROVER_assert(!(applies && filters && s.symbolName.n == 0) || r == Result_Matched, "without a symbol name the conjunction decides");
    __CPROVER_assert(!(applies && filters && g_sym_any) || r == Result_Matched, "a matching symbol segment gives Matched");
    /* symbol segments: each one handed to the glob is a maximal newline-free slice, in order, none skipped */
    for (size_t k = 0; k <= SYM_MAX; k++) if ((int)k < g_sym_calls) {
        __CPROVER_assert(is_segment(&m.symbolNames, g_sym_pos[k], g_sym_len[k]), "each symbol name handed to the glob is a whole newline-separated segment");
        __CPROVER_assert(k == 0 ? g_sym_pos[0] == 0 : g_sym_pos[k] == g_sym_pos[k - 1] + g_sym_len[k - 1] + 1, "segments are tried in order without gaps");
    }
    if (applies && filters && s.symbolName.n != 0 && !g_sym_any && m.symbolNames.n > 0) {
        size_t last = (size_t)g_sym_calls - 1;
        __CPROVER_assert(g_sym_calls >= 1 && g_sym_calls <= SYM_MAX + 1 && (g_sym_pos[last] + g_sym_len[last] == m.symbolNames.n || (g_sym_pos[last] + g_sym_len[last] + 1 == m.symbolNames.n && m.symbolNames.p[m.symbolNames.n - 1] == '\n')),
                         "when no segment matches, every segment up to the end (or up to a trailing newline) was tried");
    }
}
void h_ismatch(void) {
    struct Suppression s; struct ErrMsg m; mk_case(&s, &m); _Bool c0 = s.checked, m0 = s.matched;
    struct Suppression before = s;
    _Bool r = isMatch(&s, &m);
    __CPROVER_assert(!r || (s.matched && s.checked), "isMatch true marks the suppression matched and checked");
    __CPROVER_assert(r || s.matched == m0, "isMatch false leaves matched unchanged");
    __CPROVER_assert(s.checked || !c0, "checked is never cleared");
    __CPROVER_assert(s.lineNumber == before.lineNumber && s.type == before.type && s.hash == before.hash && s.isInline == before.isInline && s.errorId.n == before.errorId.n, "isMatch changes only checked/matched");
    /* the C24 half: once matched, none of the three unmatched-reports lists it */
    if (r) {
        __CPROVER_assert(!unmatched_local(&s, nondet_bool()), "a matched suppression is not reported by getUnmatchedLocalSuppressions");
        __CPROVER_assert(!unmatched_global(&s), "a matched suppression is not reported by getUnmatchedGlobalSuppressions");
        __CPROVER_assert(!unmatched_inline(&s), "a matched suppression is not reported by getUnmatchedInlineSuppressions");
    }
}
void h_unmatched(void) {
    struct Suppression s; struct ErrMsg m; mk_case(&s, &m); for (int i = 0; i < 2; i++) { buf_fn[i] = nondet_char(); buf_id[i] = nondet_char(); }
    g_in_hash_s = s.hash > 0;
    _Bool pm = nondet_bool(); g_path_res = pm;
    _Bool l = unmatched_local(&s, pm), g = unmatched_global(&s), i = unmatched_inline(&s);
    __CPROVER_assert(!s.matched || (!l && !g && !i), "matched => never reported");
    __CPROVER_assert(!i || (s.isInline && s.checked), "inline report => inline and checked");
    __CPROVER_assert(!(l || g) || !s.isInline, "local/global report => not inline");
    __CPROVER_assert(!(l && g), "local and global reports are disjoint");
    __CPROVER_assert(!(l || g || i) || s.hash == 0, "hash suppressions are not reported");
    _Bool local = s.fileName.n != 0 && !(s.fileName.n >= 1 && (buf_fn[0] == '?' || buf_fn[0] == '*'));
    __CPROVER_assert(!l || local, "local report => the suppression names one file");
    __CPROVER_assert(!g || !local, "global report => wildcard or no file");
}
void h_same(void) {
    struct Suppression a, b; struct ErrMsg m; mk_case(&a, &m); b = a;
    if (nondet_bool()) b.lineNumber = nondet_int(); if (nondet_bool()) b.hash = nondet_size_t(); if (nondet_bool()) b.thisAndNextLine = nondet_bool();
    _Bool e1 = nondet_bool(), e2 = nondet_bool(), e3 = nondet_bool(); g_str_eq[0] = e1; g_str_eq[1] = e2; g_str_eq[2] = e3;
    _Bool r = isSameParameters(&a, &b);
    __CPROVER_assert(r == (e1 && e2 && e3 && a.lineNumber == b.lineNumber && a.hash == b.hash && a.thisAndNextLine == b.thisAndNextLine),
                     "isSameParameters <=> error id, file name, line, symbol name, hash and thisAndNextLine all equal");
    __CPROVER_assert(!r || g_str_eq_mask == 7, "a true result has compared all three string members (errorId, fileName, symbolName)");
}
void h_cover(void) {
    struct Suppression s; struct ErrMsg m; mk_case(&s, &m);
    enum Result r = isSuppressed(&s, &m);
    __CPROVER_assert(!(r == Result_Matched && g_sym_calls == 2), "COVER: matched on the second symbol segment");
    __CPROVER_assert(!(r == Result_Checked && s.type == SType_block), "COVER: block suppression outside its range");
    __CPROVER_assert(!(r == Result_None && s.type == SType_macro), "COVER: macro suppression that does not apply");
}
'''

REPLAY_CPP = r'''
#include "suppressions.h"
#include "errortypes.h"
#include <cstdio>
#include <cstdlib>
int main(int argc, char **argv) {
    /* type line mline thisAndNextLine lineBegin lineEnd fn_empty id_empty mid_empty sym_empty hash_s hash_eq glob path macro */
    int v[15]; for (int i = 0; i < 15; i++) v[i] = atoi(argv[1 + i]);
    SuppressionList::Suppression s; SuppressionList::ErrorMessage m;
    s.type = (SuppressionList::Type)v[0]; s.lineNumber = v[1]; m.lineNumber = v[2]; s.thisAndNextLine = v[3]; s.lineBegin = v[4]; s.lineEnd = v[5];
    const bool glob = v[12], path = v[13], macro = v[14];
    s.fileName = v[6] ? "" : (path ? "t.c" : "other.c"); m.setFileName("t.c");
    s.errorId = v[7] ? "" : (glob ? "uninit*" : "zzz*"); m.errorId = v[8] ? "" : "uninitvar";
    s.symbolName = ""; s.hash = v[10] ? 5 : 0; m.hash = v[11] ? s.hash : s.hash + 1;
    s.macroName = "M"; if (macro) m.macroNames.insert("M");
    const SuppressionList::Suppression::Result r = s.isSuppressed(m);
    bool applies, filters;
    if (s.type == SuppressionList::Type::macro) { applies = macro; filters = !(s.hash > 0 && s.hash != m.hash) && (s.errorId.empty() || glob); }
    else { bool line_ok = !(s.type == SuppressionList::Type::unique && s.lineNumber != -1) || s.lineNumber == m.lineNumber || (s.thisAndNextLine && (long long)s.lineNumber + 1 == m.lineNumber);
        applies = line_ok && (s.fileName.empty() || path);
        filters = !(s.hash > 0 && s.hash != m.hash) && (s.errorId.empty() || (!m.errorId.empty() && glob)) && !(s.type == SuppressionList::Type::block && (m.lineNumber < s.lineBegin || m.lineNumber > s.lineEnd)); }
    int want = !applies ? 0 : (filters ? 2 : 1);
    printf("isSuppressed(type=%d line=%d/%d block=%d..%d) = %d, documented rules say %d\n", v[0], v[1], v[2], v[4], v[5], (int)r, want);
    return (int)r == want ? 0 : 1;
}
'''


def lower_strings(text, owner_map):
    """member std::string operations -> (p, n) pairs.  owner_map: C++ prefix -> C prefix, e.g. 'errmsg.' -> 'errmsg->', '' -> 'self->'."""
    return text


def build(ctx):
    kb = KernelBuild(ID, TITLE)
    st, st_names = extract.enum_list("lib/suppressions.h", r'enum\s+class\s+Type\s*:\s*std::uint8_t\s*\{', "SType_")
    rs, rs_names = extract.enum_list("lib/suppressions.h", r'enum\s+class\s+Result\s*:\s*std::uint8_t\s*\{', "Result_")
    if st_names != ["unique", "file", "block", "blockBegin", "blockEnd", "macro"]:
        raise extract.ExtractError("SuppressionList::Type enumerators changed: %s" % st_names)
    out = [_common.BASE, "enum SType %s;\nenum Result %s;\n" % (st, rs), PRELUDE]
    n = 0
    STRM = ["errorId", "fileName", "symbolName", "macroName"]
    member_defs = "".join("#define %s (self->%s)\n" % (f, f) for f in ["lineNumber", "lineBegin", "lineEnd", "type", "hash", "thisAndNextLine", "matched", "checked", "isInline"] + STRM)
    member_undefs = "".join("#undef %s\n" % f for f in ["lineNumber", "lineBegin", "lineEnd", "type", "hash", "thisAndNextLine", "matched", "checked", "isInline"] + STRM)
    common = [
        (r'SuppressionList::Type::(\w+)', r'SType_\1', 0),
        (r'\bResult::(\w+)', r'Result_\1', 0),
        (r'\bSuppression::NO_LINE\b', 'NO_LINE', 0),
    ]
    # isWildcard / isLocal
    lw = extract.locate_function("lib/suppressions.h", r'^\s*bool\s+isWildcard\s*\(\s*\)\s*const')
    kb.add_located("Suppression::isWildcard", lw)
    t, k = located_rules(lw, [(r'\bfileName\.find_first_of\("\?\*"\)\s*!=\s*std::string::npos', 'vstr_has_any(fileName.p, fileName.n, "?*")', 1, 1)], ID + ".isWildcard"); n += k
    sig, body = extract.body_of(t)
    out.append(member_defs + "%s %s\n" % (_common.add_self(sig, "const struct Suppression *self", "isWildcard"), body))
    ll = extract.locate_function("lib/suppressions.h", r'^\s*bool\s+isLocal\s*\(\s*\)\s*const')
    kb.add_located("Suppression::isLocal", ll)
    t, k = located_rules(ll, [(r'\bfileName\.empty\(\)', '(fileName.n == 0)', 1, 1), (r'\bisWildcard\(\)', 'isWildcard(self)', 1, 1)], ID + ".isLocal"); n += k
    sig, body = extract.body_of(t)
    out.append("%s %s\n" % (_common.add_self(sig, "const struct Suppression *self", "isLocal"), body))
    # isSameParameters: string equality through a recording oracle
    lsp = extract.locate_function("lib/suppressions.h", r'^\s*bool\s+isSameParameters\s*\(')
    kb.add_located("Suppression::isSameParameters", lsp)
    t, k = located_rules(lsp, [
        (r'\(\s*const Suppression\s*&\s*other\s*\)', '(const struct Suppression *other)', 1, 1),
        (r'\b(errorId|fileName|symbolName)\s*==\s*other\.\1\b', lambda mo: 'ext_str_eq(%d, &self->%s, &other->%s)' % (["errorId", "fileName", "symbolName"].index(mo.group(1)), mo.group(1), mo.group(1)), 0),
        (r'\b(lineNumber|hash|thisAndNextLine)\s*==\s*other\.\1\b', r'self->\1 == other->\1', 0),
    ], ID + ".isSameParameters"); n += k
    if "other." in extract.mask(t):
        raise extract.ExtractError("isSameParameters: a comparison with other.<member> was not lowered: %r" % t.strip()[:300])
    sig, body = extract.body_of(t)
    out.append("_Bool g_str_eq[3]; int g_str_eq_mask;\nstatic _Bool ext_str_eq(int which, const struct Str *a, const struct Str *b) { g_str_eq_mask |= (1 << which); return g_str_eq[which]; }\n")
    out.append(member_undefs + "%s %s\n" % (_common.add_self(sig, "const struct Suppression *self", "isSameParameters"), body) + member_defs)
    # call sites of isSameParameters: addSuppression and updateSuppressionState must find duplicates with exactly this predicate
    # (the predicate itself is under contract above; a different predicate at the call site is outside it -> extraction stops, exit 2)
    for fn in (r'^std::string SuppressionList::addSuppression\s*\(\s*SuppressionList::Suppression\s+suppression', r'^bool SuppressionList::updateSuppressionState\s*\('):
        cs = extract.locate_function("lib/suppressions.cpp", fn)
        if not re.search(r'std::find_if\(\s*mSuppressions\.begin\(\)\s*,\s*mSuppressions\.end\(\)\s*,\s*std::bind\(\s*&Suppression::isSameParameters\s*,\s*&suppression\s*,\s*std::placeholders::_1\s*\)\s*\)',
                         extract.strip_comments(cs.text)):
            raise extract.ExtractError("%s: the duplicate lookup no longer uses Suppression::isSameParameters (the contract on isSameParameters does not cover the new predicate)" % cs.where())
        kb.add_located("duplicate lookup call site (must use isSameParameters)", cs, "call-site")
    # isSuppressed
    li = extract.locate_function("lib/suppressions.cpp", r'^SuppressionList::Suppression::Result SuppressionList::Suppression::isSuppressed\s*\(')
    kb.add_located("Suppression::isSuppressed", li)
    t, k = located_rules(li, common + [
        (r'^SuppressionList::Suppression::Result SuppressionList::Suppression::isSuppressed\s*\(\s*const SuppressionList::ErrorMessage\s*&\s*errmsg\s*\)\s*const',
         'enum Result isSuppressed(const struct Suppression *self, const struct ErrMsg *errmsg)', 1, 1),
        (r'\berrmsg\.macroNames\.count\(macroName\)', 'ext_macro_count(errmsg->macroNames_tag, macroName.p, macroName.n)', 1, 1),
        (r'\bmatchglob\(errorId,\s*errmsg\.errorId\)', 'ext_matchglob(errorId.p, errorId.n, errmsg->m_errorId.p, errmsg->m_errorId.n)', 2, 2),
        (r'\bPathMatch::match\(fileName,\s*errmsg\.getFileName\(\)\)', 'ext_pathmatch(fileName.p, fileName.n, errmsg->mFileName.p, errmsg->mFileName.n)', 1, 1),
        (r'\bmatchglob\(symbolName,\s*symname\)', 'ext_matchglob(symbolName.p, symbolName.n, symname.p, symname.n)', 1, 1),
        (r'(?<![\w.])(errorId|fileName|symbolName)\.empty\(\)', r'(\1.n == 0)', 3),
        (r'\berrmsg\.errorId\.empty\(\)', '(errmsg->m_errorId.n == 0)', 1, 1),
        (r'std::string::size_type', 'size_t', 2),
        (r'std::string::npos', 'NPOS', 1),
        (r'\berrmsg\.symbolNames\.size\(\)', 'errmsg->symbolNames.n', 1, 1),
        (r'\berrmsg\.symbolNames\.find\(\'\\n\',\s*pos\)', "vstr_find_ch(errmsg->symbolNames.p, errmsg->symbolNames.n, '\\\\n', pos)", 1, 1),
        (r'std::string\s+symname\s*;', 'struct Str symname; symname.p = errmsg->symbolNames.p; symname.n = 0;', 1, 1),
        (r'symname\s*=\s*errmsg\.symbolNames\.substr\(pos\)\s*;', 'symname.p = errmsg->symbolNames.p + pos; symname.n = errmsg->symbolNames.n - pos;', 1, 1),
        (r'symname\s*=\s*errmsg\.symbolNames\.substr\(pos\s*,\s*pos2\s*-\s*pos\)\s*;', 'symname.p = errmsg->symbolNames.p + pos; symname.n = pos2 - pos;', 1, 1),
        (r'\berrmsg\.(hash|lineNumber)\b', r'errmsg->m_\1', 3),
    ], ID + ".isSuppressed"); n += k
    if re.search(r'\berrmsg\.', extract.mask(t)):
        raise extract.ExtractError("isSuppressed: an access to errmsg.<member> was not lowered")
    out.append(t + "\n")
    # isMatch
    lm = extract.locate_function("lib/suppressions.cpp", r'^bool SuppressionList::Suppression::isMatch\s*\(')
    kb.add_located("Suppression::isMatch", lm)
    t, k = located_rules(lm, common + [
        (r'^bool SuppressionList::Suppression::isMatch\s*\(\s*const SuppressionList::ErrorMessage\s*&\s*errmsg\s*\)', 'bool isMatch(struct Suppression *self, const struct ErrMsg *errmsg)', 1, 1),
        (r'\bisSuppressed\(errmsg\)', 'isSuppressed(self, errmsg)', 1, 1),
        (r'cppcheck::unreachable\(\)\s*;', '__CPROVER_assert(0, "cppcheck::unreachable() reached"); return 0;', 1, 1),
    ], ID + ".isMatch"); n += k
    out.append(t + "\n" + member_undefs)
    # K16 regions
    idm = re.search(r'static const char ID_CHECKERSREPORT\[\]\s*=\s*("(?:[^"\\]|\\.)*")\s*;', extract.read("lib/suppressions.cpp"))
    if not idm:
        raise extract.ExtractError("ID_CHECKERSREPORT not found")
    out.append("#define ID_CHECKERSREPORT %s\n" % idm.group(1))
    for fn, cname, extra in (("getUnmatchedLocalSuppressions", "unmatched_local", ", _Bool pathmatch_res"), ("getUnmatchedGlobalSuppressions", "unmatched_global", ""),
                             ("getUnmatchedInlineSuppressions", "unmatched_inline", "")):
        f = extract.locate_function("lib/suppressions.cpp", r'^std::list<SuppressionList::Suppression> SuppressionList::%s\s*\(' % fn)
        mb = extract.mask(f.text)
        hs = list(re.finditer(r'for\s*\(\s*const\s+(?:SuppressionList::)?Suppression\s*&\s*s\s*:\s*(?:SuppressionList::)?mSuppressions\s*\)\s*\{', mb))
        if len(hs) != 1:
            raise extract.ExtractError("%s: loop over mSuppressions not found" % fn)
        ob = hs[0].end() - 1
        cb = extract.match_brace(f.text, ob, mb)
        reg = extract.Located("lib/suppressions.cpp", f.text[ob + 1:cb], f.start + ob + 1, f.start + cb, extract.read("lib/suppressions.cpp"))
        kb.add_located("SuppressionList::%s [per-suppression predicate]" % fn, reg, "region")
        t, k = located_rules(reg, common + [
            (r'\bcontinue\s*;', 'return 0;', 4),
            (r'\bresult\.push_back\(s\)\s*;', 'return 1;', 1, 1),
            (r'\bs\.errorId\s*==\s*ID_CHECKERSREPORT', 'vstr_eq(s->errorId.p, s->errorId.n, ID_CHECKERSREPORT)', 0, 1),
            (r'PathMatch::match\(s\.fileName,\s*file\.spath\(\)\)', 'pathmatch_res', 0, 1),
            (r'\bs\.(isLocal|isWildcard)\(\)', r'\1(s)', 0),
            (r'\bs\.(\w+)\b', r's->\1', 4),
        ], ID + "." + cname); n += k
        out.append("_Bool %s(const struct Suppression *s%s)\n{\n%s\n}\n" % (cname, extra, extract.strip_comments(t)))
    kb.rules_fired = n
    text = "".join(out)
    extract.residue_scan(text, ID)
    kb.ctext = text + HARNESS
    kb.job("isSuppressed", "h_issuppressed", kind="bounded", unwind=8, replay="issup", timeout=600, props=["C23", "C13"],
           note="decision table complete in all scalar members and oracle results; symbolNames <= 4 bytes (bounded part: the segment loop)")
    kb.job("isMatch", "h_ismatch", kind="bounded", unwind=8, timeout=600,
           note="as isSuppressed; plus: a suppression for which isMatch returned true is reported by none of the three getUnmatched* predicates")
    kb.job("getUnmatched", "h_unmatched", unwind=20, props=["C24", "C13"], note="loop-free predicate regions (helper loops over <= 3 bytes fully unwound): complete")
    kb.job("isSameParameters", "h_same", unwind=8, props=["C23", "C13"], note="loop-free: complete")
    kb.job("cover", "h_cover", kind="cover", unwind=8)
    kb.assumptions += ["external oracles with arbitrary results: matchglob (proved separately, K13 bounded), PathMatch::match, std::set::count, std::string::operator== (isSameParameters)",
                       "std::string members are (pointer,length) pairs; find/substr lowered to index arithmetic on the same buffer",
                       "suppression line numbers are < INT_MAX (lineNumber + 1 is evaluated)",
                       "region interface of getUnmatched*: one suppression s; PathMatch::match result as a parameter; the std::list copy and the mutex are dropped"]

    def rp(inputs, ctx):
        keys = ["g_in_type", "g_in_line", "g_in_mline", "g_in_tanl", "g_in_lb", "g_in_le", "g_in_fn_empty", "g_in_id_empty", "g_in_mid_empty", "g_in_sym_empty", "g_in_hash_s", "g_in_hash_m", "g_in_glob", "g_in_path", "g_in_macro"]
        rc, o, cmd = native.compile_run("replay_K15", REPLAY_CPP, [inputs.get(k, 0) for k in keys])
        return native.verdict_from_rc(rc, o), o, cmd
    kb.replayers["issup"] = rp
    return kb
