"""K50  CheckCondition::checkInvalidTestForOverflow (lib/checkcondition.cpp), the block for `x + c cmp x` / `x - c cmp x`:
the value ("always true" / "always false") the message says compilers assume for the test.

Region: from the `// x [+-] c cmp x` block up to its `continue;`.  Ghost: x and c are any values such that the signed
addition / subtraction does not overflow (that is exactly the assumption the message talks about); c > 0 for a number
token, c >= 0 for an operand of unsigned type.  Contract (C03, "similar verdicts"): the reported value is the value of the
comparison for every such x and c.
"""
import re

from vlib import extract, native
from vlib.kernel import KernelBuild, located_rules
from . import _common

ID = "K50"
SERVES = ["C03", "C13"]
TITLE = "invalidTestForOverflow: the value claimed for `x + c cmp x` holds for every x and c without overflow"

PRELUDE = r'''
#include "vstr.h"
static _Bool op_is(const char *op, const char *lit) { size_t n = 0; while (n < 3 && op[n] != 0) n++; return vstr_eq(op, n, lit); }
int g_reported; _Bool g_result;
#define REPORT(r) do { g_reported++; g_result = (r); } while (0)
'''

HARNESS = r'''
bigint g_in_x, g_in_c; int g_in_cmp, g_in_plus, g_in_num, g_in_uns;
static const char *cmpname(int k) { return k == 0 ? "<" : k == 1 ? "<=" : k == 2 ? ">" : ">="; }
static _Bool rel(int op, bigint a, bigint b) { return op == 0 ? a < b : op == 1 ? a <= b : op == 2 ? a > b : a >= b; }
void h_overflowtest(void) {
    int cmp = nondet_int(); __CPROVER_assume(cmp >= 0 && cmp <= 3);
    _Bool plus = nondet_bool(), o_num = nondet_bool(), o_known = nondet_bool(), o_unsigned = nondet_bool();
    bigint c = nondet_bigint(), x = nondet_bigint();
    /* a number token has a known value; an operand of unsigned type is not negative */
    if (o_num) __CPROVER_assume(o_known);
    if (o_unsigned) __CPROVER_assume(c >= 0);
    g_in_x = x; g_in_c = c; g_in_cmp = cmp; g_in_plus = plus; g_in_num = o_num; g_in_uns = o_unsigned;
    g_reported = 0;
    overflowtest_block(cmpname(cmp), plus, o_num, o_known, c, o_unsigned);
    if (!g_reported) return;
    /* no overflow: the premise of the message (32-bit int, computed in 64 bits) */
    __CPROVER_assume(x >= -2147483648LL && x <= 2147483647LL && c >= -2147483648LL && c <= 4294967295LL);
    bigint r = plus ? x + c : x - c;
    __CPROVER_assume(r >= -2147483648LL && r <= 2147483647LL);
    __CPROVER_assert(rel(cmp, r, x) == g_result, "the value the message claims for `x +/- c cmp x` is its value for every x and c without overflow");
}
void h_cover(void) {
    g_reported = 0; overflowtest_block(">", 1, 1, 1, 1, 0);
    __CPROVER_assert(!(g_reported == 1 && g_result == 1), "COVER: x + 1 > x is reported as always true");
    g_reported = 0; overflowtest_block(">=", 1, 0, 0, 0, 1);
    __CPROVER_assert(!(g_reported == 1 && g_result == 1), "COVER: x + u >= x (u unsigned) is reported as always true");
}
'''

REPLAY_CPP = r'''
#include <cstdio>
int main() { printf("K50: compare `cppcheck --enable=warning` on `void f(int x, unsigned char u){ if (x + u > x) g(); }` (u == 0 makes the test false)\n"); return 0; }
'''


def build(ctx):
    kb = KernelBuild(ID, TITLE)
    src = "lib/checkcondition.cpp"
    f = extract.locate_function(src, r'^void CheckCondition::checkInvalidTestForOverflow\s*\(\s*\)')
    m = extract.mask(f.text)
    mc = extract.mask(f.text, keep_strings=True)
    # region: from the statement after `const Token * const other = expr->astSibling();` to the first `continue;` that follows the report
    s = list(re.finditer(r'const Token \* const other = expr->astSibling\(\)\s*;', mc))
    e = list(re.finditer(r'invalidTestForOverflow\(tok, lhs->valueType\(\), bool_to_string\(result\)\)\s*;\s*continue\s*;\s*\}', mc))
    if len(s) != 1 or len(e) != 1 or e[0].start() < s[0].end():
        raise extract.ExtractError("checkInvalidTestForOverflow: block `x [+-] c cmp x` not found")
    # how cmp is prepared (mirrored when the sum is the right operand): pinned by text
    head = " ".join(extract.strip_comments(f.text[:s[0].start()]).split())
    if "std::string cmp = tok->str(); if (lhs == tok->astOperand2()) cmp[0] = (cmp[0] == '<') ? '>' : '<';".replace(" ", "") not in head.replace(" ", ""):
        raise extract.ExtractError("checkInvalidTestForOverflow: preparation of `cmp` changed")
    reg = extract.Located(src, f.text[s[0].end():e[0].end()], f.start + s[0].end(), f.start + e[0].end(), extract.read(src))
    kb.add_located("CheckCondition::checkInvalidTestForOverflow [x +/- c cmp x]", reg, "region")
    t, n = located_rules(reg, [
        (r'\bother->isNumber\(\)', 'o_num', 2, 2),
        (r'\bother->hasKnownIntValue\(\)', 'o_known', 1, 1),
        (r'\bother->getKnownIntValue\(\)', 'o_val', 1, 1),
        (r'\bother->valueType\(\) && other->valueType\(\)->isIntegral\(\) && other->valueType\(\)->sign == ValueType::Sign::UNSIGNED', 'o_unsigned', 1, 1),
        (r'\blhs->str\(\)\s*==\s*"\+"', 'lhs_plus', 1),
        (r'\bcmp\s*==\s*("(?:[^"\\]|\\.)*")', r'op_is(cmp, \1)', 4),
        (r'\binvalidTestForOverflow\(tok, lhs->valueType\(\), bool_to_string\(result\)\)\s*;', 'REPORT(result);', 1, 1),
        (r'\bcontinue\s*;', 'return;', 1, 1),
        (r'\bbool\b', '_Bool', 1),
    ], ID)
    if re.search(r'other->|lhs->|tok\b|std::', extract.mask(t)):
        raise extract.ExtractError("K50: not fully lowered: %r" % re.findall(r'[^\n]*(?:other->|lhs->|tok\b|std::)[^\n]*', extract.mask(t))[:3])
    kb.rules_fired = n
    fn = "static void overflowtest_block(const char *cmp, _Bool lhs_plus, _Bool o_num, _Bool o_known, bigint o_val, _Bool o_unsigned)\n{\n%s\n}\n" % extract.strip_comments(t)
    text = _common.BASE + PRELUDE + fn
    extract.residue_scan(text, ID)
    kb.ctext = text + HARNESS
    kb.job("verdict", "h_overflowtest", unwind=6, replay="note", note="loop-free region; all four comparisons, + and -, number / unsigned operand, every x and c without overflow")
    kb.job("cover", "h_cover", kind="cover", unwind=6)
    kb.assumptions += ["the operands are 32-bit int values computed without overflow (the premise of the message); pointers (p + u cmp p) follow the same table and are not modelled separately",
                       "`cmp` is the operator with the sum on the left (mirroring pinned by text); the messages for `x + y cmp x` with a variable y are not covered"]

    def rnote(inputs, ctx):
        rc, o, cmd = native.compile_run("replay_K50", REPLAY_CPP, [], need_core=False)
        return "none", o, cmd
    kb.replayers["note"] = rnote
    return kb
