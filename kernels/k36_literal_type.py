"""K36  type of an integer literal: the platform block of SymbolDatabase::setValueTypeInTokenList
(lib/symboldatabase.cpp) together with Platform::isIntValue/isLongValue/isLongLongValue(biguint) (lib/platform.h).

Region: the statements under `if (mSettings.platform.type != Platform::Type::Unspecified) {` that pick the first
type of the C11 6.4.4.1p5 list in which the value fits.  Interface: the type and sign given by the suffix, whether
there is a u/U suffix, whether the literal is decimal, the value, the platform widths.
Postcondition: the (type, sign) of the table in C11 6.4.4.1p5 / C++ [lex.icon] for the platform's widths.
"""
import re

from vlib import extract, native
from vlib.kernel import KernelBuild, located_rules
from . import _common, k07_literals

ID = "K36"
SERVES = ["C09", "C10", "C13"]
TITLE = "integer literal type == C11 6.4.4.1p5 table"

HARNESS = r'''
#include "literal_ref.h"
#ifndef LMAX
#define LMAX 6
#endif
char g_in_s[LMAX + 1]; size_t g_in_len;

biguint g_in_value; int g_in_suffix_type, g_in_unsigned, g_in_dec, g_in_int_bit, g_in_long_bit;
static _Bool fits(biguint v, int bits, _Bool uns) { return uns ? (bits >= 64 || v <= ((1ULL << bits) - 1)) : (v <= ((1ULL << (bits - 1)) - 1)); }
#ifdef WITH_BLOCK
void h_littype(void) {
    struct Platform pl; pl.int_bit = nondet_uchar(); pl.long_bit = nondet_uchar(); pl.long_long_bit = 64;
    __CPROVER_assume((pl.int_bit == 16 || pl.int_bit == 32) && (pl.long_bit == 32 || pl.long_bit == 64) && pl.long_bit >= pl.int_bit);
    enum VType st = (enum VType)nondet_int(); __CPROVER_assume(st == VType_INT || st == VType_LONG || st == VType_LONGLONG);   /* from the l / ll / i64 suffix */
    _Bool uns = nondet_bool(), dec = nondet_bool(); biguint value = nondet_biguint();
    g_in_value = value; g_in_suffix_type = st; g_in_unsigned = uns; g_in_dec = dec; g_in_int_bit = pl.int_bit; g_in_long_bit = pl.long_bit;
    enum VType type = st; enum Sign sign = uns ? Sign_UNSIGNED : Sign_SIGNED;
    literal_type_block(&type, &sign, uns, dec, value, &pl);
    /* C11 6.4.4.1p5: first type of the list in which the value can be represented */
    int bits[3] = { pl.int_bit, pl.long_bit, 64 }; enum VType ty[3] = { VType_INT, VType_LONG, VType_LONGLONG };
    int first = st == VType_INT ? 0 : st == VType_LONG ? 1 : 2;
    _Bool found = 0; enum VType wt = VType_LONGLONG; _Bool wu = 1;
    for (int k = 0; k < 3; k++) if (k >= first && !found) {
        if (!uns && fits(value, bits[k], 0)) { found = 1; wt = ty[k]; wu = 0; }
        else if ((uns || !dec) && fits(value, bits[k], 1)) { found = 1; wt = ty[k]; wu = 1; }
    }
    if (!found) return;   /* a decimal literal too large for long long has no type in C; not constrained */
    __CPROVER_assert(type == wt, "the literal has the first type of the C11 6.4.4.1p5 list that can represent its value");
    __CPROVER_assert((sign == Sign_UNSIGNED) == wu, "signedness of the literal's type follows the same list");
}
#endif

/* whole literal typing, from the spelling: suffix scan + C11 6.4.4.1p5 table; the value is an arbitrary oracle result of toBigUNumber */
void h_full(void) {
    struct Platform pl; pl.int_bit = nondet_uchar(); pl.long_bit = nondet_uchar(); pl.long_long_bit = 64;
    __CPROVER_assume((pl.int_bit == 16 || pl.int_bit == 32) && (pl.long_bit == 32 || pl.long_bit == 64) && pl.long_bit >= pl.int_bit);
    char s[LMAX + 1]; size_t n = nondet_size_t(); __CPROVER_assume(n >= 1 && n <= LMAX);
    for (int i = 0; i <= LMAX; i++) { s[i] = nondet_char(); if ((size_t)i < n) __CPROVER_assume(s[i] != 0); }
    s[n] = 0;
    /* an unsigned (abs) integer literal of the standard grammar with a standard suffix */
    _Bool dec = strict_isDec(s, n), oct = strict_isOct(s, n), hex = strict_isIntHex(s, n), bin = strict_isBin(s, n);
    __CPROVER_assume((dec || oct || hex || bin) && s[0] != '+' && s[0] != '-');
    size_t k = n; int nl = 0; _Bool u = 0; _Bool stdsuffix = 1;
    for (int i = 0; i < 3; i++) if (k > 1) { char c = s[k - 1]; if (c == 'u' || c == 'U') { u = 1; k--; } else if (c == 'l' || c == 'L') { nl++; k--; } else if (c == 'z' || c == 'Z' || c == '4' && k > 3 && s[k - 2] == '6' && (s[k - 3] == 'i' || s[k - 3] == 'I')) { stdsuffix = 0; } }
    for (size_t i = 0; i < LMAX; i++) if (i < n && s[i] == '_') stdsuffix = 0;
    __CPROVER_assume(stdsuffix && !(hex && 0));        /* u, l, ll suffixes only (z, i64 and user-defined literals are not constrained) */
    /* hex digits may look like suffix letters only for l/u? no: hex digits are 0-9a-f, so the scan above is exact for all four bases */
    biguint value = nondet_biguint();
    for (int i = 0; i <= LMAX; i++) g_in_s[i] = s[i]; g_in_len = n; g_in_value = value; g_in_int_bit = pl.int_bit; g_in_long_bit = pl.long_bit;
    enum VType type; enum Sign sign;
    literal_full(s, n, value, 1, &pl, &type, &sign);
    int bits[3] = { pl.int_bit, pl.long_bit, 64 }; enum VType ty[3] = { VType_INT, VType_LONG, VType_LONGLONG };
    int first = nl == 0 ? 0 : nl == 1 ? 1 : 2;
    _Bool isdec = dec && !oct;     /* "0" is an octal constant in C; its value fits int either way */
    _Bool found = 0; enum VType wt = VType_LONGLONG; _Bool wu = 1;
    for (int q = 0; q < 3; q++) if (q >= first && !found) {
        if (!u && fits(value, bits[q], 0)) { found = 1; wt = ty[q]; wu = 0; }
        else if ((u || !isdec) && fits(value, bits[q], 1)) { found = 1; wt = ty[q]; wu = 1; }
    }
    if (!found) return;
    __CPROVER_assert(type == wt && (sign == Sign_UNSIGNED) == wu, "the literal's type and signedness are those of C11 6.4.4.1p5 for its base, suffix and value");
}
#ifdef WITH_BLOCK
void h_cover(void) {
    struct Platform pl; pl.int_bit = 32; pl.long_bit = 64; pl.long_long_bit = 64; enum VType type = VType_INT; enum Sign sign = Sign_SIGNED;
    literal_type_block(&type, &sign, 0, 0, nondet_biguint(), &pl);
    __CPROVER_assert(!(type == VType_INT && sign == Sign_UNSIGNED), "COVER: a hex literal typed unsigned int");
    __CPROVER_assert(!(type == VType_LONG && sign == Sign_SIGNED), "COVER: a hex literal typed long");
    __CPROVER_assert(!(type == VType_LONG && sign == Sign_UNSIGNED), "COVER: a hex literal typed unsigned long");
}
#endif
'''

REPLAY_CPP = r'''
#include <cstdio>
int main() { printf("K36: see the verifier counterexample (value, suffix, base, widths); `cppcheck --dump` shows valueType-type/sign of the literal\n"); return 0; }
'''

PRED = [("isIntValue", "int_bit"), ("isLongValue", "long_bit"), ("isLongLongValue", "long_long_bit")]


def build(ctx):
    kb = KernelBuild(ID, TITLE)
    enums, _ = _common.valuetype_enums()
    pstruct, fields, _ = _common.platform_struct()
    out = [_common.BASE, "#define assert(c) __CPROVER_assert(c, \"assert(\" #c \")\")\n", enums, pstruct]
    n = 0
    loc = extract.locate_function("lib/platform.h", r'^\s*static\s+long\s+long\s+max_value\s*\(')
    kb.add_located("Platform::max_value", loc)
    t, k = located_rules(loc, [(r'^\s*static\s+', '', 1, 1)], ID + ".max_value"); n += k
    out.append(t + "\n" + _common.member_macros(fields + ["type"]))
    for name, bitm in PRED:
        loc = extract.locate_function("lib/platform.h", r'^\s*bool\s+%s\s*\(\s*MathLib::biguint\s+value\s*\)\s*const' % name)
        kb.add_located("Platform::%s(biguint)" % name, loc)
        t, k = located_rules(loc, [], ID + "." + name); n += k
        sig, body = extract.body_of(t)
        out.append("%s %s\n" % (_common.add_self(sig, "const struct Platform *self", name + "_u"), body))
    out.append(_common.member_macros(fields + ["type"], undef=True))
    reg = extract.locate_region("lib/symboldatabase.cpp", r'^void SymbolDatabase::setValueTypeInTokenList\s*\(',
                                r'if\s*\(\s*type\s*<=\s*ValueType::Type::INT\s*&&\s*mSettings\.platform\.isIntValue\(', r'setValueType\(tok,\s*ValueType\(sign,\s*type,\s*0U\)\)\s*;', include_end=False)
    # the region ends with the closing brace of `if (platform.type != Unspecified) {`: drop it
    body = reg.text.rstrip()
    if not body.endswith("}"):
        raise extract.ExtractError("K36: literal typing block does not end with the closing brace of the platform guard")
    reg.text = body[:-1]
    kb.add_located("SymbolDatabase::setValueTypeInTokenList [integer literal type block]", reg, "region")
    t, k = located_rules(reg, _common.VT_RULES + [
        (r'\bmSettings\.platform\.(isIntValue|isLongValue|isLongLongValue)\(', r'\1_u(platform, ', 5),
        # "is not a decimal-constant": cppcheck's isDec also accepts octal spellings (leading 0), so the code adds `|| isOct`
        (r'\(\s*!MathLib::isDec\(tokStr\)\s*\|\|\s*MathLib::isOct\(tokStr\)\s*\)', '(!is_dec)', 0, 2),
        (r'!MathLib::isDec\(tokStr\)', '!is_dec', 0, 2),
        (r'(?<![\w>.])type\b', '(*type_p)', 10),
        (r'(?<![\w>.])sign\b', '(*sign_p)', 3),
    ], ID + ".block"); n += k
    if re.search(r'MathLib|tokStr|mSettings', extract.mask(t)):
        raise extract.ExtractError("K36: part of the literal typing block was not lowered: %r" % t.strip()[:300])
    out.append("#ifdef WITH_BLOCK\nvoid literal_type_block(enum VType *type_p, enum Sign *sign_p, const _Bool unsignedSuffix, const _Bool is_dec, const biguint value, const struct Platform *platform)\n{\n%s\n}\n" % extract.strip_comments(t))
    out.append("#endif\n")

    # whole literal typing from the spelling (recognisers from K07, real code)
    rec = k07_literals.recognisers(kb)
    regf = extract.locate_region("lib/symboldatabase.cpp", r'^void SymbolDatabase::setValueTypeInTokenList\s*\(',
                                 r'const std::string tokStr\s*=\s*MathLib::abs\(tok->str\(\)\)\s*;', r'setValueType\(tok,\s*ValueType\(sign,\s*type,\s*0U\)\)\s*;', include_end=False)
    kb.add_located("SymbolDatabase::setValueTypeInTokenList [integer literal typing from the spelling]", regf, "region")
    tf, k = located_rules(regf, _common.VT_RULES + [
        (r'const std::string tokStr\s*=\s*MathLib::abs\(tok->str\(\)\)\s*;', '', 1, 1),
        (r'\(tokStr\.find_last_of\("uU"\)\s*!=\s*std::string::npos\)', 'vstr_has_any_n(tokStr, tokStr_len, "uU")', 0, 1),
        (r'\btokStr\.back\(\)', '(tokStr[tokStr_len - 1])', 0),       # std::string::back() of a non-empty spelling (number tokens are not empty)
        (r'\btokStr\.front\(\)', '(tokStr[0])', 0),
        (r'const biguint value\s*=\s*MathLib::toBigUNumber\(tokStr,\s*tok\)\s*;', 'const biguint value = ext_value;', 1, 1),
        (r'\btokStr\.size\(\)', 'tokStr_len', 1),
        (r'\bMathLib::(isDec|isIntHex|isOct|isBin)\(tokStr\)', r'\1(tokStr, tokStr_len)', 1),
        (r'\bmSettings\.platform\.type\s*!=\s*Platform::Type::Unspecified', 'platform_specified', 1, 1),
        (r'\bmSettings\.platform\.(isIntValue|isLongValue|isLongLongValue)\(', r'\1_u(platform, ', 5),
    ], ID + ".full"); n += k
    if re.search(r'MathLib|mSettings|tok->', extract.mask(tf)):
        raise extract.ExtractError("K36: part of the literal typing code was not lowered: %r" % tf.strip()[:300])
    full_c = ("static _Bool vstr_has_any_n(const char *s, size_t n, const char *set) { for (size_t i = 0; i < LMAX; i++) if (i < n) for (size_t q = 0; set[q] != 0; q++) if (s[i] == set[q]) return 1; return 0; }\n"
              "void literal_full(const char *tokStr, size_t tokStr_len, const biguint ext_value, const _Bool platform_specified, const struct Platform *platform, enum VType *type_out, enum Sign *sign_out)\n{\n%s\n    *type_out = type; *sign_out = sign;\n}\n" % extract.strip_comments(tf))
    kb.rules_fired = n
    text = "".join(out)
    extract.residue_scan(text, ID)
    kb.ctext = "#ifndef LMAX\n#define LMAX 6\n#endif\n" + _common.BASE + rec.replace(_common.BASE, "", 1) + text.replace(_common.BASE, "", 1) + full_c + HARNESS
    kb.job("type", "h_littype", unwind=5, defines=["WITH_BLOCK", "NOCONTRACT"], note="loop-free region (the 3-entry reference loop is unwound): complete in the value (2^64), suffix, base and the widths 16/32 (int), 32/64 (long), 64 (long long)")
    kb.job("full", "h_full", kind="bounded", unwind=9, defines=["NOCONTRACT", "LMAX=6"], timeout=600,
           note="integer literal spellings of length <= 6 (all four bases, u/l/ll suffixes), value arbitrary (oracle for toBigUNumber), widths as above")
    kb.job("cover", "h_cover", kind="cover", unwind=9, defines=["NOCONTRACT", "WITH_BLOCK"])
    kb.assumptions += ["region interface: (type and sign from the suffix scan, u-suffix flag, decimal flag, value, platform widths); the suffix scan and MathLib::toBigUNumber are outside",
                       "a decimal literal that does not fit long long has no type in C and is not constrained",
                       "Platform members *_bit > 0"]
    return kb
