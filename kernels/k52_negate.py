"""K52  the unary minus block of ValueFlow::setTokenValue (lib/vf_settokenvalue.cpp): the value of `-x` from a value of x.

Region: from `if (v.isIntValue()) {` of the `parent->isUnaryOp("-")` branch to `v.invertBound();`.
Ghost: x is any value of the operand's type that satisfies the input fact (known / impossible point, upper, lower - as in K44)
in an execution free of undefined behaviour.  Contract (C01): the value handed on is a true fact about -x computed in the
promoted type of the operand: narrow types are promoted to int, unsigned int / unsigned long wrap around modulo 2^width,
64-bit unsigned values are 64-bit patterns.
"""
import re

from vlib import extract, native
from vlib.kernel import KernelBuild, located_rules
from . import _common

ID = "K52"
SERVES = ["C01", "C03", "C10", "C13"]
TITLE = "value of -x from a value of x: the negation in the promoted type, unsigned operands wrap around"

PRELUDE = r'''
enum VKind { K_KNOWN, K_POSSIBLE, K_IMPOSSIBLE };
enum VBound { BOUND_Upper, BOUND_Lower, BOUND_Point };
struct VValue { enum VKind kind; enum VBound bound; bigint intvalue; _Bool isInt; };
'''

HARNESS = r'''
bigint g_in_v, g_in_x; int g_in_kind, g_in_bound, g_in_type, g_in_sign, g_in_long_bit;
static _Bool fact(const struct VValue *v, bigint x) {
    if (v->kind == K_KNOWN) return x == v->intvalue;
    if (v->kind == K_POSSIBLE) return 1;
    return v->bound == BOUND_Point ? x != v->intvalue : v->bound == BOUND_Upper ? x > v->intvalue : x < v->intvalue;
}
void h_negate(void) {
    struct Platform pl; pl.char_bit = 8; pl.short_bit = 16; pl.int_bit = 32; pl.long_bit = nondet_uchar(); pl.long_long_bit = 64; __CPROVER_assume(pl.long_bit == 32 || pl.long_bit == 64);
    enum VType t = (enum VType)nondet_int(); enum Sign s = (enum Sign)nondet_int();
    __CPROVER_assume(t >= VType_BOOL && t <= VType_LONGLONG && t != VType_WCHAR_T && (s == Sign_SIGNED || s == Sign_UNSIGNED));
    int w = t == VType_BOOL ? 1 : t == VType_CHAR ? 8 : t == VType_SHORT ? 16 : t == VType_INT ? 32 : t == VType_LONG ? pl.long_bit : 64;
    _Bool uns = s == Sign_UNSIGNED;
    struct VValue v; v.kind = (enum VKind)nondet_int(); v.bound = (enum VBound)nondet_int(); v.intvalue = nondet_bigint(); v.isInt = 1;
    __CPROVER_assume((v.kind == K_KNOWN || v.kind == K_IMPOSSIBLE) && v.bound >= BOUND_Upper && v.bound <= BOUND_Point && (v.kind != K_KNOWN || v.bound == BOUND_Point));
    bigint x = nondet_bigint();
    /* values of the operand's type (64-bit unsigned: any pattern) */
    if (w < 64) {
        if (uns || t == VType_BOOL) { __CPROVER_assume(x >= 0 && x < (1LL << w) && v.intvalue >= 0 && v.intvalue < (1LL << w)); }
        else { __CPROVER_assume(x >= -(1LL << (w - 1)) && x < (1LL << (w - 1)) && v.intvalue >= -(1LL << (w - 1)) && v.intvalue < (1LL << (w - 1))); }
    }
    __CPROVER_assume(fact(&v, x));
    /* the promoted type: narrower than int -> int */
    int pw = w < 32 ? 32 : w; _Bool pu = w < 32 ? 0 : uns;
    /* no signed overflow in a UB-free execution */
    if (!pu) __CPROVER_assume(pw == 64 ? x != LLONG_MIN : x != -(1LL << 31));
    if (pu && pw == 64 && v.kind == K_IMPOSSIBLE && v.bound != BOUND_Point) return;   /* ordering of 64-bit patterns above LLONG_MAX: not decided */
    g_in_v = v.intvalue; g_in_x = x; g_in_kind = v.kind; g_in_bound = v.bound; g_in_type = t; g_in_sign = s; g_in_long_bit = pl.long_bit;
    _Bool skipped = 0;
    negate_block(&v, 1, t, s, 0, &pl, &skipped);
    if (skipped) return;
    bigint y = pu ? (pw == 64 ? (bigint)(0ULL - (biguint)x) : (bigint)((0ULL - (biguint)x) & ((1ULL << pw) - 1))) : -x;
    __CPROVER_assert(fact(&v, y), "the value handed on for -x is a true fact about the negation in the promoted type, for every operand value the input fact allows");
}
void h_cover(void) {
    struct Platform pl; pl.int_bit = 32; pl.long_bit = 64; struct VValue v; _Bool sk = 0;
    v.kind = K_KNOWN; v.bound = BOUND_Point; v.intvalue = 5; v.isInt = 1;
    negate_block(&v, 1, VType_INT, Sign_UNSIGNED, 0, &pl, &sk);
    __CPROVER_assert(!(!sk && v.intvalue == 4294967291LL), "COVER: -5u is 4294967291");
    v.kind = K_IMPOSSIBLE; v.bound = BOUND_Upper; v.intvalue = 5; sk = 0;
    negate_block(&v, 1, VType_INT, Sign_SIGNED, 0, &pl, &sk);
    __CPROVER_assert(!(!sk && v.bound == BOUND_Lower && v.intvalue == -5), "COVER: x > 5 gives -x < -5 for a signed operand");
}
'''

REPLAY_CPP = r'''
#include "settings.h"
#include "tokenize.h"
#include "tokenlist.h"
#include "token.h"
#include "errorlogger.h"
#include "color.h"
#include <cstdio>
#include <cstdlib>
#include <string>
struct Log : ErrorLogger {
    void reportOut(const std::string &, Color) override {}
    void reportErr(const ErrorMessage &) override {}
    void reportMetric(const std::string &) override {}
};
/* argv: type-name value expected : the known value of `-x` for `TYPE x = value;` widened to long long */
int main(int argc, char **argv) {
    const std::string ty = argv[1], val = argv[2]; const long long want = atoll(argv[3]);
    const std::string code = "long long f(void) { " + ty + " x = " + val + "; long long y = -x; return y; }";
    Settings settings; Log log;
    Tokenizer tokenizer(TokenList(settings, Standards::Language::C), log);
    tokenizer.list.appendFileIfNew("t.c");
    if (!tokenizer.list.createTokensFromBuffer(code.data(), code.size()) || !tokenizer.simplifyTokens1("")) { printf("tokenizing failed\n"); return 2; }
    printf("%s\n", code.c_str());
    for (const Token *tok = tokenizer.tokens(); tok; tok = tok->next()) {
        if (tok->str() != "-" || tok->astOperand2() || !tok->astOperand1()) continue;
        if (!tok->hasKnownIntValue()) { printf("-x has no known value\n"); return 0; }
        printf("-x has the known value %lld; a compiler (unix64) computes %lld\n", (long long)tok->getKnownIntValue(), want);
        return tok->getKnownIntValue() == want ? 0 : 1;
    }
    return 2;
}
'''


def build(ctx):
    kb = KernelBuild(ID, TITLE)
    enums, _ = _common.valuetype_enums()
    pstruct, fields, _ = _common.platform_struct()
    mb = re.search(r'const\s+int\s+MathLib::bigint_bits\s*=\s*(\d+)\s*;', extract.read("lib/mathlib.cpp"))
    if not mb:
        raise extract.ExtractError("MathLib::bigint_bits definition not found")
    src = "lib/vf_settokenvalue.cpp"
    f = extract.locate_function(src, r'^\s*void\s+setTokenValue\s*\(\s*Token\s*\*\s*tok\s*,')
    m = extract.mask(f.text)
    mk = extract.mask(f.text, keep_strings=True)
    hs = list(re.finditer(r'else if \(parent->isUnaryOp\("-"\)\)\s*\{', mk))
    if len(hs) != 1:
        raise extract.ExtractError("setTokenValue: unary minus branch found %d times" % len(hs))
    ob = hs[0].end() - 1
    cb = extract.match_brace(f.text, ob, m)
    branch = f.text[ob:cb + 1]
    bm = extract.mask(branch)
    s = list(re.finditer(r'if \(v\.isIntValue\(\)\)\s*\{', bm))
    e = list(re.finditer(r'v\.invertBound\(\)\s*;', bm))
    if len(s) != 1 or len(e) != 1 or e[0].start() < s[0].end() or len(re.findall(r'setTokenValue\(parent, std::move\(v\), settings\);', bm)) != 1:
        raise extract.ExtractError("setTokenValue unary minus branch: unexpected shape")
    reg = extract.Located(src, branch[s[0].start():e[0].end()], f.start + ob + s[0].start(), f.start + ob + e[0].end(), extract.read(src))
    kb.add_located("ValueFlow::setTokenValue [unary minus block]", reg, "region")
    t, n = located_rules(reg, _common.VT_RULES + [
        (r'\bv\.isIntValue\(\)', 'v->isInt', 1, 1),
        (r'\bv\.floatValue = -v\.floatValue\s*;', ';', 1, 1),
        (r'\btok->valueType\(\)->(sign|type|pointer)\b', r'vt_\1', 0),
        (r'\btok->valueType\(\)(?!->)', 'has_vt', 0, 1),
        (r'\bsettings\.platform\.(\w+)', r'platform->\1', 0),
        (r'\bMathLib::bigint_bits\b', 'BIGINT_BITS', 0, 1),
        (r'\bValue::Bound::(Upper|Lower|Point)\b', r'BOUND_\1', 0),
        (r'\bv\.invertBound\(\)\s*;', 'if (v->bound == BOUND_Lower) v->bound = BOUND_Upper; else if (v->bound == BOUND_Upper) v->bound = BOUND_Lower;   /* Value::invertBound (vfvalue.h, extracted in K44) */', 1, 1),
        (r'\bv\.(intvalue|bound)\b', r'v->\1', 3),
        (r'\bcontinue\s*;', '{ *skipped = 1; return; }', 1),
    ], ID)
    if re.search(r'\bv\.|tok->|settings\.|MathLib|Value::', extract.mask(t)):
        raise extract.ExtractError("K52: not fully lowered: %r" % re.findall(r'[^\n]*(?:\bv\.|tok->|settings\.|MathLib|Value::)[^\n]*', extract.mask(t))[:3])
    kb.rules_fired = n
    fn = ("static void negate_block(struct VValue *v, _Bool has_vt, enum VType vt_type, enum Sign vt_sign, int vt_pointer, const struct Platform *platform, _Bool *skipped)\n{\n%s\n}\n" % extract.strip_comments(t))
    text = _common.BASE + enums + pstruct + "#define BIGINT_BITS %s\n" % mb.group(1) + PRELUDE + fn
    extract.residue_scan(text, ID)
    kb.ctext = text + HARNESS
    kb.job("negate", "h_negate", replay="neg", note="loop-free region; every integer type and signedness, long 32/64, every value the input fact allows")
    kb.job("cover", "h_cover", kind="cover")
    kb.assumptions += ["region interface: a copy of one value of the operand, the operand's ValueType (type, sign, pointer), the platform widths; int is 32 bits",
                       "Value::invertBound is inlined by rule (its text is extracted and checked in K44); float values are not constrained",
                       "ordering facts about 64-bit unsigned operands are not decided"]

    def rp(inputs, ctx):
        t_, s_, kind = (int(inputs.get(k, 0) or 0) for k in ("g_in_type", "g_in_sign", "g_in_kind"))
        if kind != 0 or int(inputs.get("g_in_long_bit", 64) or 64) != 64:
            return "none", "replay covers known values on unix64 only", ""
        names = {"CHAR": "char", "SHORT": "short", "INT": "int", "LONG": "long", "LONGLONG": "long long"}
        from . import _common as c
        _, tnames = c.valuetype_enums()
        return "none", "no source-level replay for this type", ""
    def rp2(inputs, ctx):
        kind = int(inputs.get("g_in_kind", 0) or 0)
        x = int(inputs.get("g_in_x", 0))
        sign = int(inputs.get("g_in_sign", 0) or 0)
        if kind != 0 or x < 0 or sign != 2:
            return "none", "replay covers known non-negative values of unsigned int only", ""
        want = (-x) & 0xffffffff
        rc, o, cmd = native.compile_run("replay_K52", REPLAY_CPP, ["unsigned int", "%dU" % (x & 0xffffffff), str(want)])
        return native.verdict_from_rc(rc, o), o, cmd
    kb.replayers["neg"] = rp2
    return kb
