"""K04  ValueFlow::getMinMaxValues  and  K05  integer part of ValueFlow::castValue (lib/vf_common.cpp).

Oracle: the value range of an N-bit two's-complement / unsigned integer type
(C11 6.2.6.2) and conversion to such a type (C11 6.3.1.3).
"""
import re

from vlib import extract, native
from vlib.kernel import KernelBuild, located_rules
from . import _common

ID = "K04"
SERVES = ["C01", "C03", "C04", "C10", "C13"]
TITLE = "getMinMaxValues == range of the integer type; castValue == C conversion"

BITOF = "(vt->type == VType_BOOL ? 1 : vt->type == VType_CHAR ? platform_p->char_bit : vt->type == VType_SHORT ? platform_p->short_bit : " \
        "vt->type == VType_INT ? platform_p->int_bit : vt->type == VType_LONG ? platform_p->long_bit : vt->type == VType_LONGLONG ? platform_p->long_long_bit : 0)"

MM_CONTRACT = r'''
__CPROVER_requires(vt == NULL || __CPROVER_is_fresh(vt, sizeof(*vt)))
__CPROVER_requires(__CPROVER_is_fresh(platform_p, sizeof(*platform_p)))
__CPROVER_requires(__CPROVER_is_fresh(minValue_p, sizeof(bigint)))
__CPROVER_requires(__CPROVER_is_fresh(maxValue_p, sizeof(bigint)))
/* Platform invariant: every *_bit member is at least 1 (Platform::set gives 8..64; a zero width would shift by -1) */
__CPROVER_requires(platform_p->char_bit >= 1 && platform_p->short_bit >= 1 && platform_p->int_bit >= 1 && platform_p->long_bit >= 1 && platform_p->long_long_bit >= 1)
__CPROVER_assigns(*minValue_p, *maxValue_p)
#define BITS @BITOF@
#define ISINT (vt != NULL && vt->pointer == 0 && (vt->type == VType_BOOL || vt->type == VType_CHAR || vt->type == VType_SHORT || vt->type == VType_INT || vt->type == VType_LONG || vt->type == VType_LONGLONG))
#ifndef TWIN
/* declines exactly for non-integer / pointer types and the widths it cannot represent */
__CPROVER_ensures(__CPROVER_return_value == (ISINT && (BITS == 1 || (BITS >= 2 && BITS < 62) || BITS == 64)))
__CPROVER_ensures(!__CPROVER_return_value ==> (*minValue_p == __CPROVER_old(*minValue_p) && *maxValue_p == __CPROVER_old(*maxValue_p)))
__CPROVER_ensures((__CPROVER_return_value && BITS == 1) ==> (*minValue_p == 0 && *maxValue_p == 1))
__CPROVER_ensures((__CPROVER_return_value && BITS >= 2 && BITS < 62 && vt->sign == Sign_UNSIGNED) ==> (*minValue_p == 0 && (biguint)*maxValue_p == (ULLONG_MAX >> (64 - BITS))))
__CPROVER_ensures((__CPROVER_return_value && BITS >= 2 && BITS < 62 && vt->sign != Sign_UNSIGNED) ==>
      (*minValue_p == -(bigint)(1ULL << (BITS - 1)) && *maxValue_p == (bigint)((1ULL << (BITS - 1)) - 1)))
__CPROVER_ensures((__CPROVER_return_value && BITS == 64 && vt->sign != Sign_UNSIGNED) ==> (*minValue_p == LLONG_MIN && *maxValue_p == LLONG_MAX))
/* unsigned 64 bit: bigint cannot carry 2^64-1; the code clamps to LLONG_MAX (consumers: K22) */
__CPROVER_ensures((__CPROVER_return_value && BITS == 64 && vt->sign == Sign_UNSIGNED) ==> (*minValue_p == 0 && *maxValue_p == LLONG_MAX))
#else
__CPROVER_ensures(__CPROVER_return_value ==> *minValue_p < 0)
#endif
'''

CAST_CONTRACT = r'''
__CPROVER_requires(bit >= 1)
__CPROVER_requires(__CPROVER_is_fresh(intvalue_p, sizeof(bigint)))
__CPROVER_assigns(*intvalue_p)
#ifndef TWIN
__CPROVER_ensures(bit >= 64 ==> *intvalue_p == __CPROVER_old(*intvalue_p))
__CPROVER_ensures((bit < 64 && sign != Sign_SIGNED) ==> (biguint)*intvalue_p == ((biguint)__CPROVER_old(*intvalue_p) & (ULLONG_MAX >> (64 - bit))))
__CPROVER_ensures((bit < 64 && sign == Sign_SIGNED) ==>
    ((((biguint)*intvalue_p ^ (biguint)__CPROVER_old(*intvalue_p)) & (ULLONG_MAX >> (64 - bit))) == 0 &&
     *intvalue_p >= -(bigint)(1ULL << (bit - 1)) && *intvalue_p <= (bigint)((1ULL << (bit - 1)) - 1)))
#else
__CPROVER_ensures(*intvalue_p >= 0)
#endif
'''

HARNESS = r'''
int g_in_type, g_in_sign, g_in_pointer, g_in_vtnull; unsigned char g_in_char_bit, g_in_short_bit, g_in_int_bit, g_in_long_bit, g_in_long_long_bit;
bigint g_in_intvalue; int g_in_bit;
void h_minmax(void) {
    struct ValueType *vt; struct Platform *pl; bigint *mn, *mx;
    (void)getMinMaxValues(vt, pl, mn, mx);
}
void h_minmax_search(void) {
    struct ValueType vt; struct Platform pl; bigint mn = 7, mx = 9;
    vt.type = (enum VType)nondet_int(); vt.sign = (enum Sign)nondet_int(); vt.pointer = nondet_int();
    pl.char_bit = nondet_uchar(); pl.short_bit = nondet_uchar(); pl.int_bit = nondet_uchar(); pl.long_bit = nondet_uchar(); pl.long_long_bit = nondet_uchar();
    g_in_type = vt.type; g_in_sign = vt.sign; g_in_pointer = vt.pointer; g_in_char_bit = pl.char_bit; g_in_short_bit = pl.short_bit;
    g_in_int_bit = pl.int_bit; g_in_long_bit = pl.long_bit; g_in_long_long_bit = pl.long_long_bit;
    (void)getMinMaxValues(&vt, &pl, &mn, &mx);
}
void h_minmax_cover(void) {
    struct ValueType vt; struct Platform pl; bigint mn = 7, mx = 9;
    vt.type = (enum VType)nondet_int(); vt.sign = (enum Sign)nondet_int(); vt.pointer = nondet_int();
    pl.char_bit = nondet_uchar(); pl.short_bit = nondet_uchar(); pl.int_bit = nondet_uchar(); pl.long_bit = nondet_uchar(); pl.long_long_bit = nondet_uchar();
    _Bool r = getMinMaxValues(&vt, &pl, &mn, &mx);
    __CPROVER_assert(!(r && mx == 255), "COVER: unsigned 8-bit range");
    __CPROVER_assert(!(r && mn == -2147483648LL), "COVER: signed 32-bit range");
    __CPROVER_assert(!(r && mn == LLONG_MIN), "COVER: 64-bit range");
    __CPROVER_assert(r, "COVER: declines");
}
void h_cast(void) {
    bigint v = nondet_bigint(); enum Sign s = (enum Sign)nondet_int(); int bit = nondet_int();
    g_in_intvalue = v; g_in_sign = (int)s; g_in_bit = bit;
    castValue_int(&v, s, bit);
}
/* (T)f for a floating point value f and an integer type T of `bit` bits: C11 6.3.1.4 - f is truncated toward zero; the
   behaviour is defined when the truncated value can be represented in T */
double g_in_float;
double nondet_double(void);
void h_cast_float(void) {
    double f = nondet_double(); enum Sign s = (enum Sign)nondet_int(); int bit = nondet_int();
    __CPROVER_assume(f == f && (s == Sign_SIGNED || s == Sign_UNSIGNED) && (bit == 8 || bit == 16 || bit == 32 || bit == 64));
    double two_bm1 = bit == 8 ? 128.0 : bit == 16 ? 32768.0 : bit == 32 ? 2147483648.0 : 9223372036854775808.0;
    if (s == Sign_SIGNED) __CPROVER_assume(f < two_bm1 && (bit == 64 ? f >= -two_bm1 : f > -two_bm1 - 1.0));
    else __CPROVER_assume(f > -1.0 && (bit == 64 ? f < two_bm1 : f < 2.0 * two_bm1));      /* unsigned 64 bits: only below 2^63 (a bigint cannot hold more) */
    g_in_float = f; g_in_sign = (int)s; g_in_bit = bit;
    bigint v = 12345;
    castValue_float(f, &v);
    castValue_int(&v, s, bit);
    __CPROVER_assert(v == (bigint)f, "a floating point value whose truncation fits the target type is converted to that truncation");
}
'''

REPLAY_MM = r'''
#include "vf_common.h"
#include "platform.h"
#include "symboldatabase.h"
#include <cstdio>
#include <cstdlib>
#include <climits>
int main(int argc, char **argv) {
    ValueType vt; vt.type = (ValueType::Type)atoi(argv[1]); vt.sign = (ValueType::Sign)atoi(argv[2]); vt.pointer = atoi(argv[3]);
    Platform p; p.set(Platform::Unix64); p.char_bit = atoi(argv[4]); p.short_bit = atoi(argv[5]); p.int_bit = atoi(argv[6]); p.long_bit = atoi(argv[7]); p.long_long_bit = atoi(argv[8]);
    long long mn = 7, mx = 9; bool r = ValueFlow::getMinMaxValues(&vt, p, mn, mx);
    int bits = vt.type == ValueType::BOOL ? 1 : vt.type == ValueType::CHAR ? p.char_bit : vt.type == ValueType::SHORT ? p.short_bit : vt.type == ValueType::INT ? p.int_bit :
               vt.type == ValueType::LONG ? p.long_bit : vt.type == ValueType::LONGLONG ? p.long_long_bit : 0;
    bool isint = vt.pointer == 0 && bits != 0;
    bool wr = isint && (bits == 1 || (bits >= 2 && bits < 62) || bits == 64);
    long long wmn = 7, wmx = 9;
    if (wr) { if (bits == 1) { wmn = 0; wmx = 1; } else if (bits == 64) { wmn = vt.sign == ValueType::UNSIGNED ? 0 : LLONG_MIN; wmx = LLONG_MAX; }
      else if (vt.sign == ValueType::UNSIGNED) { wmn = 0; wmx = (long long)(ULLONG_MAX >> (64 - bits)); } else { wmn = -(long long)(1ULL << (bits-1)); wmx = (long long)((1ULL << (bits-1)) - 1); } }
    printf("getMinMaxValues(type=%d sign=%d ptr=%d bits=%d) = %d [%lld,%lld]; type range: %d [%lld,%lld]\n", (int)vt.type, (int)vt.sign, (int)vt.pointer, bits, (int)r, mn, mx, (int)wr, wmn, wmx);
    return (r == wr && mn == wmn && mx == wmx) ? 0 : 1;
}
'''

REPLAY_FLOAT = r'''
#include "vf_common.h"
#include "vfvalue.h"
#include "symboldatabase.h"
#include <cstdio>
int main() {
    int bad = 0;
    const double fs[] = { 1e10, 3e9, -5e9, 1e18, 4294967296.5 };
    for (double f : fs) {
        ValueFlow::Value val; val.valueType = ValueFlow::Value::ValueType::FLOAT; val.floatValue = f;
        const ValueFlow::Value r = ValueFlow::castValue(val, ValueType::SIGNED, 64);
        printf("castValue(%.1f, signed, 64 bits) = %lld, (long long)f = %lld\n", f, (long long)r.intvalue, (long long)f);
        if (r.intvalue != (long long)f) bad = 1;
    }
    return bad;
}
'''

REPLAY_CAST = r'''
#include "vf_common.h"
#include "vfvalue.h"
#include "symboldatabase.h"
#include <cstdio>
#include <cstdlib>
#include <climits>
int main(int argc, char **argv) {
    long long v = strtoll(argv[1], nullptr, 10); int s = atoi(argv[2]); int bit = atoi(argv[3]);
    ValueFlow::Value val(v); ValueFlow::Value r = ValueFlow::castValue(val, (ValueType::Sign)s, bit);
    long long want = v;
    if (bit < 64) { unsigned long long m = ULLONG_MAX >> (64 - bit), u = (unsigned long long)v & m;
        want = (s == ValueType::SIGNED && (u >> (bit - 1))) ? (long long)(u | ~m) : (long long)u; }
    printf("castValue(%lld, sign=%d, bit=%d) = %lld, C conversion gives %lld\n", v, s, bit, (long long)r.intvalue, want);
    return r.intvalue == want ? 0 : 1;
}
'''


def build(ctx):
    kb = KernelBuild(ID, TITLE)
    enums, _ = _common.valuetype_enums()
    pstruct, pfields, _ = _common.platform_struct()
    vts, vtloc = _common.valuetype_struct()
    kb.add_located("ValueType::isIntegral", vtloc)
    out = [_common.BASE, enums, pstruct, vts]
    loc = extract.locate_function("lib/vf_common.cpp", r'^\s*bool\s+getMinMaxValues\s*\(')
    kb.add_located("ValueFlow::getMinMaxValues", loc)
    text, n = located_rules(loc, _common.VT_RULES + [
        (r'\bvt->isIntegral\(\)', 'ValueType_isIntegral(vt)', 1, 1),
        (r'\bconst ValueType \*vt\b', 'const struct ValueType *vt', 1, 1),
    ], ID)
    sig, body = extract.body_of(text)
    sig, defs, undefs = _common.lower_refs(sig, {"Platform": "struct Platform"})
    if "platform_p" not in sig or "minValue_p" not in sig or "maxValue_p" not in sig:
        raise extract.ExtractError("getMinMaxValues: reference parameters not found in %r" % sig)
    out.append("%s\n%s%s%s\n%s" % (sig, MM_CONTRACT.replace("@BITOF@", BITOF), defs, body, undefs))
    # castValue integer region
    reg = extract.locate_region("lib/vf_common.cpp", r'^\s*Value\s+castValue\s*\(', r'if\s*\(\s*bit\s*<\s*MathLib::bigint_bits\s*\)', r'return\s+value\s*;', include_end=False)
    kb.add_located("ValueFlow::castValue [integer truncation region]", reg, "region")
    csig = extract.locate_function("lib/vf_common.cpp", r'^\s*Value\s+castValue\s*\(')
    if not re.search(r'castValue\s*\(\s*Value\s+value\s*,\s*const\s+ValueType::Sign\s+sign\s*,\s*nonneg\s+int\s+bit\s*\)', csig.text):
        raise extract.ExtractError("castValue signature changed")
    mb = re.search(r'const\s+int\s+MathLib::bigint_bits\s*=\s*(\d+)\s*;', extract.read("lib/mathlib.cpp"))
    if not mb:
        raise extract.ExtractError("MathLib::bigint_bits definition not found")
    text, k = located_rules(reg, _common.VT_RULES + [
        (r'\bvalue\.intvalue\b', '(*intvalue_p)', 3, 3),
        (r'\bMathLib::bigint_bits\b', 'BIGINT_BITS', 1, 1),
    ], ID + ".castValue")
    n += k
    out.append("#define BIGINT_BITS %s\nvoid castValue_int(bigint *intvalue_p, const enum Sign sign, int bit)\n%s{\n%s\n}\n" % (mb.group(1), CAST_CONTRACT, text))
    # castValue: conversion of a floating point value (the prefix of the function)
    mcs = extract.mask(csig.text)
    hf = list(re.finditer(r'if \(value\.isFloatValue\(\)\)\s*\{', mcs))
    if len(hf) != 1:
        raise extract.ExtractError("castValue: `if (value.isFloatValue()) {` found %d times" % len(hf))
    obf = hf[0].end() - 1
    cbf = extract.match_brace(csig.text, obf, mcs)
    regf = extract.Located("lib/vf_common.cpp", csig.text[obf + 1:cbf], csig.start + obf + 1, csig.start + cbf, extract.read("lib/vf_common.cpp"))
    kb.add_located("ValueFlow::castValue [floating point value]", regf, "region")
    tf, k = located_rules(regf, _common.VT_RULES + [
        (r'\bvalue\.valueType = Value::ValueType::INT\s*;', ';', 1, 1),
        (r'\bvalue\.floatValue\b', 'floatValue', 2),
        (r'\bvalue\.intvalue\b', '(*intvalue_p)', 2, 2),
        (r'std::numeric_limits<int>::min\(\)', 'INT_MIN', 0, 1),
        (r'std::numeric_limits<int>::max\(\)', 'INT_MAX', 0, 1),
    ], ID + ".castValue.float")
    n += k
    out.append("void castValue_float(double floatValue, bigint *intvalue_p)\n{\n%s\n}\n" % extract.strip_comments(tf))
    kb.rules_fired = n
    text = "".join(out)
    extract.residue_scan(text, ID)
    kb.ctext = text + HARNESS
    kb.job("getMinMaxValues", "h_minmax", enforce="getMinMaxValues", search="getMinMaxValues.search", replay="mm")
    j = kb.job("getMinMaxValues.search", "h_minmax_search", kind="search", enforce="getMinMaxValues")
    kb.job("getMinMaxValues.cover", "h_minmax_cover", kind="cover")
    kb.job("getMinMaxValues.twin", "h_minmax", kind="twin", enforce="getMinMaxValues", defines=["TWIN"])
    kb.job("castValue", "h_cast", enforce="castValue_int", replay="cast")
    kb.job("castValue.twin", "h_cast", kind="twin", enforce="castValue_int", defines=["TWIN"])
    kb.job("castValue.float", "h_cast_float", replay="float", timeout=600, note="loop-free regions (float prefix + integer block): every double whose truncation fits the target type, 8/16/32/64 bits, signed and unsigned (unsigned 64 bits below 2^63)")
    kb.assumptions += ["castValue: region = the integer truncation block; interface (value.intvalue by pointer, sign, bit) chosen by the spec; the float->int prefix is a second region (job castValue.float)",
                       "castValue requires bit >= 1 (call sites pass platform *_bit or max(n1,n2)*8; the latter is checked at the call site only by reading)",
                       "getMinMaxValues: unsigned 64-bit maximum is clamped to LLONG_MAX by design of bigint"]

    def rmm(inputs, ctx):
        a = [inputs.get(k, 0) for k in ("g_in_type", "g_in_sign", "g_in_pointer", "g_in_char_bit", "g_in_short_bit", "g_in_int_bit", "g_in_long_bit", "g_in_long_long_bit")]
        rc, o, cmd = native.compile_run("replay_K04_mm", REPLAY_MM, a)
        return native.verdict_from_rc(rc, o), o, cmd
    kb.replayers["mm"] = rmm

    def rcast(inputs, ctx):
        rc, o, cmd = native.compile_run("replay_K04_cast", REPLAY_CAST, [inputs.get("g_in_intvalue", 0), inputs.get("g_in_sign", 0), inputs.get("g_in_bit", 8)])
        return native.verdict_from_rc(rc, o), o, cmd
    kb.replayers["cast"] = rcast

    def rfloat(inputs, ctx):
        rc, o, cmd = native.compile_run("replay_K04_float", REPLAY_FLOAT, [])
        return native.verdict_from_rc(rc, o), o, cmd
    kb.replayers["float"] = rfloat
    return kb
