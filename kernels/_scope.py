"""Per-property scope statements used by the evidence writer and the MANIFEST generator."""

FIX_COMMITS = []   # hook commits in /repo (none: this technique needs no hooks)

SCOPE = {
    "C01": "Proved: the arithmetic leaves that produce the value of a fact (truncateIntValue, castValue integer part, getMinMaxValues, calculate<bigint,bigint> per operator, Platform ranges) equal the C abstract machine for all 2^64 operands. NOT verified: forward/reverse analysis, program memory, infer(), condition handling, aliasing, loops - everything that decides where a value flows; a change there is not seen.",
    "C03": "Proved: the verdict tables of CheckCondition::comparison and checkCompareValueOutOfTypeRange, and the type ranges they rely on. NOT verified: alwaysTrueFalse (value-flow), multiCondition2, isSameExpression, isOppositeCond, duplicate expressions, knownArgument.",
    "C04": "Proved: the threshold decisions of checkTooBigBitwiseShift and checkIntegerOverflow against C11 6.5.7 / the platform ranges. NOT verified: whether the value is real (C01), every other checker.",
    "C09": "Proved: Platform::set data models, range helpers, and the usual-arithmetic-conversion block of SymbolDatabase::setValueType. NOT verified: setValueType for other constructs, parseDecl.",
    "C10": "Proved for every string length: recognisers are memory-safe, terminate and carry prefix lemmas; arithmetic kernels wrap as C. Bounded: recognisers bracketed by reference acceptors for short strings; binary literal value. NOT verified: std::stoull digit conversion, floating literals, sizeof of aggregates, platform XML.",
    "C13": "Proved: absence of UB (bounds, pointers, signed overflow, shifts, division) and termination (decreases clauses) in the kernel functions only, for all inputs under the weakest precondition their call sites establish: about 1% of lib/. NOT verified: everything else, the parsers, exception containment, time bounds.",
    "C14": "Proved: toxml output bytes are XML-safe and each unit is the required entity (any length). Bounded: AST edge consistency on small symbolic heaps. NOT verified: Tokenizer::dump, SymbolDatabase::printXml, cppcheckdata.py.",
    "C18": "Proved: whether the per-token bytes appended by Preprocessor::calculateHash determine (str,line,col). NOT verified: file-to-cache mapping, header dependencies, replay of cached findings, std::hash collisions.",
    "C19": "Proved: which option families reach the toolinfo string of CppCheck::calculateHash. NOT verified: options outside the list, everything downstream of the key.",
    "C23": "Proved: isValidGlobPattern safety, Suppression::isSuppressed decision table with callees by contract. Bounded: matchglob vs textbook glob semantics for short strings. NOT verified: comment parsing, XML/text suppression files, the reporting gate, PathMatch::match.",
    "C24": "Proved: a suppression with matched==true is never returned by getUnmatched{Local,Global,Inline}Suppressions (per-suppression predicate regions). NOT verified: the 'precisely those' direction across files and executors.",
    "C26": "Proved: byte-level escaping of fixInvalidChars and toxml for any input length. NOT verified: tinyxml2's own escaping, template substitution, SARIF, de-duplication.",
    "C27": "Proved: SimpleEnableGroup bit-set operations (whole-set postconditions), Settings::isEnabled(value) gate and its monotonicity, the 'all' branch. NOT verified: the ~300 per-check guards (call sites), addon severity filter.",
    "C30": "Proved for any length: isCompliantValidationExpression is memory-safe, terminates, first-character lemma. Bounded: alphabet and grammar equality for short strings. NOT verified: isIntArgValid/isFloatArgValid tokenizer use, Library::load.",
    "C33": "Proved: interpreter leaves (chrInFirstWord, firstWordEquals, multiComparePercent). Bounded: per pattern word, compiled matcher == Token::Match on symbolic tokens. NOT verified: word sequencing of whole patterns, the Python call-site rewriting.",
}

# filled in as kernels are built: property -> manifest texts
CLAIMED = {}

NOT_APPLICABLE = {
    "C02": "container-size facts come from valueFlowContainerSize/ContainerExpressionAnalyzer over the Token/Scope/Library graph; no leaf function isolates a decidable step and CBMC cannot ingest the STL-based code",
    "C05": "2-safety relation between two complete analyses of different texts over the whole tokenizer and symbol database; not a per-function contract",
    "C06": "same shape as C05; the simplifiers are ~15 kLOC of token-list surgery outside the extractor's subset",
    "C07": "createAst is ~40 mutually recursive functions over the heap token list; the spec would be the grammar itself and CBMC would only unroll tiny inputs",
    "C08": "the oracle is a C++ front end's name lookup; setVarId is scope-stack heuristics over std::map<std::string,...>",
    "C11": "simplecpp's macro engine (4 kLOC std::string/std::map, recursion through Macro::expand); the oracle is a whole preprocessor; no leaf carries the property",
    "C12": "getConfigs explores #if structure with sets of strings and recursion; coverage of guarded regions is a property of the exploration as a whole",
    "C15": "equality of finding multisets across executors is a whole-run relation; the message codec is iostream code outside the extractor's subset",
    "C16": "concurrency: CBMC contract instrumentation is sequential and std::thread/std::mutex cannot be ingested; lock discipline is not a function contract",
    "C17": "history property of one long-lived CppCheck object across check() calls",
    "C20": "quantifies over kill points of a process writing files; no call-level statement",
    "C21": "fork/select/waitpid event loop with std::map/list state; fault sequences of other processes are outside function contracts",
    "C22": "round trip through tinyxml2 and per-check FileInfo class hierarchies",
    "C25": "the equivalence spans the logger, three executors and whole-program analysis; the only local statement does not decide it",
    "C28": "coverage relation between two sets of string literals spread over all checks; not a contract",
    "C29": "independence from pointer values / hash seeds is non-interference over the allocator; CBMC's memory model has no address nondeterminism to expose it",
    "C31": "FileLister is directory traversal; PathMatch/PathIterator needs a class-level lowering (operators, copy, recursion) that could not be made rule-mechanical",
    "C32": "collectArgs/parseArgs build std::vector<std::string> incrementally; lowering needs an event abstraction closer to a model than to the code",
    "C34": "picojson parsing and process execution; no leaf decides it",
    "C35": "string-pattern parsing of clang's text dump into the full program model",
    "C36": "Python script; the sandbox has no deductive verifier for Python",
}

_PENDING = "kernels for this property are planned in DESIGN.md section 4 but not built yet; nothing is claimed until they run"
for _p in ("C01", "C03", "C04", "C09", "C10", "C13", "C14", "C18", "C19", "C23", "C24", "C26", "C27", "C30", "C33"):
    NOT_APPLICABLE.setdefault(_p, _PENDING)


def claim(pid, kernels, level_text, note, category="proof"):
    CLAIMED[pid] = {"kernels": kernels, "level_text": level_text, "note": note, "category": category}
    NOT_APPLICABLE.pop(pid, None)


_NOTE = ("Trusted: CBMC 6.11 and its SAT/SMT back ends; the cxx2c rewrite rules (surface syntax only, must-fire, residue-scanned); prelude struct models; region interfaces; "
         "CBMC's libc models; external callees left arbitrary. Everything outside the listed kernels is unverified (evidence.coverage.explanation).")

claim("C01", "K01 K02 K04 K06 K37 K39", "Unbounded proof (all 2^64 operands, loop-free contracts) that the arithmetic leaves of value-flow equal the C abstract machine; proof by induction over the expression tree (ghost execution values, recursive calls replaced by the contract) that getExpressionRange bounds every execution and that valueFlowRightShift's known 0 follows from it. Says nothing about where values flow (forward/reverse analysis, program memory and the other value-flow passes are not verified).", _NOTE)
claim("C09", "K02", "Unbounded proof that Platform::set establishes the data model the property names for each built-in platform and that the range helpers equal the two's-complement ranges.", _NOTE)
claim("C10", "K01 K02 K04 K06 K07 K09 K36 K37", "Unbounded proof of safety/termination/prefix lemmas of the literal recognisers (loop contracts, any length), of arithmetic wrap-around, of the integer-promoted complement and of the platform block of integer-literal typing; bounded checks (labelled, not counted as proof): language equality of the recognisers, literal typing from the spelling, and simplecpp::characterLiteralToLL on every spelling of up to 6 / 7 bytes against the reference in specs/charlit_ref.h. Floating literals, sizeof and platform files are not verified.", _NOTE)
claim("C13", "all kernels", "Unbounded proof of absence of undefined behaviour (CBMC bounds, pointer, signed-overflow, division, shift checks on every obligation) and of termination where loop contracts carry a decreases clause, for the functions and regions under contract only (about 1% of lib/ plus the #if constant folding of simplecpp); bounded jobs are labelled and not counted.", _NOTE)
claim("C27", "K17", "Unbounded proof: whole-set postconditions of the enable-group operations, the value gate equals the property's gate and is monotone in the enabled sets, --enable=<name> adds exactly the named groups and removes none, applyEnabled is monotone when enabling.", _NOTE)
claim("C18", "K19", "Bounded check (token spelling <= 3 bytes; complete in line and column) that the bytes hashed per token determine spelling, line and column and are prefix-free; labelled bounded, nothing counted as proof.", _NOTE, category="model_checking")
claim("C19", "K20 K19", "Bounded check (family under test: strings <= 2 bytes, lists <= 2 items, integers complete; context fixed to two concrete valuations) that every option family the property lists reaches the bytes hashed for the build-dir cache: two settings that differ in one family give different keys. Labelled bounded; nothing counted as proof.", _NOTE, category="model_checking")
claim("C26", "K11", "Unbounded proof (loop contracts, any input length) that every output byte of toxml is XML-safe and every output byte of fixInvalidChars is printable, plus loop-free proofs that the unit appended per input byte is exactly the XML entity / octal escape the rules require.", _NOTE)
claim("C23", "K13 K15", "Unbounded proof of isValidGlobPattern safety/termination and loop-free proof of isSameParameters; bounded checks (labelled) that matchglob equals glob semantics for short strings and that Suppression::isSuppressed equals the documented decision table with matchglob / PathMatch::match / macro lookup as arbitrary oracles.", _NOTE)
claim("C24", "K15", "Proof on the per-suppression predicates of getUnmatched{Local,Global,Inline}Suppressions (loop bodies as regions): a matched suppression is never reported, inline/non-inline split, local/global disjoint; with isMatch's contract: once isMatch returned true the suppression is reported by none of them. Only this half of the property is claimed.", _NOTE)
claim("C30", "K18 K33", "Unbounded proof (loop contract) that the <valid>-expression gate isCompliantValidationExpression is memory-safe on every NUL-terminated string, terminates and rejects empty strings and a leading '.'; its language is bracketed by the documented grammar for short strings (bounded, labelled); bounded check (lists of up to 3 items, all 64-bit bounds and values) that the token loop of Library::isIntArgValid accepts a constant exactly when it lies in a declared item. Library loading, isFloatArgValid and the checkers that report the finding are not verified.", _NOTE)
claim("C33", "K24 K26", "Unbounded proof of the interpreter leaves chrInFirstWord / firstWordEquals (loop contracts) and of the tokType(t) setter (type and memoised name/literal flags); bounded check per pattern word that the matcher generated by the real tools/matchcompiler.py equals the extracted Token::Match on symbolic token lists of 0..2 tokens (labelled bounded; seeded word sample in the quick tier, a five times larger sample in the thorough tier, probes for long literal words); check that every spelling of the match compiler's token-type table gets one of the listed types from Token::update_property_info for every variable id, link, language and keyword set. Multi-word sequencing beyond `W @@` and the passes that retype tokens later are not verified.", _NOTE)
claim("C03", "K21 K04 K02 K01", "Proof (loop-free regions, complete in all operands) that CheckCondition::comparison (operand selection with the operator mirrored when the constant is on the left, and the verdict block) and the verdict block of checkCompareValueOutOfTypeRange only report a value the comparison has for every value of the non-constant operand under C's conversion rules; one recorded finding (signed variable against unsigned constant) is split off and reported as KNOWN-FINDING.", _NOTE)
claim("C04", "K31 K40", "Bounded check (format bodies of up to 4 / 5 characters over a printf alphabet, up to 3 arguments) that getMinFormatStringOutputLength - whose result decides bufferAccessOutOfBounds for sprintf-like calls - never exceeds the number of characters the call can write (reference: specs/printf_ref.h). Proof (loop-free regions) that the threshold decisions of checkTooBigBitwiseShift and checkIntegerOverflow report only where C leaves the operation undefined / the value outside the result type, with the value-flow lookups as arbitrary oracles; the shiftTooManyBitsSigned report is a recorded finding (KNOWN-FINDING). Whether the value is real is outside the claim.", _NOTE)
claim("C09", "K02 K23", "Unbounded proof that Platform::set establishes the data model the property names for each built-in platform, that the range helpers equal the two's-complement ranges, and that the usual-arithmetic-conversion block of setValueType yields the C11 6.3.1.1/6.3.1.8 result type and signedness for the platform's sizes.", _NOTE)
claim("C14", "K11 K10", "Unbounded proof that every string the dump writes through ErrorLogger::toxml is XML-safe and made of complete entities; bounded check (every forest over 3 tokens quick / 4 thorough) that the AST edge setters keep parent and operand edges in agreement, and a loop-free proof that createMutualLinks makes bracket links symmetric. The dump writers and cppcheckdata.py are not verified.", _NOTE)
