"""K34  ValueFlow::findValue (lib/valueflow.cpp) - the value selection behind Token::getValueLE / getValueGE and
several checkers.  Which value is picked decides which finding is written, so property C27 (enabling further
severities or --inconclusive never removes or alters a finding that was already reported) needs:

    for settings s <= s' (s' enables at least what s enables):
        findValue(values, s, pred) == v != null   ==>   findValue(values, s', pred) == v

i.e. the selection must not depend on the settings; the settings may only veto the selected value.
The std::list is lowered to an array of at most NV values (bounded), the predicate to a per-value flag.
"""
import re

from vlib import extract, native
from vlib.kernel import KernelBuild, located_rules
from . import _common

ID = "K34"
SERVES = ["C27", "C13"]
TITLE = "ValueFlow::findValue: the selected value does not depend on the enabled severities"

PRE = r'''
#define NV 4
struct EG { uint32_t mFlags; };
struct Settings { struct EG severity; struct EG certainty; };
struct Value { const void *condition; _Bool defaultArg; enum ValueKind valueKind; _Bool pred; bigint intvalue; };
static inline _Bool EG_isEnabled(const struct EG *g, int flag) { return (g->mFlags & (1U << (uint32_t)flag)) != 0; }
static inline _Bool Value_isInconclusive(const struct Value *v) { return v->valueKind == ValueKind_Inconclusive; }
'''

HARNESS = r'''
int g_in_n; int g_in_kind[NV], g_in_cond[NV], g_in_pred[NV]; unsigned g_in_sev1, g_in_cert1, g_in_sev2, g_in_cert2;
void h_monotone(void) {
    struct Value vals[NV]; size_t n = nondet_size_t(); __CPROVER_assume(n <= NV); static int anchor;
    for (int i = 0; i < NV; i++) { vals[i].condition = nondet_bool() ? (const void *)&anchor : NULL; vals[i].defaultArg = nondet_bool(); vals[i].valueKind = (enum ValueKind)nondet_int();
        __CPROVER_assume(vals[i].valueKind >= ValueKind_Possible && vals[i].valueKind <= ValueKind_Impossible); vals[i].pred = nondet_bool(); vals[i].intvalue = nondet_bigint();
        g_in_kind[i] = vals[i].valueKind; g_in_cond[i] = vals[i].condition != NULL; g_in_pred[i] = vals[i].pred; }
    g_in_n = (int)n;
    struct Settings s1, s2; s1.severity.mFlags = nondet_unsigned(); s1.certainty.mFlags = nondet_unsigned(); s2.severity.mFlags = nondet_unsigned(); s2.certainty.mFlags = nondet_unsigned();
    __CPROVER_assume((s1.severity.mFlags & ~s2.severity.mFlags) == 0 && (s1.certainty.mFlags & ~s2.certainty.mFlags) == 0);
    g_in_sev1 = s1.severity.mFlags; g_in_cert1 = s1.certainty.mFlags; g_in_sev2 = s2.severity.mFlags; g_in_cert2 = s2.certainty.mFlags;
    const struct Value *a = findValue(vals, n, &s1), *b = findValue(vals, n, &s2);
    __CPROVER_assert(a == NULL || a == b, "enabling further severities / --inconclusive keeps the value that was already selected");
    __CPROVER_assert(a == NULL || a->pred, "the selected value satisfies the predicate");
    __CPROVER_assert(a == NULL || ((!Value_isInconclusive(a) || EG_isEnabled(&s1.certainty, Certainty_inconclusive)) && (a->condition == NULL || EG_isEnabled(&s1.severity, Severity_warning))),
                     "an inconclusive value needs --inconclusive and a conditional value needs the warning severity");
}
void h_cover(void) {
    struct Value vals[NV]; static int anchor;
    for (int i = 0; i < NV; i++) { vals[i].condition = nondet_bool() ? (const void *)&anchor : NULL; vals[i].defaultArg = 0; vals[i].valueKind = (enum ValueKind)nondet_int();
        __CPROVER_assume(vals[i].valueKind >= ValueKind_Possible && vals[i].valueKind <= ValueKind_Impossible); vals[i].pred = nondet_bool(); vals[i].intvalue = 0; }
    struct Settings s; s.severity.mFlags = nondet_unsigned(); s.certainty.mFlags = nondet_unsigned();
    const struct Value *a = findValue(vals, 3, &s);
    __CPROVER_assert(!(a == &vals[2]), "COVER: the third value can be selected");
    __CPROVER_assert(!(a == NULL && vals[0].pred), "COVER: a candidate can be vetoed by the settings");
}
'''

REPLAY_CPP = r'''
#include "valueflow.h"
#include "vfvalue.h"
#include "settings.h"
#include "token.h"
#include <cstdio>
#include <cstdlib>
#include <list>
int main(int argc, char **argv) {
    int n = atoi(argv[1]); std::list<ValueFlow::Value> vals; std::vector<int> pred;
    for (int i = 0; i < n; i++) { ValueFlow::Value v(i); v.valueKind = (ValueFlow::Value::ValueKind)atoi(argv[2 + 3 * i]); v.condition = atoi(argv[3 + 3 * i]) ? reinterpret_cast<const Token *>(&vals) : nullptr; pred.push_back(atoi(argv[4 + 3 * i])); vals.push_back(v); }
    unsigned f[4]; for (int k = 0; k < 4; k++) f[k] = strtoul(argv[2 + 3 * n + k], 0, 10);
    Settings s1, s2; s1.severity.clear(); s1.certainty.clear(); s2.severity.clear(); s2.certainty.clear();
    for (int b = 0; b < 32; b++) { if ((f[0] >> b) & 1) s1.severity.enable((Severity)b); if ((f[1] >> b) & 1) s1.certainty.enable((Certainty)b); if ((f[2] >> b) & 1) s2.severity.enable((Severity)b); if ((f[3] >> b) & 1) s2.certainty.enable((Certainty)b); }
    auto p = [&](const ValueFlow::Value &v) { return pred[(size_t)v.intvalue] != 0; };
    const ValueFlow::Value *a = ValueFlow::findValue(vals, s1, p), *b = ValueFlow::findValue(vals, s2, p);
    printf("findValue with the smaller settings selects value #%lld, with the larger settings #%lld\n", a ? (long long)a->intvalue : -1LL, b ? (long long)b->intvalue : -1LL);
    return (a && a != b) ? 1 : 0;
}
'''


def build(ctx):
    kb = KernelBuild(ID, TITLE)
    sev, _ = extract.enum_list("lib/errortypes.h", r'enum\s+class\s+Severity\s*:\s*std::uint8_t\s*\{', "Severity_")
    cer, _ = extract.enum_list("lib/errortypes.h", r'enum\s+class\s+Certainty\s*:\s*std::uint8_t\s*\{', "Certainty_")
    vk, _ = extract.enum_list("lib/vfvalue.h", r'enum\s+class\s+ValueKind\s*:\s*std::uint8_t\s*\{', "ValueKind_")
    loc = extract.locate_function("lib/valueflow.cpp", r'^const ValueFlow::Value\s*\*\s*ValueFlow::findValue\s*\(')
    kb.add_located("ValueFlow::findValue", loc)
    t, n = located_rules(loc, [
        (r'^const ValueFlow::Value\s*\*\s*ValueFlow::findValue\s*\(\s*const std::list<ValueFlow::Value>\s*&\s*values\s*,\s*const Settings\s*&\s*settings\s*,\s*const std::function<bool\(const ValueFlow::Value\s*&\)>\s*&\s*pred\s*\)',
         'const struct Value *findValue(const struct Value *values, size_t values_n, const struct Settings *settings)', 1, 1),
        (r'const ValueFlow::Value\s*\*\s*ret\s*=\s*NULL\s*;', 'const struct Value *ret = NULL;', 1, 1),
        (r'for\s*\(\s*const ValueFlow::Value\s*&\s*v\s*:\s*values\s*\)\s*\{', 'for (size_t v_i = 0; v_i < NV; v_i++) { if (!(v_i < values_n)) break; const struct Value *const v_p = &values[v_i];', 1, 1),
        (r'\bpred\(v\)', 'v_p->pred', 1),
        (r'\bret\s*=\s*&v\s*;', 'ret = v_p;', 1, 1),
        (r'\bv\.isInconclusive\(\)', 'Value_isInconclusive(v_p)', 0),
        (r'\bv\.condition\b', 'v_p->condition', 0),
        (r'\bret->isInconclusive\(\)', 'Value_isInconclusive(ret)', 2),
        (r'\bsettings\.(certainty|severity)\.isEnabled\((Certainty|Severity)::(\w+)\)', r'EG_isEnabled(&settings->\1, \2_\3)', 2),
    ], ID)
    kb.rules_fired = n
    text = _common.BASE + "enum Severity %s;\nenum Certainty %s;\nenum ValueKind %s;\n" % (sev, cer, vk) + PRE + t + "\n"
    extract.residue_scan(text, ID)
    kb.ctext = text + HARNESS
    kb.job("monotone", "h_monotone", kind="bounded", unwind=6, replay="fv", note="value lists of up to 4 values (kind, condition, predicate symbolic); settings as two symbolic flag words with s1 subset of s2")
    kb.job("cover", "h_cover", kind="cover", unwind=6)
    kb.assumptions += ["std::list<Value> lowered to an array of at most 4 values; the std::function predicate to a per-value flag (a pure predicate of the value)",
                       "only the members findValue reads are modelled (condition, valueKind)"]

    def rp(inputs, ctx):
        n = int(inputs.get("g_in_n", 0) or 0)
        kd = inputs.get("g_in_kind") or [0] * 4
        cd = inputs.get("g_in_cond") or [0] * 4
        pr = inputs.get("g_in_pred") or [0] * 4
        a = [n]
        for i in range(n):
            a += [kd[i] if i < len(kd) else 0, cd[i] if i < len(cd) else 0, pr[i] if i < len(pr) else 0]
        a += [inputs.get(k, 0) for k in ("g_in_sev1", "g_in_cert1", "g_in_sev2", "g_in_cert2")]
        rc, o, cmd = native.compile_run("replay_K34", REPLAY_CPP, a)
        return native.verdict_from_rc(rc, o), o, cmd
    kb.replayers["fv"] = rp
    return kb
