"""K07  numeric-literal recognisers of lib/mathlib.cpp.

Unbounded (loop contracts, any string length): memory safety, termination, frame,
and prefix lemmas carried by the loop invariants.
Bounded (all byte strings up to length L, loops fully unwound): each recogniser is
bracketed by the reference acceptors of specs/literal_ref.h:
    strict_f(s) ==> f(s) ==> loose_f(s).
"""
import re

from vlib import extract, native
from vlib.kernel import KernelBuild, located_rules, HERE
from . import _common

ID = "K07"
SERVES = ["C10", "C13"]
TITLE = "MathLib literal recognisers: safety for every length, language bracketed for short strings"

OFF = "((size_t)__CPROVER_POINTER_OFFSET(it))"
P = "@P@"
SGN = "(str[0] == '+' || str[0] == '-')"


def expand_p(text):
    """lemmas are written with the sign offset @P@; reads at symbolic offsets of a large fresh object
    blow up the SAT encoding, so each lemma is expanded into the two constant-index cases."""
    def ex(line):
        if "@P@" not in line:
            return line
        mo = re.match(r'^(__CPROVER_\w+\()(.*)(\)\n?)$', line, re.S)
        if not mo:
            raise ValueError(line)
        a, body, z = mo.groups()
        def inst(k):
            t = body.replace("@P@ + 1", str(k + 1)).replace("@P@ + 2", str(k + 2)).replace("@P@ + 3", str(k + 3)).replace("@P@ + 4", str(k + 4)).replace("@P@", str(k))
            return t
        return "%s(%s ? (%s) : (%s))%s" % (a, SGN, inst(1), inst(0), z)
    return "".join(ex(l) for l in text.splitlines(True))

STR_REQ = "__CPROVER_requires(str_len <= 1000000 && __CPROVER_is_fresh(str, str_len + 1))\n__CPROVER_assigns()\n"


def inv_common(states, enum):
    return ("__CPROVER_assigns(it, state)\n"
            "__CPROVER_loop_invariant(__CPROVER_same_object(it, str) && %s <= str_len)\n" % OFF +
            "__CPROVER_loop_invariant(%s)\n" % " || ".join("state == %s_%s" % (enum, s) for s in states))


DEC = "__CPROVER_decreases(str_len - %s)\n" % OFF

# per recogniser: (states, enum name, function contract lemma, loop invariant lemmas)
FUNCS = {
    "isOct": dict(enum="Status", states=["START", "OCTAL_PREFIX", "DIGITS"],
                  ens="__CPROVER_ensures(__CPROVER_return_value ==> (str_len >= %s + 2 && str[%s] == '0' && str[%s + 1] >= '0' && str[%s + 1] <= '7'))\n" % (P, P, P, P),
                  inv=["state == Status_START ==> %s == %s" % (OFF, P),
                       "state == Status_OCTAL_PREFIX ==> (%s == %s + 1 && str[%s] == '0')" % (OFF, P, P),
                       "state == Status_DIGITS ==> (%s >= %s + 2 && str[%s] == '0' && str[%s + 1] >= '0' && str[%s + 1] <= '7')" % (OFF, P, P, P, P)]),
    "isIntHex": dict(enum="Status", states=["START", "HEX_0", "HEX_X", "DIGIT"],
                     ens="__CPROVER_ensures(__CPROVER_return_value ==> (str_len >= %s + 3 && str[%s] == '0' && (str[%s + 1] == 'x' || str[%s + 1] == 'X') && XD(str[%s + 2])))\n" % (P, P, P, P, P),
                     inv=["state == Status_START ==> %s == %s" % (OFF, P),
                          "state == Status_HEX_0 ==> (%s == %s + 1 && str[%s] == '0')" % (OFF, P, P),
                          "state == Status_HEX_X ==> (%s == %s + 2 && str[%s] == '0' && (str[%s + 1] == 'x' || str[%s + 1] == 'X'))" % (OFF, P, P, P, P),
                          "state == Status_DIGIT ==> (%s >= %s + 3 && str[%s] == '0' && (str[%s + 1] == 'x' || str[%s + 1] == 'X') && XD(str[%s + 2]))" % (OFF, P, P, P, P, P)]),
    "isBin": dict(enum="Status", states=["START", "GNU_BIN_PREFIX_0", "GNU_BIN_PREFIX_B", "DIGIT"],
                  ens="__CPROVER_ensures(__CPROVER_return_value ==> (str_len >= %s + 3 && str[%s] == '0' && (str[%s + 1] == 'b' || str[%s + 1] == 'B') && (str[%s + 2] == '0' || str[%s + 2] == '1')))\n" % (P, P, P, P, P, P),
                  inv=["state == Status_START ==> %s == %s" % (OFF, P),
                       "state == Status_GNU_BIN_PREFIX_0 ==> (%s == %s + 1 && str[%s] == '0')" % (OFF, P, P),
                       "state == Status_GNU_BIN_PREFIX_B ==> (%s == %s + 2 && str[%s] == '0' && (str[%s + 1] == 'b' || str[%s + 1] == 'B'))" % (OFF, P, P, P, P),
                       "state == Status_DIGIT ==> (%s >= %s + 3 && str[%s] == '0' && (str[%s + 1] == 'b' || str[%s + 1] == 'B') && (str[%s + 2] == '0' || str[%s + 2] == '1'))" % (OFF, P, P, P, P, P, P)]),
    "isDec": dict(enum="Status", states=["START", "DIGIT"],
                  ens="__CPROVER_ensures(__CPROVER_return_value ==> (str_len >= %s + 1 && DG(str[%s])))\n" % (P, P),
                  inv=["state == Status_START ==> %s == %s" % (OFF, P),
                       "state == Status_DIGIT ==> (%s >= %s + 1 && DG(str[%s]))" % (OFF, P, P)]),
    "isFloatHex": dict(enum="Status", states=["START", "HEX_0", "HEX_X", "WHOLE_NUMBER_DIGIT", "POINT", "FRACTION", "EXPONENT_P", "EXPONENT_SIGN", "EXPONENT_DIGITS", "EXPONENT_SUFFIX"],
                       ens="__CPROVER_ensures(__CPROVER_return_value ==> (str_len >= %s + 4 && str[%s] == '0' && (str[%s + 1] == 'x' || str[%s + 1] == 'X')))\n" % (P, P, P, P),
                       inv=["state == Status_START ==> %s == %s" % (OFF, P),
                            "state == Status_HEX_0 ==> (%s == %s + 1 && str[%s] == '0')" % (OFF, P, P),
                            "(state != Status_START && state != Status_HEX_0) ==> (%s >= %s + 2 && str[%s] == '0' && (str[%s + 1] == 'x' || str[%s + 1] == 'X'))" % (OFF, P, P, P, P),
                            "(state == Status_EXPONENT_DIGITS || state == Status_EXPONENT_SUFFIX) ==> %s >= %s + 4" % (OFF, P),
                            "(state == Status_EXPONENT_P || state == Status_EXPONENT_SIGN) ==> %s >= %s + 3" % (OFF, P)]),
    "isDecimalFloat": dict(enum="State", states=["START", "BASE_DIGITS1", "LEADING_DECIMAL", "TRAILING_DECIMAL", "BASE_DIGITS2", "E", "MANTISSA_PLUSMINUS", "MANTISSA_DIGITS", "SUFFIX_F", "SUFFIX_L", "SUFFIX_LITERAL_LEADER", "SUFFIX_LITERAL"],
                           ens="__CPROVER_ensures(__CPROVER_return_value ==> (str_len >= %s + 2 && (str[%s] == '.' || DG(str[%s]))))\n" % (P, P, P),
                           inv=["state == State_START ==> %s == %s" % (OFF, P),
                                "state != State_START ==> (%s >= %s + 1 && (str[%s] == '.' || DG(str[%s])))" % (OFF, P, P, P),
                                "(state != State_START && state != State_BASE_DIGITS1 && state != State_LEADING_DECIMAL) ==> %s >= %s + 2" % (OFF, P)]),
}

SUFFIX_STATES = ["START", "SUFFIX_U", "SUFFIX_UL", "SUFFIX_ULL", "SUFFIX_UZ", "SUFFIX_L", "SUFFIX_LU", "SUFFIX_LL", "SUFFIX_LLU", "SUFFIX_I", "SUFFIX_I6", "SUFFIX_I64",
                 "SUFFIX_UI", "SUFFIX_UI6", "SUFFIX_UI64", "SUFFIX_Z", "SUFFIX_LITERAL_LEADER", "SUFFIX_LITERAL"]

SUFFIX_CONTRACT = r'''
__CPROVER_requires(__CPROVER_same_object(it, end) && (size_t)__CPROVER_POINTER_OFFSET(it) <= (size_t)__CPROVER_POINTER_OFFSET(end))
__CPROVER_requires(__CPROVER_r_ok(it, (size_t)__CPROVER_POINTER_OFFSET(end) - (size_t)__CPROVER_POINTER_OFFSET(it)))
__CPROVER_assigns()
/* true => non-empty and the first character can start an integer suffix */
__CPROVER_ensures(__CPROVER_return_value ==> ((size_t)__CPROVER_POINTER_OFFSET(__CPROVER_old(it)) < (size_t)__CPROVER_POINTER_OFFSET(end) &&
    (*__CPROVER_old(it) == 'u' || *__CPROVER_old(it) == 'U' || *__CPROVER_old(it) == 'l' || *__CPROVER_old(it) == 'L' || *__CPROVER_old(it) == 'z' || *__CPROVER_old(it) == 'Z' ||
     *__CPROVER_old(it) == '_' || (supportMicrosoftExtensions && (*__CPROVER_old(it) == 'i' || *__CPROVER_old(it) == 'I')))))
'''

GETSUFFIX_CONTRACT = r'''
__CPROVER_requires(value_len <= 1000000 && __CPROVER_is_fresh(value, value_len + 1))
__CPROVER_assigns()
__CPROVER_ensures(__CPROVER_return_value == S_EMPTY || __CPROVER_return_value == S_U || __CPROVER_return_value == S_L || __CPROVER_return_value == S_UL || __CPROVER_return_value == S_LL || __CPROVER_return_value == S_ULL)
'''

XDEF = "#define DG(c) ((c) >= '0' && (c) <= '9')\n#define XD(c) (DG(c) || ((c) >= 'a' && (c) <= 'f') || ((c) >= 'A' && (c) <= 'F'))\n"

HARNESS_HEAD = r'''
#include "literal_ref.h"
#ifndef LMAX
#define LMAX 5
#endif
char g_in_buf[LMAX + 1]; size_t g_in_len; int g_in_ms;
'''


def bounded_harness(fn, call, strict, loose):
    return r'''
void h_b_%s(void) {
    char buf[LMAX + 1]; size_t n = nondet_size_t(); _Bool ms = nondet_bool();
    __CPROVER_assume(n <= LMAX);
    for (size_t i = 0; i <= LMAX; i++) { buf[i] = nondet_char(); g_in_buf[i] = buf[i]; }
    buf[n] = 0; g_in_buf[n] = 0; g_in_len = n; g_in_ms = ms;
    _Bool r = %s;
    __CPROVER_assert(!(%s) || r, "%s: every spelling a conforming compiler accepts is recognised");
    __CPROVER_assert(!r || (%s), "%s: nothing outside the literal class is recognised");
}
''' % (fn, call, strict, fn, loose, fn)


REPLAY_CPP = r'''
#include "mathlib.h"
#include <cstdio>
#include <cstring>
#include <string>
#include "@SPECS@/literal_ref.h"
int main(int argc, char **argv) {
    std::string fn = argv[1]; int ms = atoi(argv[2]); std::string s;
    for (int i = 3; i < argc; i++) s.push_back((char)atoi(argv[i]));
    const char *p = s.data(); size_t n = s.size(); bool r; int st, lo;
    if (fn == "isDec") { r = MathLib::isDec(s); st = strict_isDec(p, n); lo = loose_isDec(p, n); }
    else if (fn == "isOct") { r = MathLib::isOct(s); st = strict_isOct(p, n); lo = loose_isOct(p, n); }
    else if (fn == "isIntHex") { r = MathLib::isIntHex(s); st = strict_isIntHex(p, n); lo = loose_isIntHex(p, n); }
    else if (fn == "isBin") { r = MathLib::isBin(s); st = strict_isBin(p, n); lo = loose_isBin(p, n); }
    else if (fn == "isDecimalFloat") { r = MathLib::isDecimalFloat(s); st = strict_isDecimalFloat(p, n); lo = loose_isDecimalFloat(p, n); }
    else if (fn == "isFloatHex") { r = MathLib::isFloatHex(s); st = strict_isFloatHex(p, n); lo = loose_isFloatHex(p, n); }
    else if (fn == "isValidIntegerSuffix") { r = MathLib::isValidIntegerSuffix(s, ms); st = strict_isValidIntegerSuffix(p, n, ms); lo = loose_isValidIntegerSuffix(p, n, ms); }
    else return 2;
    printf("MathLib::%s(\"%s\") = %d; standard grammar accepts: %d, literal class admits: %d\n", fn.c_str(), s.c_str(), (int)r, st, lo);
    return ((!st || r) && (!r || lo)) ? 0 : 1;
}
'''


def lower_dfa(loc, name, enum, extra_rules=()):
    rules = [
        (r'^bool MathLib::%s\s*\(' % name, 'bool %s(' % name, 1, 1),
    ] + _common.str_rules("str", 1) + [
        (r'enum\s+class\s+%s\s*:\s*(?:std::)?uint8_t\s*\{([^}]*)\}' % enum,
         lambda mo: "enum %s { %s }" % (enum, ", ".join("%s_%s" % (enum, x.strip()) for x in mo.group(1).split(',') if x.strip())), 1, 1),
        (r'\b%s::(\w+)' % enum, r'%s_\1' % enum, 3),
        (r'\bauto\s+it\s*=', 'const char *it =', 1, 1),
        (r'isValidIntegerSuffixIt\(\s*it\s*,\s*\(str \+ str_len\)\s*\)', 'isValidIntegerSuffixIt(it, (str + str_len), true)', 0, 1),
    ] + list(extra_rules)
    return located_rules(loc, rules, ID + "." + name)


def recognisers(kb):
    """C text of the extracted recognisers (contracts under #ifndef NOCONTRACT), shared with K36"""
    out = [_common.BASE, XDEF]
    n = 0
    # isOctalDigit
    lo = extract.locate_function("lib/mathlib.cpp", r'^bool MathLib::isOctalDigit\s*\(')
    kb.add_located("MathLib::isOctalDigit", lo)
    t, k = located_rules(lo, [(r'^bool MathLib::isOctalDigit', 'bool isOctalDigit', 1, 1)], ID); n += k
    sig, body = extract.body_of(t)
    out.append("%s\n__CPROVER_ensures(__CPROVER_return_value == (c >= '0' && c <= '7'))\n__CPROVER_assigns()\n%s\n" % (sig, body))
    # isValidIntegerSuffixIt
    ls = extract.locate_function("lib/mathlib.cpp", r'^static bool isValidIntegerSuffixIt\s*\(')
    kb.add_located("isValidIntegerSuffixIt", ls)
    t, k = located_rules(ls, [
        (r'^static bool isValidIntegerSuffixIt\s*\(\s*std::string::const_iterator it\s*,\s*std::string::const_iterator end\s*,\s*bool supportMicrosoftExtensions\s*=\s*true\s*\)',
         'bool isValidIntegerSuffixIt(const char *it, const char *end, bool supportMicrosoftExtensions)', 1, 1),
        (r'enum\s+class\s+Status\s*:\s*(?:std::)?uint8_t\s*\{([^}]*)\}',
         lambda mo: "enum Status { %s }" % ", ".join("Status_%s" % x.strip() for x in mo.group(1).split(',') if x.strip()), 1, 1),
        (r'\bStatus::(\w+)', r'Status_\1', 30),
    ], ID + ".isValidIntegerSuffixIt"); n += k
    sig, body = extract.body_of(t)
    m = re.search(r'enum Status \{([^}]*)\}', body)
    sstates = [x.strip()[len("Status_"):] for x in m.group(1).split(',')] if m else []
    if sstates != SUFFIX_STATES:
        raise extract.ExtractError("isValidIntegerSuffixIt: state list changed: %s" % sstates)
    sinv = ("__CPROVER_assigns(it, state)\n"
            "__CPROVER_loop_invariant(__CPROVER_same_object(it, end) && (size_t)__CPROVER_POINTER_OFFSET(it) <= (size_t)__CPROVER_POINTER_OFFSET(end) && (size_t)__CPROVER_POINTER_OFFSET(it) >= (size_t)__CPROVER_POINTER_OFFSET(__CPROVER_loop_entry(it)))\n"
            "__CPROVER_loop_invariant(%s)\n" % " || ".join("state == Status_%s" % s for s in SUFFIX_STATES) +
            "__CPROVER_loop_invariant(state == Status_START ==> it == __CPROVER_loop_entry(it))\n"
            "__CPROVER_loop_invariant(state != Status_START ==> ((size_t)__CPROVER_POINTER_OFFSET(it) > (size_t)__CPROVER_POINTER_OFFSET(__CPROVER_loop_entry(it)) && "
            "(*__CPROVER_loop_entry(it) == 'u' || *__CPROVER_loop_entry(it) == 'U' || *__CPROVER_loop_entry(it) == 'l' || *__CPROVER_loop_entry(it) == 'L' || *__CPROVER_loop_entry(it) == 'z' || *__CPROVER_loop_entry(it) == 'Z' || "
            "*__CPROVER_loop_entry(it) == '_' || (supportMicrosoftExtensions && (*__CPROVER_loop_entry(it) == 'i' || *__CPROVER_loop_entry(it) == 'I')))))\n"
            "__CPROVER_decreases((size_t)__CPROVER_POINTER_OFFSET(end) - (size_t)__CPROVER_POINTER_OFFSET(it))\n")
    body = extract.insert_loop_contracts(body, ["#ifndef NOCONTRACT\n" + sinv + "#endif"], ID + ".isValidIntegerSuffixIt")
    out.append("%s\n#ifndef NOCONTRACT\n%s#endif\n%s\n" % (sig, SUFFIX_CONTRACT, body))
    # isValidIntegerSuffix wrapper
    lw = extract.locate_function("lib/mathlib.cpp", r'^bool MathLib::isValidIntegerSuffix\s*\(')
    kb.add_located("MathLib::isValidIntegerSuffix", lw)
    t, k = located_rules(lw, [(r'^bool MathLib::isValidIntegerSuffix\s*\(', 'bool isValidIntegerSuffix(', 1, 1)] + _common.str_rules("str", 1), ID + ".isValidIntegerSuffix"); n += k
    out.append(t + "\n")
    # DFA recognisers
    for name, d in FUNCS.items():
        loc = extract.locate_function("lib/mathlib.cpp", r'^bool MathLib::%s\s*\(' % name)
        kb.add_located("MathLib::" + name, loc)
        t, k = lower_dfa(loc, name, d["enum"]); n += k
        sig, body = extract.body_of(t)
        m = re.search(r'enum %s \{([^}]*)\}' % d["enum"], body)
        states = [x.strip()[len(d["enum"]) + 1:] for x in m.group(1).split(',')] if m else []
        if states != d["states"]:
            raise extract.ExtractError("%s: state list changed: %s" % (name, states))
        lc = inv_common(d["states"], d["enum"]) + expand_p("".join("__CPROVER_loop_invariant(%s)\n" % i for i in d["inv"])) + DEC
        body = extract.insert_loop_contracts(body, ["#ifndef NOCONTRACT\n" + lc + "#endif"], ID + "." + name)
        out.append("%s\n#ifndef NOCONTRACT\n%s%s#endif\n%s\n" % (sig, STR_REQ, expand_p(d["ens"]), body))
    # isNegative / isPositive / isInt / isFloat
    for name in ("isNegative", "isPositive", "isInt", "isFloat"):
        loc = extract.locate_function("lib/mathlib.cpp", r'^bool MathLib::%s\s*\(' % name)
        kb.add_located("MathLib::" + name, loc)
        t, k = located_rules(loc, [(r'^bool MathLib::%s\s*\(' % name, 'bool %s(' % name, 1, 1)] + _common.str_rules("str", 1) + [
            (r'\bMathLib::isNegative\(str\)', 'isNegative(str, str_len)', 0, 1),
            (r'\b(isDec|isIntHex|isOct|isBin|isDecimalFloat|isFloatHex)\(str\)', r'\1(str, str_len)', 0),
        ], ID + "." + name); n += k
        sig, body = extract.body_of(t)
        con = ""
        if name == "isNegative":
            con = STR_REQ + "__CPROVER_ensures(__CPROVER_return_value == (str_len > 0 && str[0] == '-'))\n"
        if name == "isPositive":
            con = STR_REQ + "__CPROVER_ensures(__CPROVER_return_value == (str_len > 0 && str[0] != '-'))\n"
        out.append("%s\n#ifndef NOCONTRACT\n%s#endif\n%s\n" % (sig, con, body))
    # getSuffix
    lg = extract.locate_function("lib/mathlib.cpp", r'^std::string MathLib::getSuffix\s*\(')
    kb.add_located("MathLib::getSuffix", lg)
    t, k = located_rules(lg, [(r'^std::string MathLib::getSuffix\s*\(', 'const char *getSuffix(', 1, 1)] + _common.str_rules("value", 1) + [
        (r'return\s+"ULL"\s*;', 'return S_ULL;', 1),
        (r'return\s+"LL"\s*;', 'return S_LL;', 1),
        (r'return\s+""\s*;', 'return S_EMPTY;', 1),
        (r'\?\s*"U"\s*:\s*""', '? S_U : S_EMPTY', 1, 1),
        (r'\?\s*"UL"\s*:\s*"L"', '? S_UL : S_L', 1, 1),
        (r'\?\s*"ULL"\s*:\s*"LL"', '? S_ULL : S_LL', 1, 1),
    ], ID + ".getSuffix"); n += k
    sig, body = extract.body_of(t)
    gl = ("__CPROVER_assigns(i, isUnsigned, longState)\n__CPROVER_loop_invariant(i >= 1 && i <= value_len + 1 && longState <= i - 1)\n"
          "__CPROVER_decreases(value_len + 1 - i)\n")
    body = extract.insert_loop_contracts(body, ["#ifndef NOCONTRACT\n" + gl + "#endif"], ID + ".getSuffix")
    out.append('static const char S_EMPTY[] = "", S_U[] = "U", S_L[] = "L", S_UL[] = "UL", S_LL[] = "LL", S_ULL[] = "ULL";\n')
    out.append("%s\n#ifndef NOCONTRACT\n%s#endif\n%s\n" % (sig, GETSUFFIX_CONTRACT, body))
    kb.rules_fired = n
    text = "".join(out)
    extract.residue_scan(text, ID)
    return text


def build(ctx):
    kb = KernelBuild(ID, TITLE)
    text = recognisers(kb)

    h = [HARNESS_HEAD]
    for name in list(FUNCS) + ["isNegative", "isPositive"]:
        h.append("void h_%s(void) { const char *s; size_t n = nondet_size_t(); (void)%s(s, n); }\n" % (name, name))
    h.append("void h_getSuffix(void) { const char *s; size_t n = nondet_size_t(); (void)getSuffix(s, n); }\n")
    h.append("void *malloc(size_t);\nvoid h_suffixIt(void) { size_t n = nondet_size_t(), a = nondet_size_t(), b = nondet_size_t(); __CPROVER_assume(n <= 1000000 && a <= b && b <= n);"
             " char *buf = malloc(n + 1); __CPROVER_assume(buf != 0); (void)isValidIntegerSuffixIt(buf + a, buf + b, nondet_bool()); }\n")
    h.append("void h_isOctalDigit(void) { (void)isOctalDigit(nondet_char()); }\n")
    for name in FUNCS:
        h.append(bounded_harness(name, "%s(buf, n)" % name, "strict_%s(buf, n)" % name, "loose_%s(buf, n)" % name))
    h.append(bounded_harness("isValidIntegerSuffix", "isValidIntegerSuffix(buf, n, ms)", "strict_isValidIntegerSuffix(buf, n, ms)", "loose_isValidIntegerSuffix(buf, n, ms)"))
    h.append(r'''
void h_cover(void) {
    char buf[6]; for (int i = 0; i < 6; i++) buf[i] = nondet_char();
    __CPROVER_assert(!isOct(buf, 3), "COVER: some 3-char string is octal");
    __CPROVER_assert(!isIntHex(buf, 5), "COVER: some 5-char string is hex");
    __CPROVER_assert(!isDecimalFloat(buf, 4), "COVER: some 4-char string is a decimal float");
    __CPROVER_assert(!isFloatHex(buf, 6), "COVER: some 6-char string is a hex float");
    __CPROVER_assert(!isBin(buf, 4), "COVER: some 4-char string is binary");
}
''')
    kb.ctext = text + "".join(h)

    for name in FUNCS:
        kb.job(name, "h_" + name, enforce=name, loop_contracts=True,
               replace=(["isValidIntegerSuffixIt"] if name in ("isOct", "isIntHex", "isBin", "isDec") else []) + (["isOctalDigit"] if name == "isOct" else []),
               search="b." + name, replay="lit:" + name, timeout=240)
    kb.job("isNegative", "h_isNegative", enforce="isNegative")
    kb.job("isPositive", "h_isPositive", enforce="isPositive", replace=["isNegative"])
    kb.job("isOctalDigit", "h_isOctalDigit", enforce="isOctalDigit")
    kb.job("isValidIntegerSuffixIt", "h_suffixIt", enforce="isValidIntegerSuffixIt", loop_contracts=True, search="b.isValidIntegerSuffix", replay="lit:isValidIntegerSuffix")
    kb.job("getSuffix", "h_getSuffix", enforce="getSuffix", loop_contracts=True)
    lq, lt = 5, 7
    for name in list(FUNCS) + ["isValidIntegerSuffix"]:
        kb.job("b." + name, "h_b_" + name, kind="bounded", unwind=lq + 3, defines=["NOCONTRACT", "LMAX=%d" % lq], replay="lit:" + name,
               note="all byte strings of length <= %d, loops fully unwound" % lq, timeout=300, tier="quick-only")
        kb.job("b%d." % lt + name, "h_b_" + name, kind="bounded", unwind=lt + 3, defines=["NOCONTRACT", "LMAX=%d" % lt], replay="lit:" + name,
               note="all byte strings of length <= %d, loops fully unwound" % lt, timeout=1500, tier="thorough")
    kb.job("cover", "h_cover", kind="cover", unwind=10, defines=["NOCONTRACT"])
    kb.assumptions += ["std::string lowered to (const char*, size_t) with one readable byte after end(); iterators are pointers",
                       "isdigit/isxdigit: CBMC's built-in models (C locale)",
                       "reference acceptors in /verif/specs/literal_ref.h written from C11 6.4.4.1-2, C++14/23 and the documented extensions"]

    def mk(name):
        def rp(inputs, ctx):
            buf = inputs.get("g_in_buf") or []
            ln = int(inputs.get("g_in_len", 0) or 0)
            if isinstance(buf, list):
                by = [(int(b) & 0xff) if b is not None else 0 for b in buf[:ln]]
            else:
                by = []
            signed = [b - 256 if b > 127 else b for b in by]
            rc, o, cmd = native.compile_run("replay_K07", REPLAY_CPP.replace("@SPECS@", HERE + "/specs"), [name, int(inputs.get("g_in_ms", 1) or 0)] + signed)
            return native.verdict_from_rc(rc, o), o, cmd
        return rp
    for name in list(FUNCS) + ["isValidIntegerSuffix"]:
        kb.replayers["lit:" + name] = mk(name)
    return kb
