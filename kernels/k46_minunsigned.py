"""K46  minUnsignedValue (lib/valueflow.cpp) and the branch of valueFlowImpossibleValues that uses it: the lower bound
cppcheck derives for an unsigned expression ("x + 5 is never <= 4").

Ghost: every token carries `ghost`, its value in an arbitrary execution free of undefined behaviour, as the mathematical
value after the conversions of the operation (non-negative for an unsigned expression).  The node under test is well
formed: a known value equals the ghost, a `|` node's ghost is the bitwise or of its operands' ghosts, an unsigned node's ghost
is non-negative, and ANY other binary node's ghost is arbitrary (in particular + * << wrap around, / and >> shrink).
Contract of minUnsignedValue (recursive calls replaced by it - induction over the tree):
    a bound is returned  ==>  bound <= tok->ghost
The caller's block: the impossible value it attaches ("never <= max(0, bound) - 1") is a true fact about tok->ghost.
"""
import re

from vlib import extract, native
from vlib.kernel import KernelBuild, located_rules
from . import _common

ID = "K46"
SERVES = ["C01", "C03", "C13"]
TITLE = "minUnsignedValue: the lower bound of an unsigned expression holds in every execution"

PRELUDE = r'''
#include "vstr.h"
struct Value { bigint intvalue; };
struct Opt { _Bool has; bigint v; };
struct Tok { const char *mStr; size_t mStrLen; const struct Tok *op1, *op2; _Bool hasKnown; struct Value known; _Bool isUnsigned; _Bool isConstOp; bigint ghost; };
static inline const struct Value *Tok_getKnownInt(const struct Tok *t) { return t->hasKnown ? &t->known : NULL; }
static struct Opt opt_none(void) { struct Opt r; r.has = 0; r.v = 0; return r; }
static struct Opt opt_of(bigint v) { struct Opt r; r.has = 1; r.v = v; return r; }
static inline bigint BIG_MAX(bigint a, bigint b) { return a < b ? b : a; }
#ifndef TWIN
#define MIN_POST(tok, ret) (!(ret).has || (ret).v <= (tok)->ghost)
#else
#define MIN_POST(tok, ret) (!(ret).has || (ret).v < (tok)->ghost)
#endif
enum VKind { K_KNOWN, K_POSSIBLE, K_IMPOSSIBLE };
enum VBound { BOUND_Upper, BOUND_Lower, BOUND_Point };
struct VValue { enum VKind kind; enum VBound bound; bigint intvalue; };
'''

CONTRACT = r'''
__CPROVER_requires(tok == NULL || __CPROVER_r_ok(tok, sizeof(*tok)))
__CPROVER_assigns()
__CPROVER_ensures(tok == NULL ? !__CPROVER_return_value.has : MIN_POST(tok, __CPROVER_return_value))
'''

HARNESS = r'''
bigint g_in_g, g_in_g1, g_in_g2, g_in_known; int g_in_kind, g_in_uns, g_in_hasKnown, g_in_depth;
static char s_or[2], s_plus[2], s_div[2], s_shr[3], s_other[2];
static void mk_strings(void) { s_or[0] = '|'; s_or[1] = 0; s_plus[0] = '+'; s_plus[1] = 0; s_div[0] = '/'; s_div[1] = 0; s_shr[0] = '>'; s_shr[1] = '>'; s_shr[2] = 0; s_other[0] = 'x'; s_other[1] = 0; }
static void mk_leaf(struct Tok *c) {
    c->mStr = s_other; c->mStrLen = 1; c->op1 = NULL; c->op2 = NULL; c->hasKnown = nondet_bool(); c->known.intvalue = nondet_bigint(); c->ghost = nondet_bigint();
    c->isUnsigned = nondet_bool(); c->isConstOp = 0;
    if (c->hasKnown) __CPROVER_assume(c->ghost == c->known.intvalue);
    if (c->isUnsigned) __CPROVER_assume(c->ghost >= 0);
}
static void mk_node(struct Tok *n, struct Tok *c1, struct Tok *c2) {
    mk_strings(); mk_leaf(c1); mk_leaf(c2);
    int kind = nondet_int(); __CPROVER_assume(kind >= 0 && kind <= 4);
    n->mStr = kind == 0 ? s_or : kind == 1 ? s_plus : kind == 2 ? s_div : kind == 3 ? s_shr : s_other; n->mStrLen = kind == 3 ? 2 : 1;
    n->op1 = nondet_bool() ? c1 : NULL; n->op2 = nondet_bool() ? c2 : NULL;
    n->isConstOp = kind != 4; n->isUnsigned = nondet_bool();
    n->hasKnown = nondet_bool(); n->known.intvalue = nondet_bigint(); n->ghost = nondet_bigint();
    if (n->hasKnown) __CPROVER_assume(n->ghost == n->known.intvalue);
    if (n->isUnsigned) __CPROVER_assume(n->ghost >= 0);
    /* `|` of the converted operands; every other operator may give any value of the type (wrap-around, shrinking) */
    if (kind == 0 && n->op1 && n->op2) { __CPROVER_assume(c1->ghost >= 0 && c2->ghost >= 0); __CPROVER_assume(n->ghost == (c1->ghost | c2->ghost)); }
    g_in_kind = kind; g_in_g = n->ghost; g_in_g1 = c1->ghost; g_in_g2 = c2->ghost; g_in_uns = n->isUnsigned; g_in_hasKnown = n->hasKnown; g_in_known = n->known.intvalue;
}
void h_min(void) {
    struct Tok n, c1, c2; mk_node(&n, &c1, &c2);
    int depth = nondet_int(); g_in_depth = depth;
    (void)minUnsignedValue(nondet_bool() ? &n : NULL, depth);
}
void h_caller(void) {
    struct Tok n, c1, c2; mk_node(&n, &c1, &c2);
    struct VValue out; _Bool set = 0;
    impossible_unsigned_block(&n, nondet_bool(), &out, &set);
    if (!set) return;
    __CPROVER_assert(out.kind == K_IMPOSSIBLE && out.bound == BOUND_Upper && n.ghost > out.intvalue, "the impossible value attached to an unsigned expression (never <= bound - 1) is true in every execution");
}
void h_cover(void) {
    struct Tok n, c1, c2; mk_node(&n, &c1, &c2);
    __CPROVER_assume(!n.hasKnown);
    struct Opt r = minUnsignedValue(&n, 8);
    __CPROVER_assert(!(r.has && r.v == 7 && n.mStr == s_or), "COVER: a | b with a bound of 7");
    __CPROVER_assert(!(r.has && r.v == 0 && n.mStr == s_plus), "COVER: an unsigned sum is only known to be >= 0");
    __CPROVER_assert(!(!r.has), "COVER: no bound");
}
'''

REPLAY_CPP = r'''
#include <cstdio>
int main() { printf("K46: the counterexample is a one-node tree (kind 0: |, 1: +, 2: /, 3: >>) with the operands' execution values; compare `cppcheck --enable=style` on `void f(unsigned a){ if (a + 5 < 5) g(); }`\n"); return 0; }
'''


def build(ctx):
    kb = KernelBuild(ID, TITLE)
    n = 0
    TOK = [
        (r'\b(\w+)->getKnownValue\(ValueFlow::Value::ValueType::INT\)', r'Tok_getKnownInt(\1)', 0),
        (r'\bTokenMatch_OR\b', 'x', 0),
        (r'Token::Match\((\w+),\s*("(?:[^"\\]|\\.)*")\)', lambda mo: 'tok_is_one_of(%s, %s)' % (mo.group(1), mo.group(2).replace('%or%', '|')), 0),
        (r'\b(\w+)->isConstOp\(\)', r'\1->isConstOp', 0),
        (r'\bastIsUnsigned\((\w+)\)', r'\1->isUnsigned', 0),
        (r'\b(\w+)->astOperand([12])\(\)', r'\1->op\2', 0),
        (r'\bconst ValueFlow::Value\s*\*', 'const struct Value *', 0),
        (r'\bconst Token\s*\*', 'const struct Tok *', 0),
    ]
    f = extract.locate_function("lib/valueflow.cpp", r'^static std::vector<MathLib::bigint> minUnsignedValue\s*\(')
    kb.add_located("minUnsignedValue", f)
    t, k = located_rules(f, TOK + [
        (r'^static std::vector<bigint> minUnsignedValue\s*\(\s*const struct Tok \*\s*tok\s*,\s*int depth = 8\s*\)', 'static struct Opt minUnsignedValue(const struct Tok *tok, int depth)', 1, 1),
        (r'std::vector<bigint> result\s*;', 'struct Opt result = opt_none();', 1, 1),
        (r'std::vector<bigint> (op[12]) = minUnsignedValue\(', r'struct Opt \1 = minUnsignedValue_rec(', 2, 2),
        (r'\bif \(const struct Value \*\s*(\w+) = (Tok_getKnownInt\(\w+\))\)\s*\{', r'const struct Value *\1 = \2; if (\1) {', 1, 1),
        (r'\bresult = \{v->intvalue\}\s*;', 'result = opt_of(v->intvalue);', 1, 1),
        (r'\bresult = \{0\}\s*;', 'result = opt_of(0);', 1, 1),
        (r'\bresult = \{std::max\(op1\.front\(\), op2\.front\(\)\)\}\s*;', 'result = opt_of(BIG_MAX(op1.v, op2.v));', 0, 1),
        (r'\bresult = calculate<std::vector<bigint>>\(tok->str\(\), op1\.front\(\), op2\.front\(\)\)\s*;', 'result = opt_of(calc_any(tok, op1.v, op2.v));', 0, 1),
        (r'\b(result|op1|op2)\.empty\(\)', r'(!\1.has)', 3),
    ], ID + ".minUnsignedValue"); n += k
    if re.search(r'ValueFlow|Token::|std::|->ast|->str\(', extract.mask(t)):
        raise extract.ExtractError("K46: minUnsignedValue not fully lowered: %r" % re.findall(r'[^\n]*(?:ValueFlow|Token::|std::|->ast|->str\()[^\n]*', extract.mask(t))[:3])
    sig, body = extract.body_of(t)
    helpers = (r'''
/* Token::Match(tok, "a|b|c") for one-word patterns of plain alternatives (the word `|` itself is written %or% in the source) */
static _Bool tok_is_one_of(const struct Tok *t, const char *alts) {
    if (!t) return 0;
    size_t i = 0;
    for (int k = 0; k < 12; k++) {
        size_t j = i; if (alts[j] == '|' ) j++;            /* a lone | alternative */
        while (alts[j] != 0 && alts[j] != '|') j++;
        if (j - i == t->mStrLen) { _Bool eq = 1; for (size_t q = 0; q < 3; q++) if (q < t->mStrLen && t->mStr[q] != alts[i + q]) eq = 0; if (eq) return 1; }
        if (alts[j] == 0) return 0;
        i = j + 1;
    }
    return 0;
}
/* calculate(op, a, b) of lib/calculate.h (under contract in K06): here only "the result of the operator on the two bounds" - any value for + / >> etc. */
static bigint calc_any(const struct Tok *t, bigint a, bigint b) {
    if (vstr_eq(t->mStr, t->mStrLen, "+")) return (bigint)((biguint)a + (biguint)b);
    if (vstr_eq(t->mStr, t->mStrLen, "|")) return a | b;
    if (vstr_eq(t->mStr, t->mStrLen, "/")) return b == 0 ? 0 : (a == LLONG_MIN && b == -1 ? 0 : a / b);
    if (vstr_eq(t->mStr, t->mStrLen, ">>")) return (b < 0 || b >= 64 || a < 0) ? 0 : a >> b;
    return nondet_bigint();
}
''')
    rng = ("struct Opt minUnsignedValue_rec(const struct Tok *tok, int depth)\n%s;\n" % CONTRACT + helpers + "%s\n%s%s\n" % (sig, CONTRACT, body))
    # the caller's branch
    g = extract.locate_function("lib/valueflow.cpp", r'^static void valueFlowImpossibleValues\s*\(')
    gm = extract.mask(g.text)
    s = list(re.finditer(r'else if \(astIsUnsigned\(tok\) && !astIsPointer\(tok\)\)\s*\{', gm))
    if len(s) != 1:
        raise extract.ExtractError("valueFlowImpossibleValues: unsigned branch not found")
    ob = s[0].end() - 1
    cb = extract.match_brace(g.text, ob, gm)
    reg = extract.Located("lib/valueflow.cpp", g.text[s[0].start() + len("else "):cb + 1], g.start + s[0].start() + len("else "), g.start + cb + 1, extract.read("lib/valueflow.cpp"))
    kb.add_located("valueFlowImpossibleValues [branch for unsigned expressions]", reg, "region")
    tb, k = located_rules(reg, [
        (r'astIsUnsigned\(tok\) && !astIsPointer\(tok\)', 'tok->isUnsigned && !is_pointer', 1, 1),
        (r'std::vector<bigint> minvalue = minUnsignedValue\(tok\)\s*;', 'struct Opt minvalue = minUnsignedValue(tok, 8);', 1, 1),
        (r'\bminvalue\.empty\(\)', '(!minvalue.has)', 1, 1),
        (r'\bcontinue\s*;', 'return;', 1, 1),
        (r'ValueFlow::Value value\{std::max<bigint>\(0, minvalue\.front\(\)\) - 1\}\s*;', 'struct VValue value; value.kind = K_POSSIBLE; value.bound = BOUND_Point; value.intvalue = BIG_MAX(0, minvalue.v) - 1;', 1, 1),
        (r'\bvalue\.bound = ValueFlow::Value::Bound::(Upper|Lower|Point)\s*;', r'value.bound = BOUND_\1;', 1, 1),
        (r'\bvalue\.setImpossible\(\)\s*;', 'value.kind = K_IMPOSSIBLE;', 1, 1),
        (r'\bsetTokenValue\(tok, std::move\(value\), settings\)\s*;', '*out = value; *set = 1;', 1, 1),
    ], ID + ".caller"); n += k
    if re.search(r'ValueFlow|std::|settings|astIs', extract.mask(tb)):
        raise extract.ExtractError("K46: caller branch not fully lowered: %r" % tb[:300])
    caller = "static void impossible_unsigned_block(const struct Tok *tok, _Bool is_pointer, struct VValue *out, _Bool *set)\n{\n%s\n}\n" % extract.strip_comments(tb)
    kb.rules_fired = n
    text = _common.BASE + PRELUDE + rng + caller
    extract.residue_scan(text, ID)
    kb.ctext = text + HARNESS
    kb.job("min", "h_min", enforce="minUnsignedValue", replace=["minUnsignedValue_rec"], unwind=14, replay="note",
           note="induction step for every node shape (known value, |, +, /, >>, other), operands arbitrary; recursive calls replaced by the contract")
    kb.job("min.twin", "h_min", kind="twin", enforce="minUnsignedValue", replace=["minUnsignedValue_rec"], unwind=14, defines=["TWIN"])
    kb.job("caller", "h_caller", replace=["minUnsignedValue"], unwind=14, replay="note", note="the unsigned branch of valueFlowImpossibleValues with minUnsignedValue replaced by its contract")
    kb.job("cover", "h_cover", kind="cover", replace=["minUnsignedValue_rec"], unwind=14)
    kb.assumptions += ["ghost semantics (harness): known value == execution value; an unsigned expression is non-negative; `|` is the bitwise or of its (converted, non-negative) operands; every other binary operator may give any value of its type",
                       "induction over the expression tree: recursive calls are replaced by the function's own contract",
                       "calculate() is modelled for the four operators the harness uses (it is under contract in K06); 64-bit unsigned values above LLONG_MAX are not modelled"]

    def rnote(inputs, ctx):
        rc, o, cmd = native.compile_run("replay_K46", REPLAY_CPP, [], need_core=False)
        return "none", o, cmd
    kb.replayers["note"] = rnote
    return kb
