"""K43  struct Interval of lib/infer.cpp: the interval subtraction and comparison behind infer() - the engine that turns value
bounds (`x >= a`, `y <= b`) into KNOWN results of comparisons between two expressions (valueFlowInferCondition,
knownConditionTrueFalse).

`std::vector<MathLib::bigint>` holds zero or one element here (an optional bound): it is lowered to `struct Opt`; the
`minRef` / `maxRef` vectors (error-path bookkeeping) are dropped by rules.
Ghost: a is any value of the left interval, b any value of the right one.
Contracts:
  operator-      no signed overflow; every bound of the result bounds a - b (as mathematical integers)
  compare(l, r)  the returned list of signs contains sign(a - b); an empty list claims nothing
  fromValues     the blocks that turn an impossible value into a bound (intvalue + 1, intvalue - 1) do not overflow
"""
import re

from vlib import extract, native
from vlib.kernel import KernelBuild, located_rules
from . import _common

ID = "K43"
SERVES = ["C01", "C03", "C13"]
TITLE = "Interval subtraction / comparison of infer(): sound for every pair of values of the two intervals"

PRELUDE = r'''
struct Opt { _Bool has; bigint v; };                      /* std::vector<bigint> with at most one element */
struct Interval { struct Opt minvalue, maxvalue; };
struct Signs { int n; int s[2]; };                         /* std::vector<int> with at most two elements */
static _Bool opt_eq(struct Opt x, struct Opt y) { return x.has == y.has && (!x.has || x.v == y.v); }   /* operator== of the vectors */
static struct Opt opt_none(void) { struct Opt r; r.has = 0; r.v = 0; return r; }
static struct Opt opt_of(bigint v) { struct Opt r; r.has = 1; r.v = v; return r; }
static struct Signs signs0(void) { struct Signs r; r.n = 0; r.s[0] = r.s[1] = 0; return r; }
static struct Signs signs1(int a) { struct Signs r; r.n = 1; r.s[0] = a; r.s[1] = 0; return r; }
static struct Signs signs2(int a, int b) { struct Signs r; r.n = 2; r.s[0] = a; r.s[1] = b; return r; }
'''

HARNESS = r'''
bigint g_in_lmin, g_in_lmax, g_in_rmin, g_in_rmax, g_in_a, g_in_b; int g_in_hl, g_in_hL, g_in_hr, g_in_hR;
static void mk_interval(struct Interval *i, bigint *any) {
    i->minvalue.has = nondet_bool(); i->minvalue.v = nondet_bigint(); i->maxvalue.has = nondet_bool(); i->maxvalue.v = nondet_bigint();
    bigint v = nondet_bigint();
    __CPROVER_assume(!i->minvalue.has || v >= i->minvalue.v); __CPROVER_assume(!i->maxvalue.has || v <= i->maxvalue.v);
    *any = v;
}
static void record(const struct Interval *l, const struct Interval *r, bigint a, bigint b) {
    g_in_hl = l->minvalue.has; g_in_lmin = l->minvalue.v; g_in_hL = l->maxvalue.has; g_in_lmax = l->maxvalue.v;
    g_in_hr = r->minvalue.has; g_in_rmin = r->minvalue.v; g_in_hR = r->maxvalue.has; g_in_rmax = r->maxvalue.v; g_in_a = a; g_in_b = b;
}
/* a - b as a mathematical integer compared with a 64-bit bound: carried out in 128 bits */
static _Bool diff_ge(bigint a, bigint b, bigint bound) { return (__int128)a - (__int128)b >= (__int128)bound; }
static _Bool diff_le(bigint a, bigint b, bigint bound) { return (__int128)a - (__int128)b <= (__int128)bound; }
void h_minus(void) {
    struct Interval l, r; bigint a, b; mk_interval(&l, &a); mk_interval(&r, &b); record(&l, &r, a, b);
    struct Interval d = Interval_minus_op(&l, &r);
    if (d.minvalue.has) __CPROVER_assert(diff_ge(a, b, d.minvalue.v), "the lower bound of lhs - rhs bounds a - b for every a in lhs, b in rhs");
    if (d.maxvalue.has) __CPROVER_assert(diff_le(a, b, d.maxvalue.v), "the upper bound of lhs - rhs bounds a - b for every a in lhs, b in rhs");
}
void h_compare(void) {
    struct Interval l, r; bigint a, b; mk_interval(&l, &a); mk_interval(&r, &b); record(&l, &r, a, b);
    struct Signs s = Interval_compare(&l, &r);
    int sign = a > b ? 1 : a < b ? -1 : 0;
    __CPROVER_assert(s.n >= 0 && s.n <= 2, "at most two signs");
    if (s.n == 1) __CPROVER_assert(s.s[0] == sign, "a single sign returned by compare() is the sign of a - b for every a in lhs, b in rhs");
    if (s.n == 2) __CPROVER_assert(s.s[0] == sign || s.s[1] == sign, "the signs returned by compare() include the sign of a - b");
}
void h_bounds(void) {
    /* the two blocks of fromValues that derive a bound from the smallest / largest value */
    _Bool impossible = nondet_bool(), possible = nondet_bool(), known = nondet_bool(); int bound = nondet_int(); bigint iv = nondet_bigint(); _Bool single = nondet_bool();
    __CPROVER_assume(bound >= 0 && bound <= 2 && impossible + possible + known <= 1);
    __CPROVER_assume(!known || single);     /* value-list invariant (Token::addValue, not verified): a known value is the only value selected by the predicate */
    struct Interval res; res.minvalue = opt_none(); res.maxvalue = opt_none(); _Bool returned = 0;
    fromValues_min_block(&res, impossible, possible, known, bound, iv, single, &returned);
    if (!returned) fromValues_max_block(&res, impossible, possible, known, bound, iv);
}
void h_cover(void) {
    struct Interval l, r; bigint a, b; mk_interval(&l, &a); mk_interval(&r, &b);
    struct Signs s = Interval_compare(&l, &r);
    __CPROVER_assert(!(s.n == 1 && s.s[0] == 1), "COVER: lhs > rhs decided");
    __CPROVER_assert(!(s.n == 2), "COVER: two possible signs");
    __CPROVER_assert(!(s.n == 1 && s.s[0] == 0), "COVER: equal scalars");
    struct Interval d = Interval_minus_op(&l, &r);
    __CPROVER_assert(!(l.minvalue.has && r.maxvalue.has && !d.minvalue.has), "COVER: a difference without a representable lower bound");
}
'''

REPLAY_CPP = r'''
#include "settings.h"
#include "tokenize.h"
#include "tokenlist.h"
#include "token.h"
#include "errorlogger.h"
#include "color.h"
#include <cstdio>
#include <cstdlib>
#include <string>
struct Log : ErrorLogger {
    void reportOut(const std::string &, Color) override {}
    void reportErr(const ErrorMessage &) override {}
    void reportMetric(const std::string &) override {}
};
static std::string lit(long long v) { return v == (-9223372036854775807LL - 1) ? "(-9223372036854775807LL - 1)" : "(" + std::to_string(v) + "LL)"; }
/* argv: lmin rmax a b : x >= lmin, y <= rmax; is `x > y` given a known value although a > b is false (or `x < y` ...)? */
int main(int argc, char **argv) {
    const long long lmin = atoll(argv[1]), rmax = atoll(argv[2]), a = atoll(argv[3]), b = atoll(argv[4]);
    const std::string code = "void g(void); void f(long long x, long long y) { if (x >= " + lit(lmin) + " && y <= " + lit(rmax) + ") { if (x > y) { g(); } } }";
    Settings settings; Log log;
    Tokenizer tokenizer(TokenList(settings, Standards::Language::C), log);
    tokenizer.list.appendFileIfNew("t.c");
    if (!tokenizer.list.createTokensFromBuffer(code.data(), code.size()) || !tokenizer.simplifyTokens1("")) { printf("tokenizing failed\n"); return 2; }
    printf("%s\n", code.c_str());
    for (const Token *tok = tokenizer.tokens(); tok; tok = tok->next()) {
        if (tok->str() != ">" || !tok->astOperand1() || tok->astOperand1()->str() != "x") continue;
        if (!tok->hasKnownIntValue()) { printf("x > y has no known value\n"); return 0; }
        const long long v = tok->getKnownIntValue();
        printf("x > y has the known value %lld; x = %lld, y = %lld satisfy the guards and give %d\n", v, a, b, (int)(a > b));
        return v == (long long)(a > b) ? 0 : 1;
    }
    printf("no comparison token\n"); return 2;
}
'''


def build(ctx):
    kb = KernelBuild(ID, TITLE)
    src = extract.strip_comments(extract.read("lib/infer.cpp"))
    ms = re.search(r'struct Interval \{', src)
    if not ms:
        raise extract.ExtractError("infer.cpp: struct Interval not found")
    ob = src.index('{', ms.start())
    cb = extract.match_brace(src, ob, extract.mask(src))
    body = src[ob + 1:cb]
    if not re.search(r'std::vector<MathLib::bigint> minvalue, maxvalue;\s*std::vector<const ValueFlow::Value\*> minRef, maxRef;', body):
        raise extract.ExtractError("struct Interval: members changed")
    kb.functions.append({"name": "struct Interval (setMinValue, setMaxValue, isLessThan, isGreaterThan, isScalar, minus, operator-, equal, compare, bound blocks of fromValues)",
                         "where": "lib/infer.cpp", "sha": extract.sha(body) if hasattr(extract, "sha") else "", "kind": "function"})
    n = 0

    def member(rx, what):
        m = re.search(rx, body)
        if not m:
            raise extract.ExtractError("struct Interval: %s not found" % what)
        o = body.index('{', m.end() - 1)
        c = extract.match_brace(body, o, extract.mask(body))
        return body[o:c + 1]

    refs = [
        (r'if \(ref\)\s*(?:min|max)Ref = \{ref\}\s*;', '', 0),
        (r'if \(ref\)\s*\*ref = (?:min|max)Ref\s*;', '', 0),
        (r'if \(ref\)\s*\*ref = merge\([^;]*\)\s*;', '', 0),
        (r'if \(!result\.(?:min|max)value\.empty\(\)\)\s*result\.(?:min|max)Ref = merge\([^;]*\)\s*;', '', 0),
    ]
    common = refs + [
        (r'\bthis->', 'self->', 0),
        (r'(?<![\w.>])(min|max)value\b', r'self->\1value', 0),
        (r'(\w+(?:->|\.)(?:min|max)value|\b[xy])\.empty\(\)', r'(!\1.has)', 0),
        (r'(\w+(?:->|\.)(?:min|max)value|\b[xy])\.front\(\)', r'\1.v', 0),
        (r'std::numeric_limits<bigint>::min\(\)', 'LLONG_MIN', 0),
        (r'std::numeric_limits<bigint>::max\(\)', 'LLONG_MAX', 0),
    ]

    def lower(txt, extra, what):
        nonlocal n
        t, k = extract.apply_rules(txt, extract.GENERIC + extra + common, ID + "." + what)
        n += sum(c for _, c in k)
        if re.search(r'std::|Ref\b|ValueFlow|\bref\b', extract.mask(t)):
            raise extract.ExtractError("K43 %s: not fully lowered: %r" % (what, re.findall(r'[^\n]*(?:std::|Ref\b|ValueFlow|\bref\b)[^\n]*', extract.mask(t))[:3]))
        return t

    out = []
    out.append("static void Interval_setMinValue(struct Interval *self, bigint x)\n%s\n" % lower(member(r'void setMinValue\(MathLib::bigint x, const ValueFlow::Value\* ref = nullptr\)\s*\{', "setMinValue"),
               [(r'self->minvalue = \{x\}\s*;|(?<![\w.>])minvalue = \{x\}\s*;', 'self->minvalue = opt_of(x);', 1, 1)], "setMinValue"))
    out.append("static void Interval_setMaxValue(struct Interval *self, bigint x)\n%s\n" % lower(member(r'void setMaxValue\(MathLib::bigint x, const ValueFlow::Value\* ref = nullptr\)\s*\{', "setMaxValue"),
               [(r'(?<![\w.>])maxvalue = \{x\}\s*;', 'self->maxvalue = opt_of(x);', 1, 1)], "setMaxValue"))
    out.append("static _Bool Interval_isLessThan(const struct Interval *self, bigint x)\n%s\n" % lower(member(r'bool isLessThan\(MathLib::bigint x, std::vector<const ValueFlow::Value\*>\* ref = nullptr\) const\s*\{', "isLessThan"), [], "isLessThan"))
    out.append("static _Bool Interval_isGreaterThan(const struct Interval *self, bigint x)\n%s\n" % lower(member(r'bool isGreaterThan\(MathLib::bigint x, std::vector<const ValueFlow::Value\*>\* ref = nullptr\) const\s*\{', "isGreaterThan"), [], "isGreaterThan"))
    out.append("static _Bool Interval_isScalar(const struct Interval *self)\n%s\n" % lower(member(r'bool isScalar\(\) const\s*\{', "isScalar"),
               [(r'(?<![\w.>])minvalue\.size\(\) == 1 && minvalue == maxvalue', 'self->minvalue.has && opt_eq(self->minvalue, self->maxvalue)', 1, 1)], "isScalar"))
    # subtraction of two optional bounds: Interval::minus (after the repair) or Interval::apply with std::minus
    mm = re.search(r'static std::vector<MathLib::bigint> minus\(const std::vector<MathLib::bigint>& x,\s*const std::vector<MathLib::bigint>& y\)\s*\{', body)
    if mm:
        sub = lower(member(r'static std::vector<MathLib::bigint> minus\(const std::vector<MathLib::bigint>& x,\s*const std::vector<MathLib::bigint>& y\)\s*\{', "minus"),
                    [(r'return \{\}\s*;', 'return opt_none();', 2), (r'return \{x\.front\(\) - y\.front\(\)\}\s*;', 'return opt_of(x.v - y.v);', 1, 1)], "minus")
    else:
        sub = lower(member(r'static std::vector<MathLib::bigint> apply\(const std::vector<MathLib::bigint>& x,\s*const std::vector<MathLib::bigint>& y,\s*F f\)\s*\{', "apply"),
                    [(r'return \{\}\s*;', 'return opt_none();', 2, 2), (r'return \{f\(x\.front\(\), y\.front\(\)\)\}\s*;', 'return opt_of(x.v - y.v);   /* f = std::minus<bigint> at the only call sites */', 1, 1)], "apply")
    out.append("static struct Opt Interval_sub(struct Opt x, struct Opt y)\n%s\n" % sub)
    out.append("static struct Interval Interval_minus_op(const struct Interval *lhs_p, const struct Interval *rhs_p)\n%s\n" % lower(
        member(r'friend Interval operator-\(const Interval& lhs, const Interval& rhs\)\s*\{', "operator-"),
        [(r'\bInterval result\s*;', 'struct Interval result; result.minvalue = opt_none(); result.maxvalue = opt_none(); const struct Interval lhs = *lhs_p, rhs = *rhs_p;', 1, 1),
         (r'Interval::(?:minus\(([^;]*?)\)|apply\(([^;]*?),\s*std::minus<bigint>\{\}\))\s*;', lambda mo: 'Interval_sub(%s);' % (mo.group(1) or mo.group(2)), 2, 2)], "operator-"))
    out.append("static struct Opt Interval_equal(const struct Interval *lhs_p, const struct Interval *rhs_p)\n%s\n" % lower(
        member(r'static std::vector<int> equal\(const Interval& lhs,\s*const Interval& rhs,\s*std::vector<const ValueFlow::Value\*>\* ref = nullptr\)\s*\{', "equal"),
        [(r'!lhs\.isScalar\(\)', '!Interval_isScalar(lhs_p)', 1, 1), (r'!rhs\.isScalar\(\)', '!Interval_isScalar(rhs_p)', 1, 1),
         (r'return \{\}\s*;', 'return opt_none();', 2, 2), (r'return \{lhs\.minvalue == rhs\.minvalue\}\s*;', 'return opt_of(opt_eq(lhs_p->minvalue, rhs_p->minvalue));', 1, 1)], "equal"))
    out.append("static struct Signs Interval_compare(const struct Interval *lhs_p, const struct Interval *rhs_p)\n%s\n" % lower(
        member(r'static std::vector<int> compare\(const Interval& lhs,\s*const Interval& rhs,\s*std::vector<const ValueFlow::Value\*>\* ref = nullptr\)\s*\{', "compare"),
        [(r'Interval diff = lhs - rhs\s*;', 'struct Interval diff = Interval_minus_op(lhs_p, rhs_p);', 1, 1),
         (r'\bdiff\.isGreaterThan\((-?\d+), ref\)', r'Interval_isGreaterThan(&diff, \1)', 2, 2),
         (r'\bdiff\.isLessThan\((-?\d+), ref\)', r'Interval_isLessThan(&diff, \1)', 2, 2),
         (r'std::vector<int> eq = Interval::equal\(lhs, rhs, ref\)\s*;', 'struct Opt eq = Interval_equal(lhs_p, rhs_p);', 1, 1),
         (r'!eq\.empty\(\)', 'eq.has', 1, 1), (r'\beq\.front\(\)', 'eq.v', 1, 1),
         (r'return \{\}\s*;', 'return signs0();', 1, 1),
         (r'return \{(-?\d+)\}\s*;', r'return signs1(\1);', 3),
         (r'return \{(-?\d+),\s*(-?\d+)\}\s*;', r'return signs2(\1, \2);', 3)], "compare"))
    # the bound blocks of fromValues (template): the statements guarded by `if (minValue) {` and `if (maxValue) {`
    fv = member(r'static Interval fromValues\(const std::list<ValueFlow::Value>& values, Predicate predicate\)\s*\{', "fromValues")
    def block(start_rx, what):
        m = re.search(start_rx, fv)
        if not m:
            raise extract.ExtractError("fromValues: %s not found" % what)
        o = fv.index('{', m.start())
        c = extract.match_brace(fv, o, extract.mask(fv))
        return fv[o:c + 1]
    vrules = [
        (r'\b(?:min|max)Value->isImpossible\(\)', 'impossible', 0), (r'\b(?:min|max)Value->isPossible\(\)', 'possible', 0), (r'\b(?:min|max)Value->isKnown\(\)', 'known', 0),
        (r'\b(?:min|max)Value->bound == ValueFlow::Value::Bound::(Upper|Lower|Point)', r'bound == BOUND_\1', 0),
        (r'\b(?:min|max)Value->intvalue\b', 'iv', 0),
        (r'\bresult\.setMinValue\(([^;]*?),\s*minValue\)\s*;', r'Interval_setMinValue(result, \1);', 0),
        (r'\bresult\.setMaxValue\(([^;]*?),\s*maxValue\)\s*;', r'Interval_setMaxValue(result, \1);', 0),
        (r'std::count_if\(values\.begin\(\), values\.end\(\), predicate\) == 1', 'single', 0, 1),
        (r'return Interval::fromInt\(iv, minValue\)\s*;', '{ Interval_setMinValue(result, iv); Interval_setMaxValue(result, iv); *returned = 1; return; }', 0, 1),
        (r'\bassert\(([^;]*)\)\s*;', r'__CPROVER_assert(\1, "assert in fromValues");', 0, 1),
    ]
    def lower_block(txt, what):
        nonlocal n
        t, k = extract.apply_rules(txt, extract.GENERIC + vrules + [(r'std::numeric_limits<bigint>::min\(\)', 'LLONG_MIN', 0), (r'std::numeric_limits<bigint>::max\(\)', 'LLONG_MAX', 0)], ID + "." + what)
        n += sum(c for _, c in k)
        if re.search(r'std::|Value->|ValueFlow|values|predicate', extract.mask(t)):
            raise extract.ExtractError("K43 %s: not fully lowered: %r" % (what, t[:300]))
        return t
    out.append("enum { BOUND_Upper, BOUND_Lower, BOUND_Point };\n")
    out.append("static void fromValues_min_block(struct Interval *result, _Bool impossible, _Bool possible, _Bool known, int bound, bigint iv, _Bool single, _Bool *returned)\n%s\n" % lower_block(block(r'if \(minValue\)\s*\{', "min block"), "fromValues.min"))
    out.append("static void fromValues_max_block(struct Interval *result, _Bool impossible, _Bool possible, _Bool known, int bound, bigint iv)\n%s\n" % lower_block(block(r'if \(maxValue\)\s*\{', "max block"), "fromValues.max"))
    kb.rules_fired = n
    text = _common.BASE + PRELUDE + "".join(out)
    extract.residue_scan(text, ID)
    kb.ctext = text + HARNESS
    kb.job("minus", "h_minus", replay="cmp", note="loop-free; every pair of intervals (each bound present or absent) and every pair of members")
    kb.job("compare", "h_compare", replay="cmp", note="loop-free; every pair of intervals and members")
    kb.job("bounds", "h_bounds", note="the two bound-deriving blocks of fromValues for every value kind, bound kind and value")
    kb.job("cover", "h_cover", kind="cover")
    kb.assumptions += ["std::vector<bigint> with at most one element is an optional value; minRef/maxRef (error path bookkeeping) are dropped",
                       "fromValues: only the two blocks deriving a bound from the selected value; getCompareValue (selection of the smallest / largest value) and the predicate are not verified",
                       "compare(op, ...) (the final mapping of signs to a truth value through calculate()) is not covered; calculate is under contract in K06"]

    def rp(inputs, ctx):
        if not (inputs.get("g_in_hl") and inputs.get("g_in_hR")):
            return "none", "counterexample does not have the shape `x >= lmin, y <= rmax`", ""
        args = [str(inputs.get(k, 0)) for k in ("g_in_lmin", "g_in_rmax", "g_in_a", "g_in_b")]
        rc, o, cmd = native.compile_run("replay_K43", REPLAY_CPP, args)
        return native.verdict_from_rc(rc, o), o, cmd
    kb.replayers["cmp"] = rp
    return kb
