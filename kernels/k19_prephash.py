"""K19  per-token encoding inside Preprocessor::calculateHash (lib/preprocessor.cpp).

The build-dir cache is reused iff this hash is unchanged, so the hashed bytes must
determine every token's spelling and location (property C18).  Region = the statements
that append one token to `hashData` (two textual copies: main file and cached includes).

2-safety obligations on the region (two ghost tokens):
  loc     same spelling, equal appended bytes  ==> equal (line, col)        all 2^32 line/col values
  inj     equal appended bytes                 ==> equal (str, line, col)
  prefix  bytes of t1 are a prefix of bytes of t2 ==> t1 == t2  (prefix-free => token sequences decode uniquely)
Bounded in the token-string length only (<= SMAX bytes); complete in line and column.
"""
import re

from vlib import extract, native
from vlib.kernel import KernelBuild, located_rules
from . import _common

ID = "K19"
SERVES = ["C18", "C19", "C13"]
TITLE = "Preprocessor::calculateHash: token bytes determine spelling and location"

RULES = [
    (r'\btok->str\(\)\.(?:size|length)\(\)', 'tok_str_len', 0),
    (r'hashData\s*\+=\s*tok->str\(\)\s*;', 'vout_str(hashData, tok_str, tok_str_len);', 1, 1),
    (r'\btok->location\.(line|col)\b', r'tok_\1', 2),
    (r'hashData\s*\+=\s*\(char\)\(([^;]+)\)\s*;', r'vout_ch(hashData, (char)(\1));', 0),
    (r'hashData\s*\+=\s*std::to_string\(([^;]+)\)\s*;', r'vout_dec(hashData, (\1));', 0),
    (r"hashData\s*\+=\s*('(?:\\.|[^'\\])')\s*;", r'vout_ch(hashData, \1);', 0),
]

HARNESS = r'''
#ifndef SMAX
#define SMAX 3
#endif
char g_in_s1[SMAX + 1], g_in_s2[SMAX + 1]; size_t g_in_n1, g_in_n2; unsigned g_in_l1, g_in_c1, g_in_l2, g_in_c2;
static void mk_tok(char *s, size_t *n, unsigned *l, unsigned *c) {
    *n = nondet_size_t(); __CPROVER_assume(*n >= 1 && *n <= SMAX);   /* a token has a non-empty spelling */
    for (int i = 0; i <= SMAX; i++) s[i] = nondet_char();
    *l = nondet_unsigned(); *c = nondet_unsigned();
}
static _Bool same_str(const char *a, size_t n, const char *b, size_t m) { if (n != m) return 0; for (size_t i = 0; i < SMAX; i++) if (i < n && a[i] != b[i]) return 0; return 1; }
#define RECORD() do { for (int i = 0; i <= SMAX; i++) { g_in_s1[i] = s1[i]; g_in_s2[i] = s2[i]; } g_in_n1 = n1; g_in_n2 = n2; g_in_l1 = l1; g_in_c1 = c1; g_in_l2 = l2; g_in_c2 = c2; } while (0)
#define BOTH(F) struct vout a, b; vout_init(&a); vout_init(&b); F(&a, s1, n1, l1, c1); F(&b, s2, n2, l2, c2); \
    __CPROVER_assert(!a.overflow && !b.overflow, "sink capacity suffices")
#define HARNESSES(F, TAG) \
void h_loc_##TAG(void) { char s1[SMAX + 1], s2[SMAX + 1]; size_t n1, n2; unsigned l1, c1, l2, c2; mk_tok(s1, &n1, &l1, &c1); mk_tok(s2, &n2, &l2, &c2); \
    __CPROVER_assume(same_str(s1, n1, s2, n2)); RECORD(); BOTH(F); \
    __CPROVER_assert(!vout_equal(&a, &b) || (l1 == l2 && c1 == c2), "equal hashed bytes for one spelling imply equal line and column"); } \
void h_inj_##TAG(void) { char s1[SMAX + 1], s2[SMAX + 1]; size_t n1, n2; unsigned l1, c1, l2, c2; mk_tok(s1, &n1, &l1, &c1); mk_tok(s2, &n2, &l2, &c2); RECORD(); BOTH(F); \
    __CPROVER_assert(!vout_equal(&a, &b) || (same_str(s1, n1, s2, n2) && l1 == l2 && c1 == c2), "equal hashed bytes imply equal spelling, line and column"); } \
void h_prefix_##TAG(void) { char s1[SMAX + 1], s2[SMAX + 1]; size_t n1, n2; unsigned l1, c1, l2, c2; mk_tok(s1, &n1, &l1, &c1); mk_tok(s2, &n2, &l2, &c2); RECORD(); BOTH(F); \
    __CPROVER_assert(!vout_is_prefix(&a, &b) || (same_str(s1, n1, s2, n2) && l1 == l2 && c1 == c2), "token encoding is prefix-free (token sequences decode uniquely)"); } \
void h_cover_##TAG(void) { char s1[SMAX + 1], s2[SMAX + 1]; size_t n1, n2; unsigned l1, c1, l2, c2; mk_tok(s1, &n1, &l1, &c1); mk_tok(s2, &n2, &l2, &c2); BOTH(F); \
    __CPROVER_assert(!(vout_equal(&a, &b)), "COVER: two tokens can hash to equal bytes (at least identical tokens)"); \
    __CPROVER_assert(!(!vout_equal(&a, &b) && l1 != l2), "COVER: tokens on different lines can differ"); }
HARNESSES(hash_token_0, 0)
HARNESSES(hash_token_1, 1)
/* lemma behind the abstract renderer vout_dec: a decimal digit string (Horner value) determines its value */
void h_dec_lemma(void) {
    unsigned n1 = nondet_unsigned(), n2 = nondet_unsigned(); __CPROVER_assume(n1 >= 1 && n1 <= 10 && n2 >= 1 && n2 <= 10);
    unsigned char d1[10], d2[10]; unsigned long long v1 = 0, v2 = 0; _Bool same = (n1 == n2);
    for (unsigned i = 0; i < 10; i++) {
        d1[i] = nondet_uchar(); d2[i] = nondet_uchar(); __CPROVER_assume(d1[i] <= 9 && d2[i] <= 9);
        if (i < n1) v1 = v1 * 10 + d1[i];
        if (i < n2) v2 = v2 * 10 + d2[i];
        if (i < n1 && i < n2 && d1[i] != d2[i]) same = 0;
    }
    __CPROVER_assert(!same || v1 == v2, "equal decimal digit strings denote equal values");
}
'''

REPLAY_CPP = r'''
#include "preprocessor.h"
#include "settings.h"
#include "errorlogger.h"
#include "standards.h"
#include <simplecpp.h>
#include <cstdio>
#include <cstdlib>
#include <sstream>
#include <string>
#include <vector>
struct NullLogger : ErrorLogger {
    void reportOut(const std::string&, Color) override {}
    void reportErr(const ErrorMessage&) override {}
    void reportMetric(const std::string&) override {}
};
static std::size_t hashOf(const std::string &code, std::string &dump) {
    std::vector<std::string> files; std::istringstream in(code);
    simplecpp::TokenList tokens(in, files, "t.c");
    for (const simplecpp::Token *t = tokens.cfront(); t; t = t->next) { dump += t->str() + "@" + std::to_string(t->location.line) + ":" + std::to_string(t->location.col) + " "; }
    Settings s; NullLogger log;
    Preprocessor p(tokens, s, log, Standards::Language::C);
    return p.calculateHash("");
}
/* two one-token files: identifier tokens placed at (line,col) by blank lines / spaces */
int main(int argc, char **argv) {
    unsigned l1 = strtoul(argv[1], 0, 10), c1 = strtoul(argv[2], 0, 10), l2 = strtoul(argv[3], 0, 10), c2 = strtoul(argv[4], 0, 10);
    if (l1 == 0) l1 = 1; if (l2 == 0) l2 = 1; if (c1 == 0) c1 = 1; if (c2 == 0) c2 = 1;
    if (l1 > 3000000 || l2 > 3000000 || c1 > 3000000 || c2 > 3000000) { l1 = 1 + l1 % 65536; l2 = l1 + 256 * (1 + (l2 % 7)); c1 = c2 = 1; }
    std::string a = std::string(l1 - 1, '\n') + std::string(c1 - 1, ' ') + "x\n", b = std::string(l2 - 1, '\n') + std::string(c2 - 1, ' ') + "x\n";
    std::string da, db; std::size_t ha = hashOf(a, da), hb = hashOf(b, db);
    printf("file A tokens: %s hash=%zx\nfile B tokens: %s hash=%zx\n", da.c_str(), ha, db.c_str(), hb);
    if (da != db && ha == hb) { printf("different token locations, same Preprocessor::calculateHash -> cached results would be reused\n"); return 1; }
    return 0;
}
'''


def build(ctx):
    kb = KernelBuild(ID, TITLE)
    out = [_common.BASE, '#include "vout.h"\n']
    n = 0
    fsig = r'^std::size_t Preprocessor::calculateHash\s*\('
    for occ in (0, 1):
        # the region is the body of `if (!tok->comment) { ... }`
        f = extract.locate_function("lib/preprocessor.cpp", fsig)
        mb = extract.mask(f.text, keep_strings=True)
        heads = list(re.finditer(r'if\s*\(\s*!tok->comment\s*\)\s*\{', mb))
        if len(heads) != 2:
            raise extract.ExtractError("Preprocessor::calculateHash: expected 2 `if (!tok->comment) {` blocks, found %d" % len(heads))
        ob = heads[occ].end() - 1
        cb = extract.match_brace(f.text, ob, mb)
        full = extract.read("lib/preprocessor.cpp")
        reg = extract.Located("lib/preprocessor.cpp", f.text[ob + 1:cb], f.start + ob + 1, f.start + cb, full)
        kb.add_located("Preprocessor::calculateHash [per-token block %d]" % occ, reg, "region")
        t, k = located_rules(reg, RULES, ID + ".block%d" % occ); n += k
        if re.search(r'hashData\s*(\+=|=|\.)', extract.mask(t)):
            raise extract.ExtractError("K19 block %d: an append to hashData was not lowered: %r" % (occ, t.strip()[:200]))
        out.append("void hash_token_%d(struct vout *hashData, const char *tok_str, size_t tok_str_len, unsigned tok_line, unsigned tok_col)\n{\n%s\n}\n" % (occ, t))
    # header of the function: everything between `std::string hashData = toolinfo;` and the first token loop
    hreg = extract.locate_region("lib/preprocessor.cpp", fsig, r'std::string\s+hashData\s*=\s*toolinfo\s*;', r'for\s*\(\s*const\s+simplecpp::Token', include_end=False, expect=1)
    kb.add_located("Preprocessor::calculateHash [header: language]", hreg, "region")
    ht, k = located_rules(hreg, [
        (r'std::string\s+hashData\s*=\s*toolinfo\s*;', '', 1, 1),
        (r'hashData\s*\+=\s*std::to_string\(\(uint8_t\)\(mLang\)\)\s*;', 'vout_dec_small(hashData, (unsigned long long)((uint8_t)(mLang)));', 0, 1),
        (r"hashData\s*\+=\s*('(?:\\.|[^'\\])')\s*;", r'vout_ch(hashData, \1);', 0),
    ], ID + ".header"); n += k
    if re.search(r'hashData\s*(\+=|=|\.)', extract.mask(ht)):
        raise extract.ExtractError("K19 header: an append to hashData was not lowered: %r" % ht.strip()[:200])
    out.append("void hash_header(struct vout *hashData, unsigned mLang)\n{\n%s\n}\n" % extract.strip_comments(ht))
    kb.rules_fired = n
    text = "".join(out)
    extract.residue_scan(text, ID)
    kb.ctext = text + HARNESS + r'''
/* the language a file is analysed as (--language / extension) must reach the hashed bytes (property C19) */
unsigned g_in_lang1, g_in_lang2;
void h_lang(void) {
    unsigned l1 = nondet_unsigned(), l2 = nondet_unsigned(); __CPROVER_assume(l1 < 256 && l2 < 256 && l1 != l2);   /* Standards::Language : uint8_t */
    g_in_lang1 = l1; g_in_lang2 = l2;
    struct vout a, b; vout_init(&a); vout_init(&b); hash_header(&a, l1); hash_header(&b, l2);
    __CPROVER_assert(!a.overflow && !b.overflow, "sink capacity suffices");
    __CPROVER_assert(!vout_equal(&a, &b) && !vout_is_prefix(&a, &b), "different languages give different, prefix-free header bytes");
}
'''
    j = kb.job("lang", "h_lang", kind="bounded", unwind=50, note="all 256 values of the uint8_t language enum; loops fully unwound (complete)")
    j.props = ["C19"]
    for occ in (0, 1):
        for nm in ("loc", "inj", "prefix"):
            kb.job("%s.%d" % (nm, occ), "h_%s_%d" % (nm, occ), kind="bounded", unwind=50, replay="hash", timeout=600, props=["C18", "C13"], flags=["--sat-solver", "minisat2"],
                   note="token spelling 1..3 bytes (all byte values), line and column all 2^32 values; loops fully unwound")
        kb.job("cover.%d" % occ, "h_cover_%d" % occ, kind="cover", unwind=50, props=["C18", "C13"], flags=["--sat-solver", "minisat2"], timeout=900)
    kb.job("dec.lemma", "h_dec_lemma", kind="bounded", unwind=12, flags=["--sat-solver", "cadical"], timeout=600,
           note="digit strings of length <= 10 (every 32-bit value); lemma instantiated by the abstract renderer vout_dec")
    kb.assumptions += ["std::to_string(unsigned) is modelled by prelude/vout.h vout_dec: 1..20 decimal digits, no leading zero, "
                       "equal digit strings <=> equal values (=> is lemma job dec.lemma; <= says to_string is a function); values < 2^32 have <= 10 digits"]
    kb.assumptions += ["region interface: one token = (str, location.line, location.col); comments are skipped by the surrounding `if`",
                       "std::string += lowered to a 48-byte recording sink (overflow asserted absent); std::to_string lowered to vout_dec (decimal digits specified by sum d[i]*10^i == v, no division)",
                       "std::hash<std::string> collisions are outside the claim (the obligation is on the hashed bytes)"]

    def rp(inputs, ctx):
        a = [inputs.get(k, 1) for k in ("g_in_l1", "g_in_c1", "g_in_l2", "g_in_c2")]
        rc, o, cmd = native.compile_run("replay_K19", REPLAY_CPP, a)
        return native.verdict_from_rc(rc, o), o, cmd
    kb.replayers["hash"] = rp
    return kb
