"""K26  Token::tokType(Type) (lib/token.h), Token::update_property_info and update_property_isStandardType (lib/token.cpp):
the token invariants that the match compiler (tools/matchcompiler.py) and K24 rely on.

1. setter contract: after tokType(t) the type is t and the memoised flags fIsName / fIsLiteral are exactly the documented type
   sets - this is the invariant `fIsName == (type is a name type)` that K24 assumes.
2. table check: tools/matchcompiler.py guards every literal comparison with a token-type test taken from its table `tokTypes`
   (spelling -> list of types).  The interpreter compares spellings only, so the compiled matcher agrees with it only if a token
   with that spelling ALWAYS has one of the listed types.  For every spelling of the table, update_property_info() is run on a
   token with that spelling and arbitrary other state (varId, link, language, and the keyword oracle as far as lib/keywords.cpp
   allows for that spelling); the resulting type must be in the table's list.

Oracles: mList.isKeyword(str) (constrained per spelling by the keyword sets parsed from lib/keywords.cpp and the exceptions in
TokenList::isKeyword), isStringLiteral / isCharLiteral (true only for spellings ending in the quote), MathLib::isInt/isFloat,
the controlFlowKeywords lookup.  Later passes that change token types (enumerators, functions, lambdas, typedef'd types) are
not covered.
"""
import importlib
import os
import re
import sys

from vlib import extract, native
from vlib.kernel import KernelBuild, located_rules
from . import _common

ID = "K26"
SERVES = ["C33", "C13"]
TITLE = "token type and flags after update_property_info: the match compiler's type table holds"

PRELUDE = r'''
#include "vstr.h"
struct Tok { const char *mStr; size_t mStrLen; int mVarId; _Bool mIsCpp; const void *mLink; enum TokType mTokType; uint64_t mFlags; _Bool kw; };
static inline void Token_setFlag(struct Tok *self, uint64_t flag_, _Bool state_) { self->mFlags = state_ ? self->mFlags | flag_ : self->mFlags & ~flag_; }
static _Bool vstr_has_any(const char *s, size_t n, const char *set) { for (size_t i = 0; i < 8; i++) if (i < n) for (size_t q = 0; set[q] != 0; q++) if (s[i] == set[q]) return 1; return 0; }
/* oracles */
static _Bool nondet_quoted(const struct Tok *t, char q) { _Bool b = nondet_bool(); __CPROVER_assume(!b || (t->mStrLen >= 2 && t->mStr[t->mStrLen - 1] == q)); return b; }
'''

SETTER_CONTRACT = r'''
__CPROVER_requires(__CPROVER_is_fresh(self, sizeof(*self)))
__CPROVER_assigns(self->mTokType, self->mFlags)
__CPROVER_ensures(self->mTokType == t)
__CPROVER_ensures(((self->mFlags & fIsName) != 0) == NAME_TYPE(t))
__CPROVER_ensures(((self->mFlags & fIsLiteral) != 0) == LITERAL_TYPE(t))
__CPROVER_ensures((self->mFlags & ~(fIsName | fIsLiteral)) == (__CPROVER_old(self->mFlags) & ~(fIsName | fIsLiteral)))
'''

REPLAY_CPP = r'''
#include "settings.h"
#include "tokenize.h"
#include "tokenlist.h"
#include "token.h"
#include "errorlogger.h"
#include "color.h"
#include "standards.h"
#include <cstdio>
#include <cstdlib>
#include <cstring>
#include <string>
struct Log : ErrorLogger {
    void reportOut(const std::string &, Color) override {}
    void reportErr(const ErrorMessage &) override {}
    void reportMetric(const std::string &) override {}
};
/* argv: spelling, cpp(0/1), c-standard name, then the type numbers the table lists.  Tokenises a declaration that uses the spelling as an
   identifier and reports the type of that token after the tokenizer ran. */
int main(int argc, char **argv) {
    const std::string w = argv[1]; const bool cpp = atoi(argv[2]) != 0;
    Settings settings; settings.standards.setC(argv[3]);
    Log log;
    Tokenizer tokenizer(TokenList(settings, cpp ? Standards::Language::CPP : Standards::Language::C), log);
    tokenizer.list.appendFileIfNew(cpp ? "t.cpp" : "t.c");
    const std::string code = "int f(int a) { int " + w + " = a; return " + w + " + 1; }";
    if (!tokenizer.list.createTokensFromBuffer(code.data(), code.size()) || !tokenizer.simplifyTokens1("")) { printf("tokenizing failed: %s\n", code.c_str()); return 2; }
    for (const Token *tok = tokenizer.tokens(); tok; tok = tok->next()) {
        if (tok->str() != w) continue;
        bool listed = false;
        for (int i = 4; i < argc; i++) if ((int)tok->tokType() == atoi(argv[i])) listed = true;
        printf("%s (%s, --std=%s): token '%s' has type %d, the match compiler's table %s it: a compiled pattern word '%s' %s this token, Token::Match(tok, \"%s\") is %d\n",
               code.c_str(), cpp ? "C++" : "C", argv[3], w.c_str(), (int)tok->tokType(), listed ? "lists" : "does not list", w.c_str(), listed ? "accepts" : "rejects", w.c_str(), (int)Token::Match(tok, w.c_str()));
        return listed ? 0 : 1;
    }
    printf("no token %s\n", w.c_str()); return 2;
}
'''


def keyword_sets():
    """keyword macro lists of lib/keywords.cpp -> (set of C keywords in every C standard, in some; same for C++)"""
    src = extract.strip_comments(extract.read("lib/keywords.cpp"))
    macros = {}
    for mo in re.finditer(r'#define\s+(\w+_KEYWORDS)\s*((?:\\\n|[^\n])*)', src):
        macros[mo.group(1)] = set(re.findall(r'"([^"]*)"', mo.group(2)))
    sets = {}
    for mo in re.finditer(r'static const std::unordered_set<std::string>\s+(\w+)_keywords_all\s*=\s*\{([^}]*)\}', src):
        s = set()
        for m in re.findall(r'\b(\w+_KEYWORDS)\b', mo.group(2)):
            if m not in macros:
                raise extract.ExtractError("keywords.cpp: macro %s not found" % m)
            s |= macros[m]
        sets[mo.group(1)] = s
    c = [v for k, v in sets.items() if re.match(r'^c\d', k)]
    cpp = [v for k, v in sets.items() if k.startswith("cpp")]
    if len(c) < 4 or len(cpp) < 4:
        raise extract.ExtractError("keywords.cpp: keyword sets not found (%s)" % sorted(sets))
    isk = extract.strip_comments(extract.locate_function("lib/tokenlist.cpp", r'^bool TokenList::isKeyword\s*\(').text)
    exc_cpp = re.search(r'cpp_types\s*=\s*\{([^}]*)\}', isk)
    exc_c = re.search(r'c_types\s*=\s*\{([^}]*)\}', isk)
    if not (exc_cpp and exc_c):
        raise extract.ExtractError("TokenList::isKeyword: exception sets not found")
    ec, ecpp = set(re.findall(r'"([^"]*)"', exc_c.group(1))), set(re.findall(r'"([^"]*)"', exc_cpp.group(1)))
    c_all = set.intersection(*c) - ec
    c_some = set.union(*c) - ec
    cpp_all = set.intersection(*cpp) - ecpp
    cpp_some = set.union(*cpp) - ecpp
    return c_all, c_some, cpp_all, cpp_some


def build(ctx):
    kb = KernelBuild(ID, TITLE)
    n = 0
    tt, tt_names = extract.enum_list("lib/token.h", r'enum\s+Type\s*:\s*std::uint8_t\s*\{\s*eVariable', "Token_")
    th = extract.strip_comments(extract.read("lib/token.h"))
    fl = {}
    for nm in ("fIsName", "fIsLiteral", "fIsStandardType", "fIsLong", "fIsControlFlowKeyword"):
        mo = re.search(r'\b%s\s*=\s*\(\s*1ULL\s*<<\s*(\d+)\s*\)' % nm, th)
        if not mo:
            raise extract.ExtractError("token.h: flag %s not found" % nm)
        fl[nm] = int(mo.group(1))
    if not re.search(r'void setFlag\(uint64_t flag_, bool state_\)\s*\{\s*mFlags = state_ \? mFlags \| flag_ : mFlags & ~flag_;\s*\}', th):
        raise extract.ExtractError("token.h: setFlag is no longer `mFlags = state_ ? mFlags | flag_ : mFlags & ~flag_`")
    erule = (r'(?<![\w>])(e[A-Z]\w*)\b', r'Token_\1', 0)
    # --- setter
    ls = extract.locate_function("lib/token.h", r'^\s*void\s+tokType\s*\(\s*Token::Type\s+t\s*\)')
    kb.add_located("Token::tokType(Type)", ls)
    ts, k = located_rules(ls, [
        (r'^\s*void\s+tokType\s*\(\s*Token::Type\s+t\s*\)', 'void Token_setTokType(struct Tok *self, enum TokType t)', 1, 1),
        (r'\bsetFlag\(', 'Token_setFlag(self, ', 2, 2),
        (r'\bmTokType\b', 'self->mTokType', 3),
        erule,
    ], ID + ".tokType"); n += k
    sig, body = extract.body_of(ts)
    src_setter = extract.strip_comments(ls.text)
    mn = re.search(r'const bool memoizedIsName\s*=\s*\(([^;]*?)\)\s*;', src_setter, re.S)
    ml = re.search(r'const bool memoizedIsLiteral\s*=\s*\(([^;]*?)\)\s*;', src_setter, re.S)
    if not (mn and ml):
        raise extract.ExtractError("Token::tokType(t): memoised sets not found")
    # the contract's sets are the DOCUMENTED ones (token.h comments / Token::isName users), written here independently of the code
    name_types = ["eName", "eType", "eVariable", "eFunction", "eKeyword", "eBoolean", "eEnumerator"]
    lit_types = ["eNumber", "eString", "eChar", "eBoolean", "eLiteral", "eEnumerator"]
    macros = ("#define NAME_TYPE(tt) (%s)\n#define LITERAL_TYPE(tt) (%s)\n" %
              (" || ".join("(tt) == Token_%s" % x for x in name_types), " || ".join("(tt) == Token_%s" % x for x in lit_types)))
    setter = "%s\n#ifndef NOCONTRACT\n%s#endif\n%s\n" % (sig, SETTER_CONTRACT, body)
    # --- isStandardType(str): the static set
    tc = extract.strip_comments(extract.read("lib/token.cpp"))
    ms = re.search(r'static const std::unordered_set<std::string> stdTypes\s*=\s*\{([^}]*)\}', tc)
    mf = re.search(r'bool Token::isStandardType\(const std::string& s\)\s*\{\s*return stdTypes\.find\(s\) != stdTypes\.end\(\);\s*\}', tc)
    if not (ms and mf):
        raise extract.ExtractError("token.cpp: stdTypes / Token::isStandardType(str) not found in the expected shape")
    std_types = re.findall(r'"([^"]*)"', ms.group(1))
    stdfn = "static _Bool std_type_name(const char *s, size_t n) { return %s; }\n" % " || ".join('vstr_eq(s, n, "%s")' % x for x in std_types)
    # --- isNumberLike
    sh = extract.strip_comments(extract.read("externals/simplecpp/simplecpp.h"))
    mnl = re.search(r'static bool isNumberLike\(const std::string& str\)\s*\{\s*return\s+([^;]*);\s*\}', sh)
    if not mnl:
        raise extract.ExtractError("simplecpp.h: isNumberLike not found")
    nl, k2 = extract.apply_rules(mnl.group(1), extract.GENERIC + [(r'\bstr\.size\(\)', 'n', 1), (r'\bstr\[', 's[', 3)], ID + ".isNumberLike"); n += sum(c for _, c in k2)
    nlfn = "static _Bool isNumberLike(const char *s, size_t n) { return %s; }\n" % nl
    kb.functions.append({"name": "simplecpp::Token::isNumberLike", "where": "externals/simplecpp/simplecpp.h", "sha": "", "kind": "function"})
    # --- member lowering shared by the two update functions
    member = [
        (r'\bassert\(mImpl\)\s*;', '', 0, 1),
        (r'\bassert\(([^;]*)\)\s*;', r'__CPROVER_assert(\1, "assert in update_property_info");', 0, 1),
        (r'\bsetFlag\(', 'Token_setFlag(self, ', 0),
        (r'\bisStandardType\((true|false)\)\s*;', r'Token_setFlag(self, fIsStandardType, \1);', 1),
        (r'\bisStandardType\(mStr\)', 'std_type_name(self->mStr, self->mStrLen)', 0, 1),
        (r'\bisLong\(isPrefixStringCharLiteral\(mStr,\s*\'(?:[^\'\\]|\\.)\',\s*"L"\)\)\s*;', 'Token_setFlag(self, fIsLong, nondet_bool());', 0, 2),
        (r'\bisStringLiteral\(mStr\)', 'nondet_quoted(self, \'"\')', 0, 1),
        (r'\bisCharLiteral\(mStr\)', "nondet_quoted(self, '\\'')", 0, 1),
        (r'\bmList\.isKeyword\(mStr\)', 'self->kw', 0, 1),
        (r'\bcontrolFlowKeywords\.find\(mStr\)\s*!=\s*controlFlowKeywords\.end\(\)', 'nondet_bool()', 0, 1),
        (r'\bsimplecpp::Token::isNumberLike\(mStr\)', 'isNumberLike(self->mStr, self->mStrLen)', 0, 1),
        (r'\(MathLib::isInt\(mStr\)\s*\|\|\s*MathLib::isFloat\(mStr\)\)', 'nondet_bool()', 0, 1),
        (r"\bmStr\.find\('_'\)\s*==\s*std::string::npos", '!vstr_has_any(self->mStr, self->mStrLen, "_")', 0, 1),
        (r'\bmStr\.find_first_of\(("(?:[^"\\]|\\.)*")\)\s*!=\s*std::string::npos', r'vstr_has_any(self->mStr, self->mStrLen, \1)', 0),
        (r'!mStr\.empty\(\)', '(self->mStrLen != 0)', 0, 1),
        (r'\bmStr\.size\(\)', 'self->mStrLen', 0),
        (r'\bmStr\s*==\s*("(?:[^"\\]|\\.)*")', r'vstr_eq(self->mStr, self->mStrLen, \1)', 0),
        (r'\bmStr\[', 'self->mStr[', 0),
        (r'\bthrow InternalError\([^;]*\)\s*;', '{ VERIF_THROW(); return; }', 0),
        (r'\bupdate_property_isStandardType\(\)', 'Token_update_property_isStandardType(self)', 0),
        (r'\btokType\(', 'Token_setTokType(self, ', 0),
        (r'\bmImpl->mVarId\b', 'self->mVarId', 0),
        (r'\bmIsCpp\b', 'self->mIsCpp', 0),
        (r'\bmLink\b', 'self->mLink', 0),
        (r'\bmTokType\b', 'self->mTokType', 0),
        erule,
    ]
    lu = extract.locate_function("lib/token.cpp", r'^void Token::update_property_isStandardType\s*\(\s*\)')
    kb.add_located("Token::update_property_isStandardType", lu)
    tu, k = located_rules(lu, [(r'^void Token::update_property_isStandardType\s*\(\s*\)', 'static void Token_update_property_isStandardType(struct Tok *self)', 1, 1)] + member, ID + ".isStandardType"); n += k
    lp = extract.locate_function("lib/token.cpp", r'^void Token::update_property_info\s*\(\s*\)')
    kb.add_located("Token::update_property_info", lp)
    tp, k = located_rules(lp, [(r'^void Token::update_property_info\s*\(\s*\)', 'static void Token_update_property_info(struct Tok *self)', 1, 1)] + member, ID + ".update_property_info"); n += k
    for what, txt in (("update_property_isStandardType", tu), ("update_property_info", tp)):
        if re.search(r'(?<!->)\bmStr\b|\bmImpl\b|\bmList\b|std::string|MathLib|simplecpp', extract.mask(txt)):
            raise extract.ExtractError("K26: %s not fully lowered: %r" % (what, re.findall(r'[^\n]*(?:(?<!->)\bmStr\b|\bmImpl\b|\bmList\b|std::string|MathLib|simplecpp)[^\n]*', extract.mask(txt))[:3]))
    kb.rules_fired = n
    # --- the match compiler's table
    sys.path.insert(0, os.path.join(extract.REPO, "tools"))
    try:
        mcmod = importlib.import_module("matchcompiler")
        importlib.reload(mcmod)
        table = dict(mcmod.tokTypes)
    finally:
        sys.path.pop(0)
    if len(table) < 40:
        raise extract.ExtractError("tools/matchcompiler.py: tokTypes has only %d entries" % len(table))
    c_all, c_some, cpp_all, cpp_some = keyword_sets()
    blocks = []
    for i, (sp, tys) in enumerate(sorted(table.items())):
        if '"' in sp or '\\' in sp or len(sp) > 8:
            raise extract.ExtractError("matchcompiler tokTypes: unexpected spelling %r" % sp)
        for ty in tys:
            if "Token_" + ty not in tt_names and ty not in " ".join(tt_names):
                raise extract.ExtractError("matchcompiler tokTypes: unknown type %s" % ty)
        kwc = "1" if sp in c_all else ("nondet_bool()" if sp in c_some else "0")
        kwp = "1" if sp in cpp_all else ("nondet_bool()" if sp in cpp_some else "0")
        blocks.append('    if (which == %d) { static char sp[] = "%s"; mk_tok(&t, sp, %d, %s, %s); Token_update_property_info(&t); '
                      'if (!verif_thrown) __CPROVER_assert(%s, "a token spelled %s has one of the types the match compiler lists for it (%s)"); }'
                      % (i, sp, len(sp), kwc, kwp, " || ".join("t.mTokType == Token_%s" % ty for ty in tys), sp.replace("%", "%%"), " ".join(tys)))
    harness = (r'''
int g_in_which, g_in_varid, g_in_cpp, g_in_link, g_in_kw, g_in_type;
static void mk_tok(struct Tok *t, char *sp, size_t len, _Bool kw_c, _Bool kw_cpp) {
    t->mStr = sp; t->mStrLen = len; t->mVarId = nondet_int(); t->mIsCpp = nondet_bool(); t->mLink = nondet_bool() ? (const void *)t : NULL;
    t->mTokType = (enum TokType)nondet_int(); t->mFlags = nondet_biguint();
    __CPROVER_assume(t->mVarId >= 0 && t->mTokType >= 0 && t->mTokType <= Token_eNone);
    /* token-list invariants that are not update_property_info's to establish: only names carry a variable id, only brackets carry a link */
    if (!(isalpha((unsigned char)sp[0]) || sp[0] == '_')) t->mVarId = 0;
    if (!(len == 1 && (sp[0] == '(' || sp[0] == ')' || sp[0] == '[' || sp[0] == ']' || sp[0] == '{' || sp[0] == '}' || sp[0] == '<' || sp[0] == '>'))) t->mLink = NULL;
    t->kw = t->mIsCpp ? kw_cpp : kw_c;
    if (t->kw) t->mVarId = 0;          /* a keyword of the selected language standard is never a variable */
    if (len == 3 && sp[0] == 'a' && sp[1] == 's' && sp[2] == 'm') t->mVarId = 0;   /* `asm` is in no keyword list but never gets a variable id (observed: `int asm = a;` leaves it a keyword token) */
    g_in_varid = t->mVarId; g_in_cpp = t->mIsCpp; g_in_link = t->mLink != NULL; g_in_kw = t->kw;
}
void h_table(void) {
    struct Tok t; int which = nondet_int(); __CPROVER_assume(which >= 0 && which < %d); g_in_which = which; verif_thrown = 0;
%s
    g_in_type = t.mTokType;
}
void h_setter(void) { struct Tok *p; (void)Token_setTokType(p, (enum TokType)nondet_int()); }
void h_cover(void) {
    struct Tok t; static char a[] = "<"; static char b[] = "foo"; verif_thrown = 0;
    mk_tok(&t, a, 1, 0, 0); Token_update_property_info(&t);
    __CPROVER_assert(!(t.mTokType == Token_eBracket), "COVER: < with a link is a bracket");
    __CPROVER_assert(!(t.mTokType == Token_eComparisonOp), "COVER: < without a link is a comparison");
    mk_tok(&t, b, 3, 0, 0); Token_update_property_info(&t);
    __CPROVER_assert(!(t.mTokType == Token_eVariable), "COVER: a name with a varId is a variable");
    __CPROVER_assert(!(t.mTokType == Token_eName && (t.mFlags & fIsName)), "COVER: a plain name");
}
''' % (len(blocks), "\n".join(blocks)))
    text = (_common.BASE + "enum TokType %s;\n" % tt + "".join("#define %s (1ULL << %d)\n" % (k_, v) for k_, v in fl.items()) + PRELUDE + macros +
            setter + stdfn + nlfn + tu + "\n" + tp + "\n")
    extract.residue_scan(text, ID)
    kb.ctext = text + harness
    kb.job("setter", "h_setter", enforce="Token_setTokType", note="tokType(t): type and memoised flags, frame on the other flags")
    kb.job("table", "h_table", kind="bounded", unwind=12, defines=["NOCONTRACT"], replay="table", timeout=600,
           note="every spelling of tools/matchcompiler.py tokTypes (%d), arbitrary varId / link / language, keyword oracle as allowed by lib/keywords.cpp" % len(blocks))
    kb.job("cover", "h_cover", kind="cover", unwind=12, defines=["NOCONTRACT"])
    kb.assumptions += ["oracles: mList.isKeyword (constrained per spelling by the keyword sets of lib/keywords.cpp and the exceptions of TokenList::isKeyword, parsed on every run), isStringLiteral/isCharLiteral (true only for spellings ending in the quote character), MathLib::isInt/isFloat, controlFlowKeywords",
                       "passes that change a token's type after update_property_info (enumerators, functions, lambdas, typedef names) are not covered",
                       "the documented name/literal type sets in the setter's contract are written in the kernel (token.h comments)"]
    kb.trusted += ["tools/matchcompiler.py is imported (python3) to read its tokTypes table"]
    spellings = [sp for sp, _ in sorted(table.items())]
    tyno = dict((nm.replace("Token_", ""), i) for i, nm in enumerate(tt_names))

    def rp(inputs, ctx):
        w = int(inputs.get("g_in_which", 0) or 0)
        if not (0 <= w < len(spellings)):
            return "none", "no spelling index in the counterexample", ""
        sp = spellings[w]
        if not re.match(r'^[A-Za-z_]\w*$', sp):
            return "none", "spelling %r is not an identifier: no source-level replay" % sp, ""
        cpp = int(inputs.get("g_in_cpp", 0) or 0)
        std = "c89" if not int(inputs.get("g_in_kw", 0) or 0) else "c11"
        nums = [str(tyno[t]) for t in table[sp] if t in tyno]
        rc, o, cmd = native.compile_run("replay_K26", REPLAY_CPP, [sp, str(cpp), std] + nums)
        return native.verdict_from_rc(rc, o), o, cmd
    kb.replayers["table"] = rp
    return kb
