"""K38  arithmetic of `#if` constant folding in simplecpp (externals/simplecpp/simplecpp.cpp):
the result computations of TokenList::constFoldMulDivRem, constFoldAddSub and constFoldShift.

Any byte sequence may put any two 64-bit numbers around an operator of an `#if` expression, so property C13 (no
undefined behaviour in cppcheck's own code on any input) needs these computations to be defined for ALL operand
pairs - or to be refused with the exception that is reported as "failed to evaluate #if condition".
Regions: the `long long result; if (...) ... else continue;` blocks; stringToLL(previous/next) are the operands.
"""
import re

from vlib import extract, native
from vlib.kernel import KernelBuild, located_rules
from . import _common

ID = "K38"
SERVES = ["C13"]
TITLE = "#if constant folding: * / % + - << >> are defined for every operand pair or refused"

HARNESS = r'''
#include "vstr.h"
bigint g_in_lhs, g_in_rhs; int g_in_op;
void h_muldivrem(void) { bigint l = nondet_bigint(), r = nondet_bigint(); char op = nondet_char(); __CPROVER_assume(op == '*' || op == '/' || op == '%'); g_in_lhs = l; g_in_rhs = r; g_in_op = op;
    _Bool folded = 1; verif_thrown = 0; bigint res = fold_muldivrem(op, l, r, &folded);
    if (folded && !verif_thrown && op == '/') __CPROVER_assert(res == l / r, "quotient as in C");
    if (folded && !verif_thrown && op == '%') __CPROVER_assert(res == l % r, "remainder as in C");
    __CPROVER_assert(!((op == '/' || op == '%') && r == 0) || verif_thrown, "division by zero is refused"); }
void h_addsub(void) { bigint l = nondet_bigint(), r = nondet_bigint(); char op = nondet_char(); __CPROVER_assume(op == '+' || op == '-'); g_in_lhs = l; g_in_rhs = r; g_in_op = op;
    _Bool folded = 1; verif_thrown = 0; bigint res = fold_addsub(op, l, r, &folded);
    if (folded && !verif_thrown) __CPROVER_assert((biguint)res == (op == '+' ? (biguint)l + (biguint)r : (biguint)l - (biguint)r), "sum / difference modulo 2^64 (the value a compiler's preprocessor gives, with or without a warning)"); }
void h_shift(void) { bigint l = nondet_bigint(), r = nondet_bigint(); _Bool left = nondet_bool(); g_in_lhs = l; g_in_rhs = r; g_in_op = left;
    _Bool folded = 1; verif_thrown = 0; bigint res = fold_shift(left ? "<<" : ">>", 2, l, r, &folded);
    if (folded && !verif_thrown && r >= 0 && r < 64 && !left) __CPROVER_assert(res == (l >> r), "arithmetic right shift");
    if (folded && !verif_thrown && r >= 0 && r < 64 && left) __CPROVER_assert((biguint)res == ((biguint)l << r), "left shift modulo 2^64"); }
void h_cover(void) { _Bool f = 1; verif_thrown = 0; bigint r = fold_muldivrem('/', nondet_bigint(), nondet_bigint(), &f);
    __CPROVER_assert(!(verif_thrown), "COVER: a division is refused"); __CPROVER_assert(!(!verif_thrown && f && r == 7), "COVER: a division is folded"); }
'''

REPLAY_CPP = r'''
#include "@REPO@/externals/simplecpp/simplecpp.cpp"
#include <cstdio>
#include <cstdlib>
#include <sstream>
int main(int argc, char **argv) {
    std::string expr = std::string("#if ") + argv[1] + " " + argv[2] + " " + argv[3] + "\nint x;\n#endif\n";
    std::vector<std::string> files; std::istringstream in(expr); simplecpp::OutputList outputList;
    simplecpp::TokenList raw(in, files, "t.c", &outputList), out(files);
    simplecpp::FileDataCache included; simplecpp::DUI dui;
    printf("preprocessing: %s", expr.c_str());
    simplecpp::preprocess(out, raw, files, included, dui, &outputList);
    for (const simplecpp::Output &o : outputList) printf("simplecpp output: %s\n", o.msg.c_str());
    printf("no undefined behaviour observed\n");
    return 0;
}
'''


def region(fname, kb):
    f = extract.locate_function("externals/simplecpp/simplecpp.cpp", r'^void simplecpp::TokenList::%s\s*\(' % fname)
    m = extract.mask(f.text)
    s = list(re.finditer(r'long long result\s*;', m))
    e = list(re.finditer(r'tok\s*=\s*tok->previous\s*;', m))
    if len(s) != 1 or len(e) != 1 or e[0].start() < s[0].end():
        raise extract.ExtractError("%s: result block anchors not found" % fname)
    reg = extract.Located("externals/simplecpp/simplecpp.cpp", f.text[s[0].start():e[0].start()], f.start + s[0].start(), f.start + e[0].start(), extract.read("externals/simplecpp/simplecpp.cpp"))
    kb.add_located("simplecpp::TokenList::%s [result computation]" % fname, reg, "region")
    return reg


RULES = [
    (r'\bstringToLL\(tok->previous->str\(\)\)', 'lhs_v', 1),
    (r'\bstringToLL\(tok->next->str\(\)\)', 'rhs_v', 1),
    (r'\btok->op\b', 'op', 0),
    (r'\btok->str\(\)\s*==\s*("(?:[^"\\]|\\.)*")', r'vstr_eq(opstr, opstr_len, \1)', 0),
    (r'throw std::overflow_error\([^;]*\);', '{ VERIF_THROW(); return 0; }', 0),
    (r'std::numeric_limits<long long>::min\(\)', 'LLONG_MIN', 0),
    (r'std::numeric_limits<long long>::max\(\)', 'LLONG_MAX', 0),
    (r'\bcontinue\s*;', '{ *folded = 0; return 0; }', 1),
]


def build(ctx):
    kb = KernelBuild(ID, TITLE)
    out = [_common.BASE, '#include "vstr.h"\n']
    n = 0
    for fname, cname, sig in (("constFoldMulDivRem", "fold_muldivrem", "char op, long long lhs_v, long long rhs_v, _Bool *folded"),
                              ("constFoldAddSub", "fold_addsub", "char op, long long lhs_v, long long rhs_v, _Bool *folded"),
                              ("constFoldShift", "fold_shift", "const char *opstr, size_t opstr_len, long long lhs_v, long long rhs_v, _Bool *folded")):
        reg = region(fname, kb)
        t, k = located_rules(reg, RULES, ID + "." + cname); n += k
        if re.search(r'tok->|std::', extract.mask(t)):
            raise extract.ExtractError("K38 %s: part of the result block was not lowered: %r" % (fname, t.strip()[:300]))
        out.append("long long %s(%s)\n{\n%s\n    return result;\n}\n" % (cname, sig, extract.strip_comments(t)))
    kb.rules_fired = n
    text = "".join(out)
    extract.residue_scan(text, ID)
    kb.ctext = text + HARNESS
    kb.job("muldivrem", "h_muldivrem", solver="z3", replay="fold", unwind=4, note="loop-free region: all 2^128 operand pairs")
    kb.job("addsub", "h_addsub", replay="fold", unwind=4, note="loop-free region: all operand pairs")
    kb.job("shift", "h_shift", replay="fold", unwind=4, note="loop-free region: all operand pairs")
    kb.job("cover", "h_cover", kind="cover", solver="z3", unwind=4)
    kb.assumptions += ["region interface: the two operands are the results of stringToLL on the neighbouring number tokens (any long long), the operator is tok->op / tok->str()",
                       "a thrown std::overflow_error is turned by the caller into the finding 'failed to evaluate #if condition' (not verified here)"]

    def rp(inputs, ctx):
        op = inputs.get("g_in_op", 0)
        ops = {42: "*", 47: "/", 37: "%", 43: "+", 45: "-"}
        last = [j for j in ("muldivrem", "addsub", "shift")]
        sym = ops.get(op)
        if sym is None:
            sym = "<<" if op else ">>"
        l, r = inputs.get("g_in_lhs", 0), inputs.get("g_in_rhs", 0)
        def lit(v):
            return "(%d - 1)" % (v + 1) if v == -9223372036854775808 else ("(%d)" % v if v < 0 else str(v))
        rc, o, cmd = native.compile_run("replay_K38", REPLAY_CPP.replace("@REPO@", extract.REPO), [lit(l), sym, lit(r)], sanitize=True, need_core=False)
        return native.verdict_from_rc(rc, o), o, cmd
    kb.replayers["fold"] = rp
    return kb
