"""K17  SimpleEnableGroup<T> (lib/settings.h), Settings::isEnabled(value, inconclusiveCheck),
the option-name chain of Settings::parseEnabled and the enable/disable block of
Settings::applyEnabled (lib/settings.cpp).

Oracle (property C27 + manual "--enable=<id>"): a severity bit set; a finding value is
gated by `warning` (conditional / default-argument values) and `inconclusive`;
enabling more never disables anything.
"""
import re

from vlib import extract, native
from vlib.kernel import KernelBuild, located_rules
from . import _common

ID = "K17"
SERVES = ["C27", "C13"]
TITLE = "enable groups, value gate and --enable name table"

EG_METHODS = [
    # name, signature regex (in class), new name, self const?, contract
    ("intValue", r'uint32_t\s+intValue\s*\(\s*\)\s*const', "EG_intValue", True,
     "__CPROVER_requires(__CPROVER_is_fresh(self, sizeof(*self)))\n__CPROVER_ensures(__CPROVER_return_value == self->mFlags)\n__CPROVER_assigns()\n"),
    ("clear", r'void\s+clear\s*\(\s*\)', "EG_clear", False,
     "__CPROVER_requires(__CPROVER_is_fresh(self, sizeof(*self)))\n__CPROVER_ensures(self->mFlags == 0)\n__CPROVER_assigns(self->mFlags)\n"),
    ("fill", r'void\s+fill\s*\(\s*\)', "EG_fill", False,
     "__CPROVER_requires(__CPROVER_is_fresh(self, sizeof(*self)))\n__CPROVER_ensures(self->mFlags == 0xFFFFFFFFu)\n__CPROVER_assigns(self->mFlags)\n"),
    ("isEnabled", r'bool\s+isEnabled\s*\(\s*T\s+flag\s*\)\s*const', "EG_isEnabled", True,
     "__CPROVER_requires(__CPROVER_is_fresh(self, sizeof(*self)) && flag >= 0 && flag < 32)\n"
     "#ifndef TWIN\n__CPROVER_ensures(__CPROVER_return_value == ((self->mFlags >> flag) & 1u))\n#else\n__CPROVER_ensures(__CPROVER_return_value == (self->mFlags != 0))\n#endif\n__CPROVER_assigns()\n"),
    ("enable", r'void\s+enable\s*\(\s*T\s+flag\s*\)', "EG_enable", False,
     "__CPROVER_requires(__CPROVER_is_fresh(self, sizeof(*self)) && flag >= 0 && flag < 32)\n"
     "__CPROVER_ensures(self->mFlags == (__CPROVER_old(self->mFlags) | (1u << flag)))\n__CPROVER_assigns(self->mFlags)\n"),
    ("enable", r'void\s+enable\s*\(\s*SimpleEnableGroup<T>\s+group\s*\)', "EG_enable_group", False,
     "__CPROVER_requires(__CPROVER_is_fresh(self, sizeof(*self)))\n"
     "__CPROVER_ensures(self->mFlags == (__CPROVER_old(self->mFlags) | group.mFlags))\n__CPROVER_assigns(self->mFlags)\n"),
    ("disable", r'void\s+disable\s*\(\s*T\s+flag\s*\)', "EG_disable", False,
     "__CPROVER_requires(__CPROVER_is_fresh(self, sizeof(*self)) && flag >= 0 && flag < 32)\n"
     "__CPROVER_ensures(self->mFlags == (__CPROVER_old(self->mFlags) & ~(1u << flag)))\n__CPROVER_assigns(self->mFlags)\n"),
    ("disable", r'void\s+disable\s*\(\s*SimpleEnableGroup<T>\s+group\s*\)', "EG_disable_group", False,
     "__CPROVER_requires(__CPROVER_is_fresh(self, sizeof(*self)))\n"
     "__CPROVER_ensures(self->mFlags == (__CPROVER_old(self->mFlags) & ~group.mFlags))\n__CPROVER_assigns(self->mFlags)\n"),
    ("setEnabled", r'void\s+setEnabled\s*\(\s*T\s+flag\s*,\s*bool\s+enabled\s*\)', "EG_setEnabled", False,
     "__CPROVER_requires(__CPROVER_is_fresh(self, sizeof(*self)) && flag >= 0 && flag < 32)\n"
     "__CPROVER_ensures(self->mFlags == (enabled ? (__CPROVER_old(self->mFlags) | (1u << flag)) : (__CPROVER_old(self->mFlags) & ~(1u << flag))))\n__CPROVER_assigns(self->mFlags)\n"),
]

GATE_CONTRACT = r'''
__CPROVER_requires(__CPROVER_is_fresh(self, sizeof(*self)) && __CPROVER_is_fresh(value, sizeof(*value)))
__CPROVER_assigns()
#ifndef TWIN
/* property C27: conditional / default-argument values need `warning`; inconclusive values or checks need `inconclusive` */
__CPROVER_ensures(__CPROVER_return_value ==
   !( (!((self->severity.mFlags >> Severity_warning) & 1u) && (value->condition != NULL || value->defaultArg)) ||
      (!((self->certainty.mFlags >> Certainty_inconclusive) & 1u) && (inconclusiveCheck || value->valueKind == ValueKind_Inconclusive)) ))
#else
__CPROVER_ensures(__CPROVER_return_value == (((self->severity.mFlags >> Severity_warning) & 1u) != 0))
#endif
'''

HARNESS = r'''
unsigned g_in_flags, g_in_group; int g_in_flag, g_in_enabled; unsigned g_in_sev, g_in_cert; int g_in_cond, g_in_defarg, g_in_kind, g_in_icheck;
unsigned g_in_sev0, g_in_chk0; char g_in_name[17]; size_t g_in_name_len;
@EGH@
void h_gate(void) { struct Settings *s; struct Value *v; (void)Settings_isEnabled(s, v, nondet_bool()); }
void h_gate_search(void) {
    struct Settings s; struct Value v; _Bool ic = nondet_bool();
    s.severity.mFlags = nondet_unsigned(); s.certainty.mFlags = nondet_unsigned(); v.condition = nondet_bool() ? (const void *)&s : NULL; v.defaultArg = nondet_bool(); v.valueKind = (enum ValueKind)nondet_int();
    g_in_sev = s.severity.mFlags; g_in_cert = s.certainty.mFlags; g_in_cond = v.condition != NULL; g_in_defarg = v.defaultArg; g_in_kind = v.valueKind; g_in_icheck = ic;
    (void)Settings_isEnabled(&s, &v, ic);
}
/* monotonicity lemma over the gate's contract: settings s1 subset of s2 => gate(s1) implies gate(s2) */
void h_gate_monotone(void) {
    struct Settings s1, s2; struct Value v; _Bool ic = nondet_bool();
    s1.severity.mFlags = nondet_unsigned(); s1.certainty.mFlags = nondet_unsigned(); s1.checks.mFlags = nondet_unsigned();
    s2.severity.mFlags = nondet_unsigned(); s2.certainty.mFlags = nondet_unsigned(); s2.checks.mFlags = nondet_unsigned();
    __CPROVER_assume((s1.severity.mFlags & ~s2.severity.mFlags) == 0 && (s1.certainty.mFlags & ~s2.certainty.mFlags) == 0);
    v.condition = nondet_bool() ? (const void *)&s1 : NULL; v.defaultArg = nondet_bool(); v.valueKind = (enum ValueKind)nondet_int();
    _Bool a = Settings_isEnabled(&s1, &v, ic), b = Settings_isEnabled(&s2, &v, ic);
    __CPROVER_assert(!a || b, "gate is monotone in the enabled sets");
}
/* --enable=<name>: exactly the named group is added, nothing is removed (manual: --enable=<id>) */
void h_names(void) {
    char name[17]; size_t n = nondet_size_t(); __CPROVER_assume(n <= 16);
    for (int i = 0; i < 17; i++) { name[i] = nondet_char(); g_in_name[i] = name[i]; }
    g_in_name_len = n;
    struct EG sev, chk; sev.mFlags = nondet_unsigned(); chk.mFlags = nondet_unsigned(); g_in_sev0 = sev.mFlags; g_in_chk0 = chk.mFlags;
    unsigned s0 = sev.mFlags, c0 = chk.mFlags; int unknown = 0;
    parseEnabled_names(name, n, &sev, &chk, &unknown);
    unsigned ws = 0, wc = 0; int known = 1;
    if (vstr_eq(name, n, "all")) { ws = 0xFFFFFFFFu & ~(1u << Severity_error); wc = (1u << Checks_missingInclude) | (1u << Checks_unusedFunction); }
    else if (vstr_eq(name, n, "warning")) ws = 1u << Severity_warning;
    else if (vstr_eq(name, n, "style")) ws = 1u << Severity_style;
    else if (vstr_eq(name, n, "performance")) ws = 1u << Severity_performance;
    else if (vstr_eq(name, n, "portability")) ws = 1u << Severity_portability;
    else if (vstr_eq(name, n, "information")) ws = 1u << Severity_information;
    else if (vstr_eq(name, n, "unusedFunction")) wc = 1u << Checks_unusedFunction;
    else if (vstr_eq(name, n, "missingInclude")) wc = 1u << Checks_missingInclude;
    else known = 0;
    __CPROVER_assert(sev.mFlags == (s0 | ws), "--enable=<name> adds exactly the named severities and removes none");
    __CPROVER_assert(chk.mFlags == (c0 | wc), "--enable=<name> adds exactly the named checks and removes none");
    __CPROVER_assert((unknown != 0) == !known, "unknown names are rejected, known names accepted");
    __CPROVER_assert(!known || !((sev.mFlags ^ s0) & (1u << Severity_error)), "error severity is not controlled by --enable");
}
void h_names_cover(void) {
    char name[17]; size_t n = nondet_size_t(); __CPROVER_assume(n <= 16);
    for (int i = 0; i < 17; i++) name[i] = nondet_char();
    struct EG sev, chk; sev.mFlags = 0; chk.mFlags = 0; int unknown = 0;
    parseEnabled_names(name, n, &sev, &chk, &unknown);
    __CPROVER_assert(!(sev.mFlags == (1u << Severity_portability)), "COVER: portability reachable");
    __CPROVER_assert(!(chk.mFlags == (1u << Checks_unusedFunction) && sev.mFlags == 0), "COVER: unusedFunction reachable");
    __CPROVER_assert(!(unknown), "COVER: unknown name reachable");
}
/* applyEnabled: enabling is monotone, disabling removes exactly the named groups, error stays enabled */
void h_apply(void) {
    struct EG sev, chk, s, c; sev.mFlags = nondet_unsigned(); chk.mFlags = nondet_unsigned(); s.mFlags = nondet_unsigned(); c.mFlags = nondet_unsigned();
    unsigned s0 = sev.mFlags, c0 = chk.mFlags; _Bool en = nondet_bool();
    g_in_sev0 = s0; g_in_chk0 = c0; g_in_group = s.mFlags; g_in_enabled = en;
    applyEnabled_block(&sev, &chk, s, c, en);
    __CPROVER_assert(!en || ((s0 & ~sev.mFlags) == 0 && (c0 & ~chk.mFlags) == 0), "enabling never disables anything");
    __CPROVER_assert(!en || (sev.mFlags == (s0 | s.mFlags | (1u << Severity_error)) && chk.mFlags == (c0 | c.mFlags)), "enable adds exactly the parsed groups (+ error)");
    __CPROVER_assert(en || (sev.mFlags == ((s0 & ~s.mFlags) | (1u << Severity_error)) && chk.mFlags == (c0 & ~c.mFlags)), "disable removes exactly the parsed groups, error stays");
}
'''

REPLAY_NAMES = r'''
#include "settings.h"
#include "errortypes.h"
#include <cstdio>
#include <cstdlib>
#include <string>
int main(int argc, char **argv) {
    std::string name; for (int i = 1; i < argc; i++) name.push_back((char)atoi(argv[i]));
    Settings s; s.severity.clear(); s.checks.clear();
    std::string err = s.addEnabled(name);
    unsigned ws = 0, wc = 0; bool known = true;
    if (name == "all") { ws = 0xFFFFFFFFu; wc = (1u << (int)Checks::missingInclude) | (1u << (int)Checks::unusedFunction); }
    else if (name == "warning") ws = 1u << (int)Severity::warning; else if (name == "style") ws = 1u << (int)Severity::style;
    else if (name == "performance") ws = 1u << (int)Severity::performance; else if (name == "portability") ws = 1u << (int)Severity::portability;
    else if (name == "information") ws = 1u << (int)Severity::information; else if (name == "unusedFunction") wc = 1u << (int)Checks::unusedFunction;
    else if (name == "missingInclude") wc = 1u << (int)Checks::missingInclude; else known = false;
    if (name.find(',') != std::string::npos) { printf("comma list: outside the replayed region\n"); return 0; }
    ws |= 1u << (int)Severity::error;
    printf("--enable=%s: severity=%08x checks=%08x err='%s'; manual says severity=%08x checks=%08x known=%d\n", name.c_str(), s.severity.intValue(), s.checks.intValue(), err.c_str(), known ? ws : (1u << (int)Severity::error), wc, (int)known);
    if (!known) return err.empty() ? 1 : 0;
    return (err.empty() && s.severity.intValue() == ws && s.checks.intValue() == wc) ? 0 : 1;
}
'''

REPLAY_GATE = r'''
#include "settings.h"
#include "vfvalue.h"
#include "token.h"
#include <cstdio>
#include <cstdlib>
int main(int argc, char **argv) {
    unsigned sev = strtoul(argv[1], 0, 10), cert = strtoul(argv[2], 0, 10); int cond = atoi(argv[3]), defarg = atoi(argv[4]), kind = atoi(argv[5]), ic = atoi(argv[6]);
    Settings s; s.severity.clear(); s.certainty.clear();
    for (int i = 0; i < 32; i++) { if ((sev >> i) & 1) s.severity.enable((Severity)i); if ((cert >> i) & 1) s.certainty.enable((Certainty)i); }
    ValueFlow::Value v(1); v.condition = cond ? reinterpret_cast<const Token*>(&s) : nullptr; v.defaultArg = defarg; v.valueKind = (ValueFlow::Value::ValueKind)kind;
    bool r = s.isEnabled(&v, ic);
    bool w = (sev >> (int)Severity::warning) & 1, inc = (cert >> (int)Certainty::inconclusive) & 1;
    bool want = !((!w && (cond || defarg)) || (!inc && (ic || kind == (int)ValueFlow::Value::ValueKind::Inconclusive)));
    printf("Settings::isEnabled(value{cond=%d,defaultArg=%d,kind=%d}, check=%d) with warning=%d inconclusive=%d -> %d, gate says %d\n", cond, defarg, kind, ic, (int)w, (int)inc, (int)r, (int)want);
    return r == want ? 0 : 1;
}
'''


def build(ctx):
    kb = KernelBuild(ID, TITLE)
    n = 0
    sev, sev_names = extract.enum_list("lib/errortypes.h", r'enum\s+class\s+Severity\s*:\s*std::uint8_t\s*\{', "Severity_")
    cer, cer_names = extract.enum_list("lib/errortypes.h", r'enum\s+class\s+Certainty\s*:\s*std::uint8_t\s*\{', "Certainty_")
    chk, chk_names = extract.enum_list("lib/errortypes.h", r'enum\s+class\s+Checks\s*:\s*std::uint8_t\s*\{', "Checks_")
    vk, vk_names = extract.enum_list("lib/vfvalue.h", r'enum\s+class\s+ValueKind\s*:\s*std::uint8_t\s*\{', "ValueKind_")
    for nm, lst in (("Severity", sev_names), ("Certainty", cer_names), ("Checks", chk_names)):
        if len(lst) >= 32:
            raise extract.ExtractError("%s has %d enumerators: does not fit the 32-bit enable group" % (nm, len(lst)))
    for need, lst in (("warning", sev_names), ("error", sev_names), ("style", sev_names), ("performance", sev_names), ("portability", sev_names),
                      ("information", sev_names), ("inconclusive", cer_names), ("unusedFunction", chk_names), ("missingInclude", chk_names), ("Inconclusive", vk_names)):
        if need not in lst:
            raise extract.ExtractError("enumerator %s missing" % need)
    cls = extract.locate_function("lib/settings.h", r'^class SimpleEnableGroup\s*')
    mi = re.search(r'uint32_t\s+mFlags\s*=\s*([0-9xXa-fA-F]+)\s*;', cls.text)
    if not mi:
        raise extract.ExtractError("SimpleEnableGroup::mFlags initialiser not found")
    out = [_common.BASE, '#include "vstr.h"\n', "enum Severity %s;\nenum Certainty %s;\nenum Checks %s;\nenum ValueKind %s;\n" % (sev, cer, chk, vk),
           "struct EG { uint32_t mFlags; };\n#define MFLAGS_INIT %s\n" % mi.group(1),
           "struct Settings { struct EG severity; struct EG certainty; struct EG checks; };\n",
           "struct Value { const void *condition; _Bool defaultArg; enum ValueKind valueKind; };\n"]
    # methods of SimpleEnableGroup
    eg_h = []
    for name, sigrx, newname, const, contract in EG_METHODS:
        loc = extract.locate_function("lib/settings.h", r'^\s*' + sigrx, within=r'^class SimpleEnableGroup\s*')
        kb.add_located("SimpleEnableGroup<T>::" + name + ("(group)" if "group" in newname else ""), loc)
        t, k = located_rules(loc, [
            (r'SimpleEnableGroup<T>\s+group', 'struct EG group', 0, 1),
            (r'\bT\s+flag\b', 'int flag', 0, 1),
            (r'\bgroup\.intValue\(\)', 'EG_intValue(&group)', 0, 1),
            (r'\benable\(flag\)', 'EG_enable(self, flag)', 0, 1),
            (r'\bdisable\(flag\)', 'EG_disable(self, flag)', 0, 1),
        ], ID + "." + newname); n += k
        sig, body = extract.body_of(t)
        sig = _common.add_self(sig, ("const " if const else "") + "struct EG *self", newname)
        out.append("%s\n%s#define mFlags (self->mFlags)\n%s\n#undef mFlags\n" % (sig, contract.replace("self->mFlags", "self->mFlags"), body))
    # the contracts mention self->mFlags before the #define, fine; bodies use the macro.
    # Value::isInconclusive
    li = extract.locate_function("lib/vfvalue.h", r'^\s*bool\s+isInconclusive\s*\(\s*\)\s*const')
    kb.add_located("ValueFlow::Value::isInconclusive", li)
    t, k = located_rules(li, [(r'\bValueKind::(\w+)', r'ValueKind_\1', 1, 1)], ID + ".isInconclusive"); n += k
    sig, body = extract.body_of(t)
    out.append("%s\n#define valueKind (self->valueKind)\n%s\n#undef valueKind\n" % (_common.add_self(sig, "const struct Value *self", "Value_isInconclusive"), body))
    # Settings::isEnabled(value, inconclusiveCheck)
    lg = extract.locate_function("lib/settings.cpp", r'^bool Settings::isEnabled\s*\(\s*const ValueFlow::Value \*value')
    kb.add_located("Settings::isEnabled(const ValueFlow::Value*, bool)", lg)
    t, k = located_rules(lg, [
        (r'^bool Settings::isEnabled\s*\(\s*const ValueFlow::Value \*value\s*,\s*bool inconclusiveCheck\s*\)\s*const',
         'bool Settings_isEnabled(const struct Settings *self, const struct Value *value, bool inconclusiveCheck)', 1, 1),
        (r'\bseverity\.isEnabled\(Severity::(\w+)\)', r'EG_isEnabled(&self->severity, Severity_\1)', 1),
        (r'\bcertainty\.isEnabled\(Certainty::(\w+)\)', r'EG_isEnabled(&self->certainty, Certainty_\1)', 1),
        (r'\bvalue->isInconclusive\(\)', 'Value_isInconclusive(value)', 1, 1),
    ], ID + ".gate"); n += k
    sig, body = extract.body_of(t)
    out.append("%s\n%s%s\n" % (sig, GATE_CONTRACT, body))
    # parseEnabled name chain (region)
    rg = extract.locate_region("lib/settings.cpp", r'^std::string Settings::parseEnabled\s*\(', r'if\s*\(\s*str\s*==\s*"all"\s*\)\s*\{', r'else\s*\{\s*if\s*\(\s*str\.empty\(\)\s*\)', include_end=False)
    kb.add_located("Settings::parseEnabled [option-name chain]", rg, "region")
    t, k = located_rules(rg, [
        (r'\bstr\s*==\s*("[A-Za-z]+")', r'vstr_eq(str, str_len, \1)', 8),
        (r'SimpleEnableGroup<Severity>\s+newSeverity\s*;', 'struct EG newSeverity; newSeverity.mFlags = MFLAGS_INIT;', 1, 1),
        (r'\b(\w+)\.(fill|clear)\(\)', r'EG_\2(&\1)', 1),
        (r'\b(\w+)\.(enable|disable)\((Severity|Checks)::(\w+)\)', r'EG_\2(&\1, \3_\4)', 8),
        (r'\bseverity\.enable\(newSeverity\)', 'EG_enable_group(&severity, newSeverity)', 1, 1),
    ], ID + ".names"); n += k
    out.append("void parseEnabled_names(const char *str, size_t str_len, struct EG *severity_p, struct EG *checks_p, int *unknown)\n{\n"
               "#define severity (*severity_p)\n#define checks (*checks_p)\n    %s\n    else { *unknown = 1; }\n#undef severity\n#undef checks\n}\n" % t.rstrip())
    # applyEnabled block (region)
    ra = extract.locate_region("lib/settings.cpp", r'^std::string Settings::applyEnabled\s*\(', r'const\s+auto\s+s\s*=\s*std::get<0>\(groups\)\s*;', r'severity\.enable\(Severity::error\)\s*;')
    kb.add_located("Settings::applyEnabled [enable/disable block]", ra, "region")
    t, k = located_rules(ra, [
        (r'const\s+auto\s+s\s*=\s*std::get<0>\(groups\)\s*;', 'const struct EG s = groups_0;', 1, 1),
        (r'const\s+auto\s+c\s*=\s*std::get<1>\(groups\)\s*;', 'const struct EG c = groups_1;', 1, 1),
        (r'\b(severity|checks)\.(enable|disable)\(([sc])\)', r'EG_\2_group(&\1, \3)', 4, 4),
        (r'\bseverity\.enable\(Severity::error\)', 'EG_enable(&severity, Severity_error)', 1, 1),
    ], ID + ".apply"); n += k
    out.append("void applyEnabled_block(struct EG *severity_p, struct EG *checks_p, struct EG groups_0, struct EG groups_1, _Bool enable)\n{\n"
               "#define severity (*severity_p)\n#define checks (*checks_p)\n    %s\n#undef severity\n#undef checks\n}\n" % t)
    kb.rules_fired = n
    text = "".join(out)
    extract.residue_scan(text, ID)
    egh = []
    for name, sigrx, newname, const, contract in EG_METHODS:
        args = ""
        if "flag" in contract:
            args = ", f"
        if newname.endswith("_group"):
            args = ", g"
        if newname == "EG_setEnabled":
            args = ", f, nondet_bool()"
        egh.append("void h_%s(void) { struct EG *e; int f = nondet_int(); struct EG g; g.mFlags = nondet_unsigned(); (void)0; %s(e%s); }" % (newname, newname, args))
    kb.ctext = text + HARNESS.replace("@EGH@", "\n".join(egh))

    for name, sigrx, newname, const, contract in EG_METHODS:
        rep = []
        if newname in ("EG_enable_group", "EG_disable_group"):
            rep = ["EG_intValue"]
        if newname == "EG_setEnabled":
            rep = ["EG_enable", "EG_disable"]
        kb.job(newname, "h_" + newname, enforce=newname, replace=rep)
    kb.job("EG_isEnabled.twin", "h_EG_isEnabled", kind="twin", enforce="EG_isEnabled", defines=["TWIN"])
    kb.job("gate", "h_gate", enforce="Settings_isEnabled", replace=["EG_isEnabled"], search="gate.search", replay="gate")
    kb.job("gate.search", "h_gate_search", kind="search", enforce="Settings_isEnabled")
    kb.job("gate.twin", "h_gate", kind="twin", enforce="Settings_isEnabled", replace=["EG_isEnabled"], defines=["TWIN"])
    kb.job("gate.monotone", "h_gate_monotone", replace=["Settings_isEnabled"])
    kb.job("names", "h_names", unwind=20, replay="names",
           note="loops only in vstr_eq over literal option names (<= 14 chars): fully unwound, unwinding assertions pass, complete for every str")
    kb.job("names.cover", "h_names_cover", kind="cover", unwind=20)
    kb.job("apply", "h_apply")
    kb.assumptions += ["flag < 32: enumerator counts of Severity/Certainty/Checks are read from lib/errortypes.h each run and checked < 32",
                       "parseEnabled: only the single-name chain is verified; the comma splitting (std::string::find/substr recursion) is not",
                       "region interfaces: severity/checks passed by pointer, the tuple elements of applyEnabled as two struct values"]

    def rgate(inputs, ctx):
        a = [inputs.get(k, 0) for k in ("g_in_sev", "g_in_cert", "g_in_cond", "g_in_defarg", "g_in_kind", "g_in_icheck")]
        rc, o, cmd = native.compile_run("replay_K17_gate", REPLAY_GATE, a)
        return native.verdict_from_rc(rc, o), o, cmd
    kb.replayers["gate"] = rgate

    def rnames(inputs, ctx):
        buf = inputs.get("g_in_name") or []
        ln = int(inputs.get("g_in_name_len", 0) or 0)
        by = [int(b) for b in buf[:ln]] if isinstance(buf, list) else []
        rc, o, cmd = native.compile_run("replay_K17_names", REPLAY_NAMES, by)
        return native.verdict_from_rc(rc, o), o, cmd
    kb.replayers["names"] = rnames
    return kb
