"""Pieces shared by kernel specs: enums and structs generated from /repo headers."""
import re

from vlib import extract

BASE = '#include "base.h"\nint verif_thrown;\n'


def valuetype_enums():
    """C enums Sign / VType generated from lib/symboldatabase.h (class ValueType)."""
    s, _ = extract.enum_list("lib/symboldatabase.h", r'enum\s+Sign\s*:\s*std::uint8_t\s*\{', "Sign_")
    t, names = extract.enum_list("lib/symboldatabase.h", r'enum\s+Type\s*:\s*std::uint8_t\s*\{\s*UNKNOWN_TYPE', "VType_")
    return "enum Sign %s;\nenum VType %s;\n" % (s, t), names


VT_RULES = [
    (r'\bValueType::Sign::(\w+)', r'Sign_\1', 0),
    (r'\bValueType::Type::(\w+)', r'VType_\1', 0),
    (r'\bValueType::(UNKNOWN_SIGN|SIGNED|UNSIGNED)\b', r'Sign_\1', 0),
    (r'\bValueType::Sign\b', 'enum Sign', 0),
    (r'\bValueType::Type\b', 'enum VType', 0),
]


def platform_struct():
    """struct Platform with the integer members the kernels read, generated from lib/platform.h."""
    full = extract.strip_comments(extract.read("lib/platform.h"))
    fields = []
    for mo in re.finditer(r'^\s*(std::uint8_t|std::size_t|bool|char)\s+((?:sizeof_|char_bit|short_bit|int_bit|long_bit|long_long_bit|defaultSign)\w*)\s*(?:\{[^}]*\})?\s*;', full, re.M):
        ty = mo.group(1).replace("std::", "")
        if ty == "bool":
            ty = "_Bool"
        fields.append("%s %s;" % (ty, mo.group(2)))
    if len(fields) < 10:
        raise extract.ExtractError("lib/platform.h: found only %d Platform members" % len(fields))
    et, names = extract.enum_list("lib/platform.h", r'enum\s+Type\s*:\s*std::uint8_t\s*\{', "PType_")
    return "enum PType %s;\nstruct Platform { %s enum PType type; };\n" % (et, " ".join(fields)), [f.split()[1].rstrip(';') for f in fields], names
