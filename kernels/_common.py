"""Pieces shared by kernel specs: enums and structs generated from /repo headers."""
import re

from vlib import extract

BASE = '#include "base.h"\nint verif_thrown;\n'


def valuetype_enums():
    """C enums Sign / VType generated from lib/symboldatabase.h (class ValueType)."""
    s, _ = extract.enum_list("lib/symboldatabase.h", r'enum\s+Sign\s*:\s*std::uint8_t\s*\{', "Sign_")
    t, names = extract.enum_list("lib/symboldatabase.h", r'enum\s+Type\s*:\s*std::uint8_t\s*\{\s*UNKNOWN_TYPE', "VType_")
    return "enum Sign %s;\nenum VType %s;\n" % (s, t), names


VT_RULES = [
    (r'\bValueType::Sign::(\w+)', r'Sign_\1', 0),
    (r'\bValueType::Type::(\w+)', r'VType_\1', 0),
    (r'\bValueType::(UNKNOWN_SIGN|SIGNED|UNSIGNED)\b', r'Sign_\1', 0),
    (r'\bValueType::Sign\b', 'enum Sign', 0),
    (r'\bValueType::Type\b', 'enum VType', 0),
]


def platform_struct():
    """struct Platform with the integer members the kernels read, generated from lib/platform.h."""
    full = extract.strip_comments(extract.read("lib/platform.h"))
    fields = []
    for mo in re.finditer(r'^\s*(std::uint8_t|std::size_t|bool|char)\s+(sizeof_\w+|\w+_bit|defaultSign|windows)\s*(?:\{[^}]*\})?\s*;', full, re.M):
        ty = mo.group(1).replace("std::", "")
        if ty == "bool":
            ty = "_Bool"
        fields.append("%s %s;" % (ty, mo.group(2)))
    if len(fields) < 10:
        raise extract.ExtractError("lib/platform.h: found only %d Platform members" % len(fields))
    et, names = extract.enum_list("lib/platform.h", r'enum\s+Type\s*:\s*std::uint8_t\s*\{', "PType_")
    return "enum PType %s;\nstruct Platform { %s enum PType type; };\n" % (et, " ".join(fields)), [f.split()[1].rstrip(';') for f in fields], names


def add_self(sig, self_decl, newname=None):
    """member function signature -> free function with a leading self parameter.
    `sig` is the text before the body; a trailing const qualifier is dropped."""
    sig = re.sub(r'\)\s*const\s*$', ')', sig.strip())
    sig = re.sub(r'^\s*(static|inline|virtual)\s+', '', sig)
    mo = re.match(r'^(.*?)(\b[A-Za-z_]\w*)\s*\((.*)\)\s*$', sig, re.S)
    if not mo:
        raise extract.ExtractError("cannot parse member signature %r" % sig)
    ret, name, params = mo.group(1), mo.group(2), mo.group(3).strip()
    if newname:
        name = newname
    if self_decl:
        params = self_decl + (", " + params if params and params != "void" else "")
    return "%s%s(%s)" % (ret, name, params or "void")


def member_macros(fields, undef=False):
    if undef:
        return "".join("#undef %s\n" % f for f in fields)
    return "".join("#define %s (self->%s)\n" % (f, f) for f in fields)


def lower_refs(sig, types=None):
    """`T &x` / `const T &x` parameters -> `T *x_p` and `#define x (*x_p)`.
    types: optional map C++ type -> C type (e.g. {'Platform': 'struct Platform'}).
    Returns (new signature, defines text, undefs text)."""
    types = types or {}
    defs, undefs = [], []

    def rep(mo):
        const, ty, name = mo.group(1) or "", mo.group(2), mo.group(3)
        cty = types.get(ty, ty)
        defs.append("#define %s (*%s_p)\n" % (name, name))
        undefs.append("#undef %s\n" % name)
        return "%s%s *%s_p" % (const, cty, name)
    new = re.sub(r'(const\s+)?([A-Za-z_][\w ]*?)\s*&\s*([A-Za-z_]\w*)(?=\s*[,)])', rep, sig)
    return new, "".join(defs), "".join(undefs)


def valuetype_struct():
    """struct ValueType with the members kernels read + isIntegral() extracted from lib/symboldatabase.h."""
    loc = extract.locate_function("lib/symboldatabase.h", r'^\s*bool\s+isIntegral\s*\(\s*\)\s*const')
    text, _ = extract.apply_rules(loc.text, extract.GENERIC + VT_RULES, "ValueType::isIntegral")
    sig, body = extract.body_of(text)
    st = "struct ValueType { enum Sign sign; enum VType type; int bits; int pointer; int constness; };\n"
    fn = "#define type (self->type)\n%s %s\n#undef type\n" % (add_self(sig, "const struct ValueType *self", "ValueType_isIntegral"), body)
    return st + fn, loc


def str_rules(name, mincount=0):
    """rules lowering a read-only `const std::string &<name>` to (const char *<name>, size_t <name>_len)."""
    n = re.escape(name)
    return [
        (r'const\s+std::string\s*&\s*%s\b' % n, 'const char *%s, size_t %s_len' % (name, name), mincount),
        (r'\b%s\.empty\(\)' % n, '(%s_len == 0)' % name, 0),
        (r'\b%s\.(?:size|length)\(\)' % n, '%s_len' % name, 0),
        (r'\b%s\.c?begin\(\)' % n, '%s' % name, 0),
        (r'\b%s\.c?end\(\)' % n, '(%s + %s_len)' % (name, name), 0),
        (r'\b%s\.back\(\)' % n, '%s[%s_len - 1]' % (name, name), 0),
        (r'\b%s\.front\(\)' % n, '%s[0]' % name, 0),
    ]


def enum_class_rule(ename):
    """`enum class E : T { A, B }` -> `enum E { E_A, E_B }` and `E::A` -> `E_A`."""
    def repl(mo):
        items = [x.strip() for x in mo.group(1).split(',') if x.strip()]
        return "enum %s { %s }" % (ename, ", ".join("%s_%s" % (ename, i) for i in items))
    return [
        (r'enum\s+class\s+%s\s*:\s*std::uint8_t\s*\{([^}]*)\}' % ename, repl, 1, 1),
        (r'\b%s::(\w+)' % ename, r'%s_\1' % ename, 1),
    ]


def conversion_sign(kb, what):
    """C text of ValueFlow::getConversionSign (lib/vf_common.cpp): the signedness a conversion to the type uses - plain char has
    the platform's default sign.  Returns (text, rules fired); the text declares `char g_default_sign` (Platform::defaultSign)."""
    from vlib.kernel import located_rules
    loc = extract.locate_function("lib/vf_common.cpp", r'^\s*ValueType::Sign getConversionSign\(const ValueType& vt, const Settings& settings\)')
    kb.add_located("ValueFlow::getConversionSign", loc)
    t, n = located_rules(loc, VT_RULES + [
        (r'^\s*enum Sign getConversionSign\(const ValueType& vt, const Settings& settings\)', 'static enum Sign getConversionSign(enum VType vt_type, enum Sign vt_sign, char defaultSign)', 1, 1),
        (r'\bvt\.(type|sign)\b', r'vt_\1', 3, 3),
        (r'\bsettings\.platform\.defaultSign\b', 'defaultSign', 4, 4),
    ], what + ".getConversionSign")
    return "char g_default_sign;   /* Platform::defaultSign */\n" + extract.strip_comments(t) + "\n", n


# rule lowering the call for kernels whose destination type is `const struct ValueType *dst`
CONVERSION_SIGN_CALL = (r'\b(?:ValueFlow::)?getConversionSign\(\*dst, settings\)', 'getConversionSign(dst->type, dst->sign, g_default_sign)', 0, 1)


def cast_value_int(kb, what):
    """C text of the integer block of ValueFlow::castValue (lib/vf_common.cpp; its own contract is K04's):
    `static bigint castValue_int(bigint v_in, enum Sign sign, int bit)`.  Returns (text, rules fired)."""
    from vlib.kernel import located_rules
    mb = re.search(r'const\s+int\s+MathLib::bigint_bits\s*=\s*(\d+)\s*;', extract.read("lib/mathlib.cpp"))
    if not mb:
        raise extract.ExtractError("MathLib::bigint_bits definition not found")
    reg = extract.locate_region("lib/vf_common.cpp", r'^\s*Value\s+castValue\s*\(', r'if\s*\(\s*bit\s*<\s*MathLib::bigint_bits\s*\)', r'return\s+value\s*;', include_end=False)
    kb.add_located("ValueFlow::castValue [integer truncation region]", reg, "region")
    tc, k = located_rules(reg, VT_RULES + [
        (r'\bvalue\.intvalue\b', '(*intvalue_p)', 3, 3),
        (r'\bMathLib::bigint_bits\b', 'BIGINT_BITS', 1, 1),
    ], what + ".castValue")
    text = ("#ifndef BIGINT_BITS\n#define BIGINT_BITS %s\n#endif\nstatic bigint castValue_int(bigint v_in, const enum Sign sign, int bit)\n{\n    bigint v_store = v_in; bigint *intvalue_p = &v_store;\n"
            "    __CPROVER_assert(bit >= 1, \"castValue: bit >= 1 (shift by bit - 1)\");\n%s\n    return v_store;\n}\n" % (mb.group(1), extract.strip_comments(tc)))
    return text, k
