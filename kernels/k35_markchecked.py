"""K35  SuppressionList::markUnmatchedInlineSuppressionsAsChecked (lib/suppressions.cpp).

An inline suppression is reported as unmatched only if it was `checked`, i.e. if it applied to analysed code.
This function sets `checked` for every suppression that applies to a line of the token list.  Postcondition
(property C24, "precisely those suppressions that applied to analysed code"): afterwards
    s.checked  <=>  s.checked before  or  some token lies on a line / in a file the suppression applies to,
and nothing else changes.  Bounded: token lists of <= NT tokens and <= NS suppressions (loops fully unwound);
TokenList::file(tok) is taken to be determined by tok->fileIndex().
"""
import re

from vlib import extract, native
from vlib.kernel import KernelBuild, located_rules
from . import _common

ID = "K35"
SERVES = ["C24", "C13"]
TITLE = "markUnmatchedInlineSuppressionsAsChecked marks exactly the suppressions that apply to a tokenized line"

PRE = r'''
#define NT 3
#define NS 2
struct Tok { int fileIndex; int linenr; };
struct Supp { enum SType type; _Bool checked; int lineNumber, lineBegin, lineEnd; int fileId; };
'''

HARNESS = r'''
int g_in_nt, g_in_ns; int g_in_tfile[NT], g_in_tline[NT], g_in_stype[NS], g_in_sline[NS], g_in_sfile[NS], g_in_schk[NS], g_in_lb[NS], g_in_le[NS];
static _Bool applies(const struct Supp *s, const struct Tok *t) {
    if (s->fileId != t->fileIndex) return 0;
    if (s->type == SType_unique) return s->lineNumber == t->linenr;
    if (s->type == SType_block) return s->lineBegin <= t->linenr && s->lineEnd >= t->linenr;
    return 1;
}
void h_mark(void) {
    struct Tok toks[NT]; struct Supp sup[NS], old[NS]; size_t nt = nondet_size_t(), ns = nondet_size_t(); __CPROVER_assume(nt <= NT && ns <= NS);
    for (int i = 0; i < NT; i++) { toks[i].fileIndex = nondet_int(); toks[i].linenr = nondet_int(); __CPROVER_assume(toks[i].fileIndex >= 0 && toks[i].fileIndex <= 2 && toks[i].linenr >= 1);
        g_in_tfile[i] = toks[i].fileIndex; g_in_tline[i] = toks[i].linenr; }
    for (int j = 0; j < NS; j++) { sup[j].type = (enum SType)nondet_int(); __CPROVER_assume(sup[j].type >= SType_unique && sup[j].type <= SType_macro); sup[j].checked = nondet_bool();
        sup[j].lineNumber = nondet_int(); sup[j].lineBegin = nondet_int(); sup[j].lineEnd = nondet_int(); sup[j].fileId = nondet_int(); __CPROVER_assume(sup[j].fileId >= 0 && sup[j].fileId <= 2);
        old[j] = sup[j]; g_in_stype[j] = sup[j].type; g_in_sline[j] = sup[j].lineNumber; g_in_sfile[j] = sup[j].fileId; g_in_schk[j] = sup[j].checked; g_in_lb[j] = sup[j].lineBegin; g_in_le[j] = sup[j].lineEnd; }
    g_in_nt = (int)nt; g_in_ns = (int)ns;
    markChecked(toks, nt, sup, ns);
    for (int j = 0; j < NS; j++) if ((size_t)j < ns) {
        _Bool any = 0; for (int i = 0; i < NT; i++) if ((size_t)i < nt && applies(&old[j], &toks[i])) any = 1;
        __CPROVER_assert(sup[j].checked == (old[j].checked || any), "checked afterwards <=> checked before or the suppression applies to some tokenized line");
        __CPROVER_assert(sup[j].type == old[j].type && sup[j].lineNumber == old[j].lineNumber && sup[j].lineBegin == old[j].lineBegin && sup[j].lineEnd == old[j].lineEnd && sup[j].fileId == old[j].fileId, "only `checked` changes");
    }
}
void h_cover(void) {
    struct Tok toks[NT]; struct Supp sup[NS];
    for (int i = 0; i < NT; i++) { toks[i].fileIndex = nondet_int(); toks[i].linenr = nondet_int(); __CPROVER_assume(toks[i].fileIndex >= 0 && toks[i].fileIndex <= 2 && toks[i].linenr >= 1); }
    for (int j = 0; j < NS; j++) { sup[j].type = SType_unique; sup[j].checked = 0; sup[j].lineNumber = nondet_int(); sup[j].lineBegin = -1; sup[j].lineEnd = -1; sup[j].fileId = nondet_int(); }
    markChecked(toks, 3, sup, 2);
    __CPROVER_assert(!(sup[1].checked && !sup[0].checked), "COVER: only the second suppression is marked");
    __CPROVER_assert(!(sup[0].checked && toks[0].fileIndex != sup[0].fileId && toks[1].linenr == toks[0].linenr), "COVER: marked through a later token on the same line number in another file");
}
'''

REPLAY_CPP = r'''
#include <cstdio>
int main() { printf("K35: replay through the real function needs a TokenList; see the verifier counterexample (token file/line and suppression fields)\n"); return 0; }
'''


def build(ctx):
    kb = KernelBuild(ID, TITLE)
    st, st_names = extract.enum_list("lib/suppressions.h", r'enum\s+class\s+Type\s*:\s*std::uint8_t\s*\{', "SType_")
    loc = extract.locate_function("lib/suppressions.cpp", r'^void SuppressionList::markUnmatchedInlineSuppressionsAsChecked\s*\(')
    kb.add_located("SuppressionList::markUnmatchedInlineSuppressionsAsChecked", loc)
    t, n = located_rules(loc, [
        (r'^void SuppressionList::markUnmatchedInlineSuppressionsAsChecked\s*\(\s*const TokenList\s*&\s*tokenlist\s*\)', 'void markChecked(const struct Tok *toks, size_t ntok, struct Supp *mSuppressions, size_t nsup)', 1, 1),
        (r'std::lock_guard<std::mutex>\s+lg\(mSuppressionsSync\)\s*;', '', 1, 1),
        (r'for\s*\(\s*const Token \*tok\s*=\s*tokenlist\.front\(\);\s*tok;\s*tok\s*=\s*tok->next\(\)\s*\)\s*\{', 'for (size_t tok_i = 0; tok_i < NT; tok_i++) { if (!(tok_i < ntok)) break; const struct Tok *tok = &toks[tok_i];', 1, 1),
        (r'for\s*\(\s*auto\s*&\s*suppression\s*:\s*mSuppressions\s*\)\s*\{', 'for (size_t s_i = 0; s_i < NS; s_i++) { if (!(s_i < nsup)) break; struct Supp *const suppression_p = &mSuppressions[s_i];', 1, 1),
        # file names are modelled by the file index they are looked up with: `tokenlist.file(tok)`, a reference or a pointer to it
        (r'const std::string\s*\*\s*(\w+)\s*=\s*NULL\s*;', r'int \1 = -1;', 0),
        (r'\b(\w+)\s*=\s*&tokenlist\.file\(tok\)\s*;', r'\1 = tok->fileIndex();', 0),
        (r'\bsuppression\.fileName\s*==\s*\*(\w+)\b', r'suppression_p->fileId == \1', 0),
        (r'\bsuppression\.fileName\s*==\s*tokenlist\.file\(tok\)', 'suppression_p->fileId == tok->fileIndex', 0),
        (r'\bcontinue\s*;', 'continue;', 0),
        (r'\bsuppression\.(\w+)', r'suppression_p->\1', 8),
        (r'\btok->(fileIndex|linenr)\(\)', r'tok->\1', 4),
        (r'SuppressionList::Type::(\w+)', r'SType_\1', 2),
    ], ID)
    kb.rules_fired = n
    text = _common.BASE + "enum SType %s;\n" % st + PRE + t + "\n"
    extract.residue_scan(text, ID)
    kb.ctext = text + HARNESS
    kb.job("mark", "h_mark", kind="bounded", unwind=6, note="token lists of <= 3 tokens over <= 3 files, <= 2 suppressions; all line numbers, types and flags symbolic")
    kb.job("cover", "h_cover", kind="cover", unwind=6)
    kb.assumptions += ["TokenList::file(tok) is determined by tok->fileIndex() (file names compared as file indices)",
                       "the token list is an array of (fileIndex, linenr); the suppression list an array; the mutex is dropped"]
    return kb
