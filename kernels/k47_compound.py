"""K47  compound assignment in the forward analysis (lib/vf_analyzers.cpp): the value of a variable after `x += c`, `x -= c`, `x *= c`.

Regions / functions:
  * the "only if it is invertible" guard of ValueFlowAnalyzer::isWritable (which operators may update an IMPOSSIBLE value);
  * evalAssignment (integer branch; calculateAssign / calculate is a model of the operators, proved in K06);
  * the assignment branch of writeValue from the call of evalAssignment to the conversion to the variable's type.
Ghost: x is any value of the variable's type that satisfies the input fact (known: x == v; impossible point / upper / lower as
in K44), in an execution free of undefined behaviour.  Contract: the updated value is a true fact about `x op c` converted to
the variable's type.  Decided: known values for every integer type of 1, 2, 4 bytes; impossible values for `int` (narrower and
unsigned types wrap around on conversion: that class is the recorded finding K44.stmt-unsigned-wrap).
"""
import re

from vlib import extract, native
from vlib.kernel import KernelBuild, located_rules
from . import _common
from . import k01_truncate

ID = "K47"
SERVES = ["C01", "C03", "C13"]
TITLE = "value of a variable after a compound assignment: converted to its type, impossible values only through invertible operators"

PRELUDE = r'''
#include "vstr.h"
enum VKind { K_KNOWN, K_POSSIBLE, K_IMPOSSIBLE };
enum VBound { BOUND_Upper, BOUND_Lower, BOUND_Point };
struct VValue { enum VKind kind; enum VBound bound; bigint intvalue; };
static _Bool op_in(const char *op, size_t op_len, const char *alts)
{   /* Token::Match(tok, "a|b") for a one-word pattern of plain alternatives */
    size_t i = 0;
    for (int k = 0; k < 6; k++) {
        size_t j = i; while (alts[j] != 0 && alts[j] != '|') j++;
        if (j - i == op_len) { _Bool eq = 1; for (size_t t = 0; t < 3; t++) if (t < op_len && op[t] != alts[i + t]) eq = 0; if (eq) return 1; }
        if (alts[j] == 0) return 0;
        i = j + 1;
    }
    return 0;
}
/* calculateAssign(assign, x, y, &error): the operator without its '=' applied by calculate<bigint,bigint> (lib/calculate.h, under contract in K06:
   + - * wrap around; the other operators are not used by this harness and are declined) */
static bigint calc_assign(const char *assign, size_t n, bigint x, bigint y, _Bool *error) {
    if (vstr_eq(assign, n, "+=")) return (bigint)((biguint)x + (biguint)y);
    if (vstr_eq(assign, n, "-=")) return (bigint)((biguint)x - (biguint)y);
    if (vstr_eq(assign, n, "*=")) return (bigint)((biguint)x * (biguint)y);
    *error = 1; return 0;
}
'''

HARNESS = r'''
bigint g_in_v, g_in_x, g_in_c; int g_in_kind, g_in_bound, g_in_sz, g_in_sign, g_in_op;
static const char *AOPS[3] = {"+=", "-=", "*="};
static _Bool in_type(bigint x, size_t sz, _Bool sgn) { return sgn ? (x >= -(1LL << (8 * sz - 1)) && x < (1LL << (8 * sz - 1))) : (x >= 0 && x < (1LL << (8 * sz))); }
static _Bool fact(const struct VValue *v, bigint x) {
    if (v->kind == K_KNOWN) return x == v->intvalue;
    if (v->kind == K_POSSIBLE) return 1;
    return v->bound == BOUND_Point ? x != v->intvalue : v->bound == BOUND_Upper ? x > v->intvalue : x < v->intvalue;
}
void h_compound(void) {
    struct VValue v; v.kind = (enum VKind)nondet_int(); v.bound = (enum VBound)nondet_int(); v.intvalue = nondet_bigint();
    __CPROVER_assume((v.kind == K_KNOWN || v.kind == K_IMPOSSIBLE) && v.bound >= BOUND_Upper && v.bound <= BOUND_Point && (v.kind != K_KNOWN || v.bound == BOUND_Point));
    int op = OPSEL;          /* one operator per verifier run: 0 +=, 1 -=, 2 *= */
    struct ValueType dst; dst.sign = nondet_bool() ? Sign_SIGNED : Sign_UNSIGNED; dst.pointer = 0; dst.type = VType_INT; dst.bits = 0; dst.constness = 0;
    size_t sz = nondet_size_t(); __CPROVER_assume(sz == 1 || sz == 2 || sz == 4);
    /* a _Bool variable (C11 6.3.1.2): b op= c stores (b op c) != 0; decided for known values */
    _Bool is_bool = nondet_bool();
    if (is_bool) {
        dst.type = VType_BOOL; dst.sign = Sign_UNKNOWN_SIGN; sz = 1;
        __CPROVER_assume(v.kind == K_KNOWN && (v.intvalue == 0 || v.intvalue == 1));
        bigint cb = nondet_bigint(); __CPROVER_assume(cb > -(1LL << 31) && cb < (1LL << 31));
#if OPSEL == 2
        __CPROVER_assume(cb >= -512 && cb <= 512);
#endif
        bigint rb = op == 0 ? v.intvalue + cb : op == 1 ? v.intvalue - cb : v.intvalue * cb;
        g_in_v = v.intvalue; g_in_x = v.intvalue; g_in_c = cb; g_in_kind = v.kind; g_in_bound = v.bound; g_in_sz = 1; g_in_sign = 0; g_in_op = op;
        const char *opsb = op == 0 ? "+=" : op == 1 ? "-=" : "*=";
        if (!writable_guard(0, opsb, 2)) return;
        _Bool updb = 0;
        assign_block(&v, opsb, 2, cb, 1, &dst, sz, &updb);
        if (!updb) return;
        __CPROVER_assert(v.intvalue == (rb != 0), "the value of a _Bool variable after `b op= c` is (b op c) != 0");
        return;
    }
    _Bool sgn = dst.sign == Sign_SIGNED;
    /* a plain char variable is converted with the platform's default sign (known values only) */
    if (nondet_bool()) { __CPROVER_assume(sz == 1 && v.kind == K_KNOWN); dst.type = VType_CHAR; dst.sign = Sign_UNKNOWN_SIGN; g_default_sign = sgn ? 's' : 'u'; }
    /* impossible values are decided for int only (see the module text) */
    if (v.kind == K_IMPOSSIBLE) __CPROVER_assume(sgn && sz == 4);
    bigint x = nondet_bigint(), c = nondet_bigint();
    __CPROVER_assume(in_type(x, sz, sgn) && in_type(v.intvalue, sz, sgn) && c > -(1LL << 31) && c < (1LL << 31));
#if OPSEL == 2
    /* 64-bit multiplication does not finish on any back end here: factors of at most 16 and 10 bits (stated bound) */
    __CPROVER_assume(x >= -65536 && x <= 65535 && v.intvalue >= -65536 && v.intvalue <= 65535 && c >= -512 && c <= 512);
#endif
    __CPROVER_assume(fact(&v, x));
    /* the operation in the promoted type (int, or unsigned int for a 4-byte unsigned variable); no signed overflow in a UB-free execution */
    bigint r = op == 0 ? x + c : op == 1 ? x - c : x * c;
    if (sgn || sz < 4) __CPROVER_assume(r >= -(1LL << 31) && r < (1LL << 31));
    /* converted to the variable's type */
    bigint y; { biguint m = (1ULL << (8 * sz)) - 1; biguint u = (biguint)r & m; y = (sgn && (u >> (8 * sz - 1))) ? (bigint)(u | ~m) : (bigint)u; }
    g_in_v = v.intvalue; g_in_x = x; g_in_c = c; g_in_kind = v.kind; g_in_bound = v.bound; g_in_sz = (int)sz; g_in_sign = dst.sign; g_in_op = op;
    const char *ops = op == 0 ? "+=" : op == 1 ? "-=" : "*=";
    if (!writable_guard(v.kind == K_IMPOSSIBLE, ops, 2)) return;      /* the analysis does not update this value */
    _Bool updated = 0;
    assign_block(&v, ops, 2, c, 1, &dst, sz, &updated);
    if (!updated) return;
    __CPROVER_assert(fact(&v, y), "the value of the variable after `x op= c` is a true fact about the converted result for every value the input fact allows");
}
void h_cover(void) {
    struct VValue v; v.kind = K_KNOWN; v.bound = BOUND_Point; v.intvalue = 255; struct ValueType dst; dst.sign = Sign_UNSIGNED; dst.pointer = 0; dst.type = VType_INT; _Bool up = 0;
    assign_block(&v, "+=", 2, 1, 1, &dst, 1, &up);
    __CPROVER_assert(!(up && v.intvalue == 0), "COVER: unsigned char 255 += 1 gives 0");
    __CPROVER_assert(!(writable_guard(1, "+=", 2) && !writable_guard(1, "*=", 2)), "COVER: an impossible value is updated through += but not through *=");
}
'''

REPLAY_CPP = r'''
#include "settings.h"
#include "tokenize.h"
#include "tokenlist.h"
#include "token.h"
#include "errorlogger.h"
#include "color.h"
#include <cstdio>
#include <cstdlib>
#include <string>
struct Log : ErrorLogger {
    void reportOut(const std::string &, Color) override {}
    void reportErr(const ErrorMessage &) override {}
    void reportMetric(const std::string &) override {}
};
/* argv: type, init-or-guard text, op, c, result : `{ TYPE x ...; x OP c; if (x == RESULT) g(); }` must not be "always false" */
int main(int argc, char **argv) {
    const std::string ty = argv[1], pre = argv[2], op = argv[3], c = argv[4], res = argv[5];
    const std::string code = "void g(void); void f(" + ty + " p) { " + ty + " x = p; " + pre + " { x " + op + " " + c + "; if (x == " + res + ") { g(); } } }";
    Settings settings; Log log;
    Tokenizer tokenizer(TokenList(settings, Standards::Language::C), log);
    tokenizer.list.appendFileIfNew("t.c");
    if (!tokenizer.list.createTokensFromBuffer(code.data(), code.size()) || !tokenizer.simplifyTokens1("")) { printf("tokenizing failed\n"); return 2; }
    printf("%s\n", code.c_str());
    for (const Token *tok = tokenizer.tokens(); tok; tok = tok->next()) {
        if (tok->str() != "==") continue;
        if (!tok->hasKnownIntValue()) { printf("the comparison has no known value\n"); return 0; }
        printf("the comparison has the known value %lld although a witness makes it true\n", (long long)tok->getKnownIntValue());
        return tok->getKnownIntValue() == 0 ? 1 : 0;
    }
    return 2;
}
'''


def build(ctx):
    kb = KernelBuild(ID, TITLE)
    enums, _ = _common.valuetype_enums()
    vts, vtloc = _common.valuetype_struct()
    trunc, n = k01_truncate.truncate_with_contract(kb, ID)
    csign, kcs = _common.conversion_sign(kb, ID); n += kcs
    src = "lib/vf_analyzers.cpp"
    # ---- the guard of isWritable
    fw = extract.locate_function(src, r'^\s*virtual Action isWritable\(const Token\* tok, Direction d\) const')
    mk = extract.mask(fw.text, keep_strings=True)
    gs = list(re.finditer(r'if \(value->isImpossible\(\) && !Token::Match\(parent, "[^"]*"\)\)\s*return Action::None\s*;', mk))
    if len(gs) != 1:
        raise extract.ExtractError("isWritable: guard for impossible values found %d times" % len(gs))
    regg = extract.Located(src, fw.text[gs[0].start():gs[0].end()], fw.start + gs[0].start(), fw.start + gs[0].end(), extract.read(src))
    kb.add_located("ValueFlowAnalyzer::isWritable [guard: which operators update an impossible value]", regg, "region")
    tg, k = located_rules(regg, [
        (r'\bvalue->isImpossible\(\)', 'impossible', 1, 1),
        (r'Token::Match\(parent,\s*("(?:[^"\\]|\\.)*")\)', r'op_in(op, op_len, \1)', 1, 1),
        (r'return Action::None\s*;', 'return 0;', 1, 1),
    ], ID + ".guard"); n += k
    guard = "static _Bool writable_guard(_Bool impossible, const char *op, size_t op_len)\n{\n    %s\n    return 1;\n}\n" % tg.strip()
    # ---- evalAssignment
    fe = extract.locate_function(src, r'^\s*static bool evalAssignment\(Value& lhsValue, const std::string& assign, const ValueFlow::Value& rhsValue\)')
    kb.add_located("ValueFlowAnalyzer::evalAssignment", fe)
    te, k = located_rules(fe, [
        (r'^\s*static bool evalAssignment\(Value& lhsValue, const std::string& assign, const ValueFlow::Value& rhsValue\)', 'static _Bool evalAssignment(struct VValue *lhsValue, const char *assign, size_t assign_len, bigint rhs)', 1, 1),
        (r'\blhsValue\.isSymbolicValue\(\) && rhsValue\.isIntValue\(\)', '0 /* symbolic values are not modelled */', 1, 1),
        (r'\blhsValue\.isIntValue\(\) && rhsValue\.isIntValue\(\)', '1 /* integer value, integer right-hand side */', 1, 1),
        (r'\blhsValue\.isFloatValue\(\) && rhsValue\.isIntValue\(\)', '0', 1, 1),
        (r'\bassign != ("(?:[^"\\]|\\.)*")', r'!vstr_eq(assign, assign_len, \1)', 2, 2),
        (r'assignValueIfMutable\(lhsValue\.intvalue,\s*calculateAssign\(assign, lhsValue\.intvalue, rhsValue\.intvalue, &error\)\)\s*;', 'lhsValue->intvalue = calc_assign(assign, assign_len, lhsValue->intvalue, rhs, &error);', 2, 2),
        (r'assignValueIfMutable\(lhsValue\.floatValue,\s*calculateAssign\(assign, lhsValue\.floatValue, rhsValue\.intvalue, &error\)\)\s*;', ';', 1, 1),
        (r'\bbool error = false\s*;', '_Bool error = 0;', 1, 1),
    ], ID + ".evalAssignment"); n += k
    if re.search(r'lhsValue\.|rhsValue|std::|ValueFlow', extract.mask(te)):
        raise extract.ExtractError("K47: evalAssignment not fully lowered: %r" % re.findall(r'[^\n]*(?:lhsValue\.|rhsValue|std::|ValueFlow)[^\n]*', extract.mask(te))[:3])
    # ---- the assignment branch of writeValue
    fv = extract.locate_function(src, r'^\s*virtual void writeValue\(ValueFlow::Value\* value, const Token\* tok, Direction d\) const')
    mv = extract.mask(fv.text, keep_strings=True)
    s = list(re.finditer(r'if \(evalAssignment\(\*value, getAssign\(tok->astParent\(\), d\), rhsValue\)\)\s*\{', mv))
    e = list(re.finditer(r'std::string info\("Compound assignment', mv))
    if len(s) != 1 or len(e) != 1 or e[0].start() < s[0].end():
        raise extract.ExtractError("writeValue: assignment branch anchors not found")
    rega = extract.Located(src, fv.text[s[0].start():e[0].start()], fv.start + s[0].start(), fv.start + e[0].start(), extract.read(src))
    kb.add_located("ValueFlowAnalyzer::writeValue [compound assignment: evaluation and conversion]", rega, "region")
    ta, k = located_rules(rega, _common.VT_RULES + [
        (r'evalAssignment\(\*value, getAssign\(tok->astParent\(\), d\), rhsValue\)', 'evalAssignment(v, assign, assign_len, rhs)', 1, 1),
        (r'\bconst ValueType \*dst = tok->valueType\(\)\s*;', 'const struct ValueType *dst = dst_in;', 0, 1),
        (r'\bd == Direction::Forward\b', 'forward', 0, 1),
        (r'\bvalue->isIntValue\(\)', '1', 0, 1),
        (r'\bvalue->isImpossible\(\)', '(v->kind == K_IMPOSSIBLE)', 0, 1),
        (r'\btok->astParent\(\)->str\(\) != ("(?:[^"\\]|\\.)*")', r'!vstr_eq(assign, assign_len, \1)', 0, 1),
        (r'\bdst->getSizeOf\(settings,\s*ValueType::Accuracy::ExactOrZero,\s*ValueType::SizeOf::Pointer\)', 'sz_in', 0, 1),
        (r'\bValueFlow::truncateIntValue\(', 'truncateIntValue(', 0, 1),
        _common.CONVERSION_SIGN_CALL,
        (r'\bvalue->intvalue\b', 'v->intvalue', 0),
    ], ID + ".writeValue.assign"); n += k
    ta = extract.strip_comments(ta).rstrip()
    if re.search(r'\bvalue->|tok->|ValueFlow|settings|std::|Direction', extract.mask(ta)):
        raise extract.ExtractError("K47 writeValue: not fully lowered: %r" % re.findall(r'[^\n]*(?:\bvalue->|tok->|ValueFlow|settings|std::|Direction)[^\n]*', extract.mask(ta))[:3])
    opens = extract.mask(ta).count('{') - extract.mask(ta).count('}')
    if opens != 1:
        raise extract.ExtractError("K47 writeValue: expected the region to end inside the `if (evalAssignment...) {` block, found %d open blocks" % opens)
    ab = ("static void assign_block(struct VValue *v, const char *assign, size_t assign_len, bigint rhs, _Bool forward, const struct ValueType *dst_in, size_t sz_in, _Bool *updated)\n{\n%s\n    *updated = 1;\n}\n}\n" % ta)
    kb.rules_fired = n
    text = _common.BASE + enums + vts + PRELUDE + trunc + csign + guard + te + "\n" + ab
    extract.residue_scan(text, ID)
    kb.ctext = text + HARNESS
    kb.job("add", "h_compound", replace=["truncateIntValue"], unwind=8, replay="stmt", defines=["OPSEL=0"],
           note="x += c; known values for every 1/2/4-byte integer type, impossible values for int; every value the input fact allows, |c| < 2^31")
    kb.job("sub", "h_compound", replace=["truncateIntValue"], unwind=8, replay="stmt", defines=["OPSEL=1"], note="x -= c; as add")
    kb.job("mul", "h_compound", kind="bounded", replace=["truncateIntValue"], unwind=8, replay="stmt", defines=["OPSEL=2"],
           note="x *= c; variable values and bounds within 17 bits, |c| <= 512 (stated bound: wider multiplications do not finish)")
    kb.job("cover", "h_cover", kind="cover", replace=["truncateIntValue"], unwind=8, defines=["OPSEL=0"])
    kb.assumptions += ["calculateAssign / calculate are modelled for + - * (wrap-around, as proved for calculate in K06); getAssign in the forward direction is the operator itself",
                       "decided for the forward direction, integer values, right-hand sides below 2^31 in magnitude; symbolic, float and possible values are not constrained",
                       "impossible values of unsigned and of narrow signed variables (conversion wraps around) are the recorded finding K44.stmt-unsigned-wrap and are excluded here"]

    def rp(inputs, ctx):
        sz, sign, kind, bound, op = (int(inputs.get(k, 0) or 0) for k in ("g_in_sz", "g_in_sign", "g_in_kind", "g_in_bound", "g_in_op"))
        names = {(1, 2): "unsigned char", (2, 2): "unsigned short", (4, 2): "unsigned int", (1, 1): "signed char", (2, 1): "short", (4, 1): "int"}
        if (sz, sign) not in names:
            return "none", "no source-level replay for this type", ""
        v, x, c = int(inputs.get("g_in_v", 0)), int(inputs.get("g_in_x", 0)), int(inputs.get("g_in_c", 0))
        r = x + c if op == 0 else x - c if op == 1 else x * c
        bits = 8 * sz
        y = r & ((1 << bits) - 1)
        if sign == 1 and y >= (1 << (bits - 1)):
            y -= 1 << bits
        if kind == 0:
            pre = "if (x == %d)" % v
        else:
            pre = "if (x %s %d)" % ("!=" if bound == 2 else ">" if bound == 0 else "<", v)
        rc, o, cmd = native.compile_run("replay_K47", REPLAY_CPP, [names[(sz, sign)], pre, ["+=", "-=", "*="][op], "(%d)" % c, "(%d)" % y])
        return native.verdict_from_rc(rc, o), o, cmd
    kb.replayers["stmt"] = rp
    return kb
