"""K11  ErrorLogger::toxml   and   K12  ErrorMessage::fixInvalidChars  (lib/errorlogger.cpp).

Two obligations per function:
  (a) whole function, input of ANY length, output lowered to the 1-byte ghost-window sink:
      the output byte at an arbitrary position K is safe (XML: printable ASCII and none of < > " ';
      fixInvalidChars: isprint).  Loop contract, unbounded.
  (b) the loop body as a region, loop-free: for every input byte c the appended unit is exactly the
      unit the rules require (XML 1.0 entity / character reference decoding back to c; `\ooo` octal escape).
Together: every output is a concatenation of well-formed units, for all inputs.
"""
import re

from vlib import extract, native
from vlib.kernel import KernelBuild, located_rules
from . import _common

ID = "K11"
SERVES = ["C26", "C14", "C13"]
TITLE = "toxml / fixInvalidChars byte-level escaping"

SINK = r'''
#include "vout.h"
#include "vwin.h"
#ifdef SINK_WIN
#define SINK vwin
#define OUT_CH(o, c) vwin_ch(o, c)
#define OUT_NUM(o, v, b, w, f) vwin_num_u8(o, v, b, w, f)
#else
#define SINK vout
#define OUT_CH(o, c) vout_ch(o, c)
static inline void vout_num_u8(struct vout *o, unsigned v, unsigned base, unsigned width, char fill)
{
    struct vwin w; w.len = 0; w.K = (size_t)-1;   /* reuse the loop-free formatter: replay it byte by byte */
    __CPROVER_assert(v < 256 && (base == 8 || base == 10 || base == 16) && width <= 4, "vout_num_u8: supported formatting");
    unsigned d2 = (v / (base * base)) % base, d1 = (v / base) % base, d0 = v % base;
    unsigned n = d2 != 0 ? 3 : (d1 != 0 ? 2 : 1);
    if (width > n + 2) vout_ch(o, fill);
    if (width > n + 1) vout_ch(o, fill);
    if (width > n) vout_ch(o, fill);
    if (n >= 3) vout_ch(o, (char)(d2 < 10 ? '0' + d2 : 'a' + (d2 - 10)));
    if (n >= 2) vout_ch(o, (char)(d1 < 10 ? '0' + d1 : 'a' + (d1 - 10)));
    vout_ch(o, (char)(d0 < 10 ? '0' + d0 : 'a' + (d0 - 10)));
}
#define OUT_NUM(o, v, b, w, f) vout_num_u8(o, v, b, w, f)
#endif
#define XMLSAFE(b) ((b) >= 0x20 && (b) <= 0x7f && (b) != '<' && (b) != '>' && (b) != '"' && (b) != '\'')
#define PRINTABLE(b) ((b) >= 0x20 && (b) <= 0x7e)
'''

TOXML_CONTRACT = r'''
#ifdef SINK_WIN
__CPROVER_requires(str_len <= 1000000 && __CPROVER_is_fresh(str, str_len + 1))
__CPROVER_requires(__CPROVER_is_fresh(xml, sizeof(*xml)) && xml->len == 0)
__CPROVER_assigns(__CPROVER_object_whole(xml))
#ifndef TWIN
__CPROVER_ensures(xml->len > xml->K ==> XMLSAFE(xml->win[0]))
__CPROVER_ensures(xml->len >= str_len)
#else
__CPROVER_ensures(xml->len > xml->K ==> (XMLSAFE(xml->win[0]) && xml->win[0] != '&'))
#endif
#endif
'''
TOXML_LOOP = r'''
#ifdef SINK_WIN
__CPROVER_assigns(i_, __CPROVER_object_whole(xml))
__CPROVER_loop_invariant(i_ <= str_len && xml->K == __CPROVER_loop_entry(xml->K) && xml->len >= i_ && xml->len <= 6 * i_)
__CPROVER_loop_invariant(xml->len > xml->K ==> XMLSAFE(xml->win[0]))
__CPROVER_decreases(str_len - i_)
#endif
'''
FIX_CONTRACT = r'''
#ifdef SINK_WIN
__CPROVER_requires(raw_len <= 1000000 && __CPROVER_is_fresh(raw, raw_len + 1))
__CPROVER_requires(__CPROVER_is_fresh(result, sizeof(*result)) && result->len == 0)
__CPROVER_assigns(__CPROVER_object_whole(result))
#ifndef TWIN
__CPROVER_ensures(result->len > result->K ==> PRINTABLE(result->win[0]))
__CPROVER_ensures(result->len >= raw_len)
#else
__CPROVER_ensures(result->len == raw_len)
#endif
#endif
'''
FIX_LOOP = r'''
#ifdef SINK_WIN
__CPROVER_assigns(from, __CPROVER_object_whole(result))
__CPROVER_loop_invariant(__CPROVER_same_object(from, raw) && (size_t)__CPROVER_POINTER_OFFSET(from) <= raw_len)
__CPROVER_loop_invariant(result->K == __CPROVER_loop_entry(result->K) && result->len >= (size_t)__CPROVER_POINTER_OFFSET(from) && result->len <= 4 * (size_t)__CPROVER_POINTER_OFFSET(from))
__CPROVER_loop_invariant(result->len > result->K ==> PRINTABLE(result->win[0]))
__CPROVER_decreases(raw_len - (size_t)__CPROVER_POINTER_OFFSET(from))
#endif
'''

HARNESS = r'''
int g_in_c;
#ifdef SINK_WIN
void h_toxml(void) { const char *s; size_t n = nondet_size_t(); struct vwin *o; toxml(s, n, o); }
void h_fix(void) { const char *s; size_t n = nondet_size_t(); struct vwin *o; fixInvalidChars(s, n, o); }
#else
/* XML 1.0: decode one unit (a character, a predefined entity or a decimal character reference); -1 = malformed */
static int xml_decode_unit(const unsigned char *u, size_t n)
{
    if (n == 0) return -1;
    if (u[0] != '&') return (n == 1 && u[0] != '<' && u[0] >= 0x20) ? u[0] : -1;
    if (u[n - 1] != ';') return -1;
    if (n == 4 && u[1] == 'l' && u[2] == 't') return '<';
    if (n == 4 && u[1] == 'g' && u[2] == 't') return '>';
    if (n == 5 && u[1] == 'a' && u[2] == 'm' && u[3] == 'p') return '&';
    if (n == 6 && u[1] == 'q' && u[2] == 'u' && u[3] == 'o' && u[4] == 't') return '"';
    if (n == 6 && u[1] == 'a' && u[2] == 'p' && u[3] == 'o' && u[4] == 's') return '\'';
    if (n >= 4 && n <= 6 && u[1] == '#') { int v = 0; for (size_t i = 2; i < 6; i++) if (i < n - 1) { if (u[i] < '0' || u[i] > '9') return -1; v = v * 10 + (u[i] - '0'); } return v; }
    return -1;
}
void h_toxml_unit(void) {
    unsigned char c = nondet_uchar(); g_in_c = c;
    struct vout o; vout_init(&o);
    toxml_unit(c, &o);
    __CPROVER_assert(!o.overflow && o.len >= 1 && o.len <= 6, "unit length 1..6");
    for (size_t i = 0; i < 6; i++) if (i < o.len) __CPROVER_assert(XMLSAFE(o.buf[i]) && (o.buf[i] != '&' || i == 0), "unit bytes are XML-safe; & only starts an entity");
    int d = xml_decode_unit(o.buf, o.len);
    /* printable ASCII and the XML whitespace characters survive a round trip through an XML parser */
    __CPROVER_assert(!((c >= 0x20 && c <= 0x7f) || c == '\n' || c == '\t' || c == '\r') || d == c, "XML decoding of the unit gives back the character");
    __CPROVER_assert(c != 0 || (o.len == 2 && o.buf[0] == '\\' && o.buf[1] == '0'), "NUL is written as \\0");
    __CPROVER_assert(!(c != 0 && c != '\n' && c != '\t' && c != '\r' && (c < 0x20 || c > 0x7f)) || (o.len == 1 && o.buf[0] == 'x'), "other control and non-ASCII bytes are replaced by x");
}
void h_fix_unit(void) {
    char c = nondet_char(); g_in_c = (unsigned char)c; unsigned char uc = (unsigned char)c;
    struct vout o; vout_init(&o);
    fix_unit(&c, &o);
    __CPROVER_assert(!o.overflow, "sink capacity");
    __CPROVER_assert(!(uc >= 0x20 && uc <= 0x7e) || (o.len == 1 && o.buf[0] == uc), "printable bytes are copied");
    __CPROVER_assert((uc >= 0x20 && uc <= 0x7e) || (o.len == 4 && o.buf[0] == '\\' && o.buf[1] == '0' + ((uc >> 6) & 7) && o.buf[2] == '0' + ((uc >> 3) & 7) && o.buf[3] == '0' + (uc & 7)),
                     "other bytes become a backslash and their 3-digit octal value");
}
void h_cover(void) {
    unsigned char c = nondet_uchar(); struct vout o; vout_init(&o); toxml_unit(c, &o);
    __CPROVER_assert(!(o.len == 6), "COVER: a 6-byte entity");
    __CPROVER_assert(!(o.len == 1 && o.buf[0] == 'x' && c != 'x'), "COVER: replacement by x");
    char d = nondet_char(); struct vout p; vout_init(&p); fix_unit(&d, &p);
    __CPROVER_assert(!(p.len == 4), "COVER: octal escape");
}
#endif
'''

REPLAY_CPP = r'''
#include "errorlogger.h"
#include <cstdio>
#include <cstdlib>
#include <string>
int main(int argc, char **argv) {
    std::string fn = argv[1]; unsigned char c = (unsigned char)atoi(argv[2]); std::string in(1, (char)c), out, want;
    if (fn == "toxml") {
        out = ErrorLogger::toxml(in);
        switch (c) { case '<': want = "&lt;"; break; case '>': want = "&gt;"; break; case '&': want = "&amp;"; break; case '"': want = "&quot;"; break; case '\'': want = "&apos;"; break;
          case 0: want = "\\0"; break; case '\n': want = "&#10;"; break; case '\t': want = "&#09;"; break; case '\r': want = "&#13;"; break;
          default: want = (c >= 0x20 && c <= 0x7f) ? in : std::string("x"); }
        /* &#9; and &#09; both decode to TAB: accept any correct decimal reference */
        bool ok = out == want || (c == '\t' && out == "&#9;");
        printf("toxml(byte %u) = \"%s\", XML rules want \"%s\"\n", c, out.c_str(), want.c_str()); return ok ? 0 : 1;
    }
    out = ErrorMessage::fixInvalidChars(in);
    if (c >= 0x20 && c <= 0x7e) want = in; else { char b[8]; snprintf(b, sizeof b, "\\%03o", c); want = b; }
    printf("fixInvalidChars(byte %u) = \"%s\", expected \"%s\"\n", c, out.c_str(), want.c_str());
    return out == want ? 0 : 1;
}
'''


def expand_lit(var, lit):
    """`xml += "lit"` -> one OUT_CH per character (loop-free)."""
    body = lit[1:-1]
    chars = re.findall(r'\\.|[^\\]', body)
    return " ".join("OUT_CH(%s, '%s');" % (var, "\\'" if ch == "'" else ('"' if ch == '\\"' else ch)) for ch in chars)


def build(ctx):
    kb = KernelBuild(ID, TITLE)
    out = [_common.BASE, SINK]
    n = 0
    # ---- toxml
    lt = extract.locate_function("lib/errorlogger.cpp", r'^std::string ErrorLogger::toxml\s*\(')
    kb.add_located("ErrorLogger::toxml", lt)
    lit_rule = (r'\bxml\s*\+=\s*("(?:\\.|[^"\\])*")\s*;', lambda mo: expand_lit("xml", mo.group(1)), 9)
    t, k = located_rules(lt, [
        (r'^std::string ErrorLogger::toxml\s*\(\s*const std::string\s*&\s*str\s*\)', 'void toxml(const char *str, size_t str_len, struct SINK *xml)', 1, 1),
        (r'std::string\s+xml\s*;', '', 1, 1),
        (r'for\s*\(\s*const unsigned char c\s*:\s*str\s*\)\s*\{', 'for (size_t i_ = 0; i_ < str_len; i_++) { const unsigned char c = (unsigned char)str[i_];', 1, 1),
        lit_rule,
        (r'\bxml\s*\+=\s*(c|\'(?:\\.|[^\'\\])\')\s*;', r'OUT_CH(xml, \1);', 2),
        (r'return\s+xml\s*;', 'return;', 1, 1),
    ], ID + ".toxml"); n += k
    sig, body = extract.body_of(t)
    body = extract.insert_loop_contracts(body, [TOXML_LOOP], ID + ".toxml")
    out.append("%s\n%s%s\n" % (sig, TOXML_CONTRACT, body))
    # loop body as a region: the switch statement
    f = lt
    mb = extract.mask(f.text)
    ms = list(re.finditer(r'\bswitch\s*\(\s*c\s*\)\s*\{', mb))
    if len(ms) != 1:
        raise extract.ExtractError("toxml: expected one `switch (c) {`")
    ob = ms[0].end() - 1
    cb = extract.match_brace(f.text, ob, mb)
    reg = extract.Located("lib/errorlogger.cpp", f.text[ms[0].start():cb + 1], f.start + ms[0].start(), f.start + cb + 1, extract.read("lib/errorlogger.cpp"))
    kb.add_located("ErrorLogger::toxml [loop body]", reg, "region")
    t, k = located_rules(reg, [lit_rule, (r'\bxml\s*\+=\s*(c|\'(?:\\.|[^\'\\])\')\s*;', r'OUT_CH(xml, \1);', 2)], ID + ".toxml.unit"); n += k
    out.append("#ifndef SINK_WIN\nvoid toxml_unit(const unsigned char c, struct SINK *xml)\n{\n%s\n}\n#endif\n" % t)
    # ---- fixInvalidChars
    lf = extract.locate_function("lib/errorlogger.cpp", r'^std::string ErrorMessage::fixInvalidChars\s*\(')
    kb.add_located("ErrorMessage::fixInvalidChars", lf)
    fix_rules = [
        (r'std::ostringstream\s+es\s*;', '', 1, 1),
        (r'es\s*<<\s*(\'(?:\\.|[^\'\\])\')\s*<<\s*std::setbase\((\d+)\)\s*<<\s*std::setw\((\d+)\)\s*<<\s*std::setfill\((\'(?:\\.|[^\'\\])\')\)\s*<<\s*uFrom\s*;',
         r'OUT_CH(result, \1); OUT_NUM(result, uFrom, \2, \3, \4);', 1, 1),
        (r'result\s*\+=\s*es\.str\(\)\s*;', '', 1, 1),
        (r'result\.push_back\(\*from\)\s*;', 'OUT_CH(result, *from);', 1, 1),
    ]
    t, k = located_rules(lf, [
        (r'^std::string ErrorMessage::fixInvalidChars\s*\(\s*const std::string\s*&\s*raw\s*\)', 'void fixInvalidChars(const char *raw, size_t raw_len, struct SINK *result)', 1, 1),
        (r'std::string\s+result\s*;', '', 1, 1),
        (r'result\.reserve\(raw\.length\(\)\)\s*;', '', 1, 1),
        (r'\bauto\s+from\s*=\s*raw\.cbegin\(\)\s*;', 'const char *from = raw;', 1, 1),
        (r'\braw\.cend\(\)', '(raw + raw_len)', 1, 1),
        (r'return\s+result\s*;', 'return;', 1, 1),
    ] + fix_rules, ID + ".fix"); n += k
    sig, body = extract.body_of(t)
    body = extract.insert_loop_contracts(body, [FIX_LOOP], ID + ".fix")
    out.append("%s\n%s%s\n" % (sig, FIX_CONTRACT, body))
    # loop body region: the if/else
    mb = extract.mask(lf.text)
    ms = list(re.finditer(r'\bif\s*\(\s*std::isprint\(', mb))
    me = list(re.finditer(r'\+\+from\s*;', mb))
    if len(ms) != 1 or len(me) != 1:
        raise extract.ExtractError("fixInvalidChars: loop body anchors not found")
    reg = extract.Located("lib/errorlogger.cpp", lf.text[ms[0].start():me[0].start()], lf.start + ms[0].start(), lf.start + me[0].start(), extract.read("lib/errorlogger.cpp"))
    kb.add_located("ErrorMessage::fixInvalidChars [loop body]", reg, "region")
    t, k = located_rules(reg, fix_rules, ID + ".fix.unit"); n += k
    out.append("#ifndef SINK_WIN\nvoid fix_unit(const char *from, struct SINK *result)\n{\n%s\n}\n#endif\n" % t)
    kb.rules_fired = n
    text = "".join(out)
    extract.residue_scan(text, ID)
    kb.ctext = text + HARNESS
    kb.job("toxml.window", "h_toxml", enforce="toxml", loop_contracts=True, defines=["SINK_WIN"], search="toxml.unit", replay="toxml")
    kb.job("toxml.window.twin", "h_toxml", kind="twin", enforce="toxml", loop_contracts=True, defines=["SINK_WIN", "TWIN"])
    kb.job("toxml.unit", "h_toxml_unit", unwind=10, defines=["VOUT_CAP=8"], replay="toxml",
           note="loop-free region; helper loops run over the 6-byte unit only (fully unwound, complete)")
    j = kb.job("fix.window", "h_fix", enforce="fixInvalidChars", loop_contracts=True, defines=["SINK_WIN"], search="fix.unit", replay="fix")
    j.props = ["C26", "C13"]
    j = kb.job("fix.window.twin", "h_fix", kind="twin", enforce="fixInvalidChars", loop_contracts=True, defines=["SINK_WIN", "TWIN"])
    j.props = ["C26", "C13"]
    j = kb.job("fix.unit", "h_fix_unit", unwind=10, defines=["VOUT_CAP=8"], replay="fix", note="loop-free region (complete)")
    j.props = ["C26", "C13"]
    kb.job("cover", "h_cover", kind="cover", unwind=10, defines=["VOUT_CAP=8"])
    kb.assumptions += ["std::string output lowered to a sink; `xml += \"lit\"` expanded into one append per character; the ostringstream formatting chain "
                       "'\\\\' << setbase(B) << setw(W) << setfill(F) << uFrom is lowered to OUT_CH + OUT_NUM(uFrom, B, W, F) with B, W, F captured from the source",
                       "isprint: CBMC's model (C locale: 0x20..0x7e)",
                       "tinyxml2's own attribute escaping (applied after fixInvalidChars) is external"]

    def mk(fn):
        def rp(inputs, ctx):
            rc, o, cmd = native.compile_run("replay_K11", REPLAY_CPP, [fn, inputs.get("g_in_c", 0)])
            return native.verdict_from_rc(rc, o), o, cmd
        return rp
    kb.replayers["toxml"] = mk("toxml")
    kb.replayers["fix"] = mk("fix")
    return kb
