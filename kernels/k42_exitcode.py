"""K42  the two ends of the exit status (property C25):

A. CppCheckLogger::reportErr (lib/cppcheck.cpp) - the per-message decision `mExitCode = 1`.  Every call it makes
   (suppression lookups, message rendering, duplicate filter, forwarding to the user's ErrorLogger) is an oracle or a ghost
   counter; the data-only blocks (macro names of the location, remark comment lookup) are dropped by pinned rules.
   Contract (outside --safety):  the exit code is raised only by a call that also forwards a non-internal message to the
   user, and every forwarded non-internal message that no --exitcode-suppressions / --suppress entry matches raises it.
B. the tail of CppCheckExecutor::check_internal (cli/cppcheckexecutor.cpp) from `unsigned int returnValue = 0;`: the executors'
   and the whole-program analysis' results and the unmatched-suppression report are oracles.
   Contract (outside --safety):  the process exits with settings.exitCode exactly when one of them reported, else with 0.
The chain between the two (CppCheck::check returning the logger's exit code, the executors adding the values up) is not verified.
"""
import re

from vlib import extract, native
from vlib.kernel import KernelBuild, located_rules
from . import _common

ID = "K42"
SERVES = ["C25", "C13"]
TITLE = "exit status: raised exactly by reported, not exitcode-suppressed findings; final status from the accumulated results"

HARNESS = r'''
int g_fwd, g_fwd_internal, g_ai, g_plist;
#define FORWARD() do { g_fwd++; } while (0)
#define FORWARD_INTERNAL() do { g_fwd_internal++; } while (0)
int g_in_internal, g_in_lib, g_in_scoped, g_in_explicit, g_in_any, g_in_nofail, g_in_safety, g_in_critical, g_in_empty, g_in_dups, g_in_inserted, g_in_exit0;
void h_report(void) {
    _Bool msg_internal = nondet_bool(), lib_reports = nondet_bool(), nomsg_scoped = nondet_bool(), nomsg_explicit = nondet_bool(), nomsg_any = nondet_bool(), nofail_any = nondet_bool();
    _Bool safety = nondet_bool(), critical = nondet_bool(), errmsg_empty = nondet_bool(), emitDuplicates = nondet_bool(), inserted = nondet_bool(), has_ai = nondet_bool(), has_remark = nondet_bool(), plist_on = nondet_bool();
    unsigned exitcode = nondet_unsigned(); __CPROVER_assume(exitcode <= 1);
    /* a suppression that matches with the restricted scope also matches with the full scope; an explicit match is a match */
    __CPROVER_assume((!nomsg_scoped || nomsg_any) && (!nomsg_explicit || nomsg_scoped));
    g_in_internal = msg_internal; g_in_lib = lib_reports; g_in_scoped = nomsg_scoped; g_in_explicit = nomsg_explicit; g_in_any = nomsg_any; g_in_nofail = nofail_any; g_in_safety = safety; g_in_critical = critical;
    g_in_empty = errmsg_empty; g_in_dups = emitDuplicates; g_in_inserted = inserted; g_in_exit0 = exitcode;
    const unsigned before = exitcode; g_fwd = 0; g_fwd_internal = 0; g_ai = 0; g_plist = 0;
    logger_reportErr(msg_internal, lib_reports, nomsg_scoped, nomsg_explicit, nomsg_any, nofail_any, safety, critical, errmsg_empty, emitDuplicates, inserted, has_ai, has_remark, plist_on, &exitcode);
    __CPROVER_assert(exitcode <= 1 && exitcode >= before, "the exit code is 0 or 1 and never lowered by a message");
    __CPROVER_assert(g_fwd + g_fwd_internal <= 1, "a message is forwarded to the user at most once");
    if (!safety) {
        __CPROVER_assert(!(exitcode == 1 && before == 0) || (g_fwd == 1 && !msg_internal), "the exit code is raised only together with a finding that is reported to the user");
        __CPROVER_assert(!(g_fwd == 1 && !msg_internal && !nofail_any && !nomsg_any) || exitcode == 1, "a reported finding that no exitcode-suppression and no suppression matches raises the exit code");
        __CPROVER_assert(!(g_fwd == 1 && !msg_internal && nofail_any) || exitcode == before, "a finding matched by --exitcode-suppressions does not raise the exit code");
    }
    __CPROVER_assert(!(msg_internal) || exitcode == before, "internal messages (checkers report, progress) never change the exit code");
}
int g_in_rexec, g_in_rwhole, g_in_unmatched, g_in_code, g_in_cond;
void h_final(void) {
    unsigned r_exec = nondet_unsigned(), r_whole = nondet_unsigned(); _Bool single_job = nondet_bool(), exec_thread = nondet_bool(), info_enabled = nondet_bool(), check_config = nondet_bool(), have_suppr = nondet_bool(), unmatched_err = nondet_bool();
    _Bool safety = nondet_bool(), critical = nondet_bool(); int exit_code = nondet_int();
    g_in_rexec = r_exec; g_in_rwhole = r_whole; g_in_unmatched = unmatched_err; g_in_code = exit_code; g_in_cond = (info_enabled || check_config) && have_suppr;
    int st = check_internal_tail(r_exec, r_whole, single_job, exec_thread, info_enabled, check_config, have_suppr, unmatched_err, safety, critical, exit_code);
    if (safety && critical) __CPROVER_assert(st == 1, "safety mode with critical errors fails");
    else {
        _Bool reported = r_exec != 0 || r_whole != 0 || (((info_enabled || check_config) && have_suppr) && unmatched_err);
        __CPROVER_assert(st == (reported ? exit_code : 0), "exit status: --error-exitcode value exactly when a finding was reported, 0 otherwise");
    }
}
void h_cover(void) {
    unsigned e = 0; g_fwd = 0; g_fwd_internal = 0;
    logger_reportErr(0, 1, 0, 0, 0, 0, 0, 0, 0, 0, 1, 0, 0, 0, &e);
    __CPROVER_assert(!(e == 1 && g_fwd == 1), "COVER: a plain finding is forwarded and raises the exit code");
    int st = check_internal_tail(0, 0, 1, 0, 1, 0, 1, 1, 0, 0, 7);
    __CPROVER_assert(!(st == 7), "COVER: only an unmatched suppression -> exit code 7");
}
'''

REPLAY_CPP = r'''
#include <cstdio>
int main() { printf("K42: the counterexample is a valuation of the oracles of CppCheckLogger::reportErr / check_internal (see counterexample_inputs); observe with `cppcheck --error-exitcode=7 [--exitcode-suppressions=f] file; echo $?`\n"); return 0; }
'''


def drop_block(text, start_rx, what):
    """remove `start_rx ... {balanced}` (a statement with a braced body) from text; must occur exactly once"""
    m = extract.mask(text, keep_strings=False)
    ms = list(re.finditer(start_rx, m))
    if len(ms) != 1:
        raise extract.ExtractError("%s: block start found %d times" % (what, len(ms)))
    ob = m.find('{', ms[0].start())
    cb = extract.match_brace(text, ob, m)
    return text[:ms[0].start()] + text[cb + 1:]


def build(ctx):
    kb = KernelBuild(ID, TITLE)
    n = 0
    # ---- A: CppCheckLogger::reportErr
    f = extract.locate_function("lib/cppcheck.cpp", r'^\s*void reportErr\(const ErrorMessage &msg\) override', within=r'class CppCheck::CppCheckLogger')
    kb.add_located("CppCheck::CppCheckLogger::reportErr", f)
    sig, body = extract.body_of(extract.strip_comments(f.text))
    body = drop_block(body, r'if\s*\(\s*!msg\.callStack\.empty\(\)\s*\)\s*\{\s*const std::string &file', "reportErr macro-name lookup")
    body = drop_block(body, r'if\s*\(\s*!msg\.callStack\.empty\(\)\s*\)\s*\{\s*for\s*\(const auto& r: mRemarkComments\)', "reportErr remark lookup")
    t, k = extract.apply_rules(body, [
        (r'std::set<std::string> macroNames\s*;', '', 1, 1),
        (r'const auto errorMessage = SuppressionList::ErrorMessage::fromErrorMessage\(msg, macroNames\)\s*;', '', 1, 1),
        (r'\bmsg\.severity == Severity::internal\b', 'msg_internal', 1, 1),
        (r'!mSettings\.library\.reportErrors\(msg\.file0\)', '!lib_reports', 1, 1),
        (r'\bmSuppressions\.nomsg\.isSuppressed\(errorMessage,\s*mUseGlobalSuppressions\)', 'nomsg_scoped', 1, 1),
        (r'\bmSuppressions\.nomsg\.isSuppressedExplicitly\(errorMessage,\s*mUseGlobalSuppressions\)', 'nomsg_explicit', 1, 1),
        (r'\bmSuppressions\.nofail\.isSuppressed\(errorMessage\)', 'nofail_any', 1, 1),
        (r'\bmSuppressions\.nomsg\.isSuppressed\(errorMessage\)', 'nomsg_any', 2, 2),
        (r'\bmSettings\.safety && ErrorLogger::isCriticalErrorId\(msg\.id\)', 'safety && critical', 1, 1),
        (r'ErrorMessage temp\(msg\)\s*;\s*temp\.severity = Severity::internal\s*;\s*mErrorLogger\.reportErr\(temp\)\s*;', 'FORWARD_INTERNAL();', 1, 1),
        (r'ErrorMessage msg2\(msg\)\s*;\s*msg2\.remark = std::move\(remark\)\s*;\s*mErrorLogger\.reportErr\(msg2\)\s*;', 'FORWARD();', 1, 1),
        (r'std::string errmsg = msg\.toString\([^;]*\)\s*;', '', 1, 1),
        (r'\berrmsg\.empty\(\)', 'errmsg_empty', 1, 1),
        (r'!mSettings\.emitDuplicates && !mErrorList\.emplace\(std::move\(errmsg\)\)\.second', '!emitDuplicates && !inserted', 1, 1),
        (r'if \(mAnalyzerInformation\)\s*mAnalyzerInformation->reportErr\(msg\)\s*;', 'if (has_ai) g_ai++;', 1, 1),
        (r'std::string remark\s*;', '', 1, 1),
        (r'!remark\.empty\(\)', 'has_remark', 1, 1),
        (r'!mSettings\.plistOutput\.empty\(\) && mPlistFile\.is_open\(\)', 'plist_on', 1, 1),
        (r'mPlistFile << ErrorLogger::plistData\(msg\)\s*;', 'g_plist++;', 1, 1),
        # an internal message goes to the user's logger as it is (checkers report, progress ...): it is not a finding
        (r'if \(msg_internal\) \{\s*mErrorLogger\.reportErr\(msg\)\s*;', 'if (msg_internal) { FORWARD_INTERNAL();', 1, 1),
        (r'\bmErrorLogger\.reportErr\(msg\)\s*;', 'FORWARD();', 2, 2),
        (r'\bmExitCode = 1\s*;', '*exitcode = 1;', 2, 2),
    ], ID + ".reportErr"); n += sum(c for _, c in k)
    if re.search(r'\bmsg\b|mSettings|mSuppressions|mErrorLogger|std::|errorMessage', extract.mask(t)):
        raise extract.ExtractError("K42: reportErr not fully lowered: %r" % re.findall(r'[^\n]*(?:\bmsg\b|mSettings|mSuppressions|mErrorLogger|std::|errorMessage)[^\n]*', extract.mask(t))[:3])
    fa = ("void logger_reportErr(_Bool msg_internal, _Bool lib_reports, _Bool nomsg_scoped, _Bool nomsg_explicit, _Bool nomsg_any, _Bool nofail_any, _Bool safety, _Bool critical, _Bool errmsg_empty,\n"
          "                      _Bool emitDuplicates, _Bool inserted, _Bool has_ai, _Bool has_remark, _Bool plist_on, unsigned *exitcode)\n%s\n" % t)
    # ---- B: tail of check_internal
    g = extract.locate_function("cli/cppcheckexecutor.cpp", r'^int CppCheckExecutor::check_internal\s*\(')
    gm = extract.mask(g.text)
    s = list(re.finditer(r'unsigned int returnValue = 0\s*;', gm))
    e = gm.rfind('}')
    if len(s) != 1:
        raise extract.ExtractError("check_internal: `unsigned int returnValue = 0;` not found")
    reg = extract.Located("cli/cppcheckexecutor.cpp", g.text[s[0].start():e], g.start + s[0].start(), g.start + e, extract.read("cli/cppcheckexecutor.cpp"))
    kb.add_located("CppCheckExecutor::check_internal [from the executors to the exit status]", reg, "region")
    tb = extract.strip_comments(reg.text)
    tb = re.sub(r'(?m)^\s*#\s*(?:if|endif)\b[^\n]*$', '', tb)          # both threading models are compiled in (HAS_THREADING_MODEL_THREAD / _FORK)
    tb = drop_block(tb, r'if\s*\(\s*timerResults\s*\)\s*\{', "check_internal timer results")
    tb = drop_block(tb, r'if\s*\(\s*settings\.outputFormat == Settings::OutputFormat::xml\s*\)\s*\{', "check_internal xml footer")
    tb, k = extract.apply_rules(tb, [
        (r'\b(?:Single|Thread|Process)Executor executor\([^;]*\)\s*;', '', 3, 3),
        (r'\bexecutor\.check\(\)', 'r_exec', 3, 3),
        (r'\bsettings\.useSingleJob\(\)', 'single_job', 1, 1),
        (r'\bsettings\.executor == Settings::ExecutorType::Thread\b', 'exec_thread', 1, 1),
        (r'\bsettings\.executor == Settings::ExecutorType::Process\b', '!exec_thread', 1, 1),
        (r'\bcppcheck\.analyseWholeProgram\([^;]*\)\s*;', 'r_whole;', 1, 1),
        (r'\(settings\.severity\.isEnabled\(Severity::information\) \|\| settings\.checkConfiguration\) && !supprs\.nomsg\.getSuppressions\(\)\.empty\(\)', '(info_enabled || check_config) && have_suppr', 1, 1),
        (r'\breportUnmatchedSuppressions\([^;]*\)\s*;', 'unmatched_err;', 1, 1),
        (r'\bstdLogger\.writeCheckersReport\(supprs\)\s*;', '', 1, 1),
        (r'\bsettings\.safety && stdLogger\.hasCriticalErrors\(\)', 'safety && critical', 1, 1),
        (r'\bsettings\.exitCode\b', 'exit_code', 2, 2),
        (r'\bconst bool err\b', 'const _Bool err', 1, 1),
        (r'\bEXIT_FAILURE\b', '1', 1, 1),
        (r'\bEXIT_SUCCESS\b', '0', 1, 1),
    ], ID + ".check_internal"); n += sum(c for _, c in k)
    if re.search(r'settings|stdLogger|cppcheck|supprs|std::|Executor', extract.mask(tb)):
        raise extract.ExtractError("K42: check_internal tail not fully lowered: %r" % re.findall(r'[^\n]*(?:settings|stdLogger|cppcheck|supprs|std::|Executor)[^\n]*', extract.mask(tb))[:3])
    fb = ("int check_internal_tail(unsigned r_exec, unsigned r_whole, _Bool single_job, _Bool exec_thread, _Bool info_enabled, _Bool check_config, _Bool have_suppr, _Bool unmatched_err, _Bool safety, _Bool critical, int exit_code)\n{\n%s\n}\n" % tb)
    kb.rules_fired = n
    # FORWARD macros must precede the functions: harness text supplies them, so the function texts go after the macro block
    head, rest = HARNESS.split("int g_in_internal", 1)
    text = _common.BASE + head + fa + fb
    extract.residue_scan(fa + fb, ID)
    kb.ctext = text + "int g_in_internal" + rest
    kb.job("reportErr", "h_report", replay="note", note="loop-free function; every valuation of its oracles")
    kb.job("final", "h_final", replay="note", note="loop-free region; every valuation of the executors' results and options")
    kb.job("cover", "h_cover", kind="cover")
    kb.assumptions += ["oracles: library.reportErrors, the three suppression lookups (scoped match implies full-scope match, explicit match implies match), toString().empty(), the duplicate filter's insertion result, executor.check(), analyseWholeProgram, reportUnmatchedSuppressions, hasCriticalErrors",
                       "dropped data-only blocks: macro names of the message location, remark-comment lookup, timer output, XML footer, checkers report",
                       "the chain CppCheck::check -> executor -> returnValue and the second duplicate filter in StdLogger are not verified"]

    def rnote(inputs, ctx):
        rc, o, cmd = native.compile_run("replay_K42", REPLAY_CPP, [], need_core=False)
        return "none", o, cmd
    kb.replayers["note"] = rnote
    return kb
