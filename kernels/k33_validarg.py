"""K33  the range test of Library::isIntArgValid (lib/library.cpp): the loop over the token list of a <valid> expression.

Region: from `for (const Token *tok = tokenList.front(); ...` to the final `return false;`.  Callees: the extracted
Token::Match interpreter and accessors (shared with K24), Token::tokAtImpl (token.h).  MathLib::toBigNumber(tok) is an
oracle that returns the number a token stands for and asserts that it is applied to a number token.

Postcondition (property C30): for a token list that spells a <valid> expression of the documented grammar
    list := item ',' { item ',' }        item := N | N ':' N | N ':' | ':' N          (N: integer, '-' merged into the number)
the result is true exactly when the argument value lies in one of the items (N: == ; a:b: a <= v <= b; a: : v >= a; :b : v <= b).
"""
import re

from vlib import extract, native
from vlib.kernel import KernelBuild, located_rules
from . import _common
from . import k24_match

ID = "K33"
SERVES = ["C30", "C13"]
TITLE = "Library::isIntArgValid: a constant is valid exactly when it lies in one of the declared ranges"

NI = 3     # items in the <valid> list

PRELUDE = r'''
static inline const struct Token *Token_previous(const struct Token *t) { return t->mPrevious; }
/* oracle for MathLib::toBigNumber(const Token*): the number the token spells (ghost field); only number tokens may be asked */
static bigint Token_num(const struct Token *t) { __CPROVER_assert(t != NULL && Token_isNumber(t), "MathLib::toBigNumber is applied to an existing number token"); return t->mNum; }
'''

HARNESS = r'''
#define NI @NI@
bigint g_in_v, g_in_a[NI], g_in_b[NI]; int g_in_k, g_in_shape[NI];
static char s_num[2] = "0", s_colon[2] = ":", s_comma[2] = ",";
static void set_num(struct Token *t, bigint v) { t->mStr = s_num; t->mStrLen = 1; t->mTokType = Token_eNumber; t->mFlags = 0; t->mVarId = 0; t->mNum = v; }
static void set_op(struct Token *t, char *s, enum TokType ty) { t->mStr = s; t->mStrLen = 1; t->mTokType = ty; t->mFlags = 0; t->mVarId = 0; t->mNum = nondet_bigint(); }
/* separate objects, not an array of structs: writes through a pointer into a struct array made the propositional encoding explode (46 M clauses) */
static struct Token T0, T1, T2, T3, T4, T5, T6, T7, T8, T9, T10, T11;
static struct Token *const TP[12] = { &T0, &T1, &T2, &T3, &T4, &T5, &T6, &T7, &T8, &T9, &T10, &T11 };
static _Bool want; static unsigned ntok; static const struct Token *front_tok;
static void mk_list(bigint v) {
    int k = nondet_int(); __CPROVER_assume(k >= 1 && k <= NI); g_in_k = k;
    unsigned n = 0; want = 0;
    /* item i lives in the fixed slots T[4i] = a, T[4i+1] = ':', T[4i+2] = b, T[4i+3] = ','; the slots its shape does not use are skipped by the links
       (fixed slots keep every pointer a choice between two objects instead of a symbolic array index) */
    struct Token *last = NULL;
    for (int i = 0; i < NI; i++) {
        int shape = nondet_int(); bigint a = nondet_bigint(), b = nondet_bigint();
        __CPROVER_assume(shape >= 0 && shape <= 3);
        if (shape == 1) __CPROVER_assume(a <= b);      /* a closed range lo:hi has lo <= hi */
        g_in_shape[i] = shape; g_in_a[i] = a; g_in_b[i] = b;
        struct Token *A = TP[4 * i], *C = TP[4 * i + 1], *B = TP[4 * i + 2], *S = TP[4 * i + 3];
        set_num(A, a); set_op(C, s_colon, Token_eExtendedOp); set_num(B, b); set_op(S, s_comma, Token_eExtendedOp);
        A->mNext = A->mPrevious = C->mNext = C->mPrevious = B->mNext = B->mPrevious = S->mNext = S->mPrevious = NULL;
        if (i < k) {
            struct Token *first;
            if (shape == 0) { first = A; A->mNext = S; S->mPrevious = A; n += 2; want = want || v == a; }
            else if (shape == 1) { first = A; A->mNext = C; C->mPrevious = A; C->mNext = B; B->mPrevious = C; B->mNext = S; S->mPrevious = B; n += 4; want = want || (a <= v && v <= b); }
            else if (shape == 2) { first = A; A->mNext = C; C->mPrevious = A; C->mNext = S; S->mPrevious = C; n += 3; want = want || v >= a; }
            else { first = C; C->mNext = B; B->mPrevious = C; B->mNext = S; S->mPrevious = B; n += 3; want = want || v <= b; }
            first->mPrevious = last; if (last) last->mNext = first; else front_tok = first;
            last = S;
        }
    }
    ntok = n;
}
void h_valid(void) {
    bigint v = nondet_bigint(); g_in_v = v;
    mk_list(v);
    verif_thrown = 0;
    _Bool r = isIntArgValid_loop(front_tok, v);
    __CPROVER_assert(!verif_thrown, "no internal error while matching the <valid> tokens");
    __CPROVER_assert(r == want, "isIntArgValid is true exactly when the value lies in one of the declared items");
}
void h_cover(void) {
    bigint v = nondet_bigint(); mk_list(v);
    _Bool r = isIntArgValid_loop(front_tok, v);
    __CPROVER_assert(!(r && ntok == 4 * NI), "COVER: a value is accepted by a list of NI closed ranges");
    __CPROVER_assert(!(!r && ntok == 4 * NI), "COVER: a value is rejected by a list of NI closed ranges");
    __CPROVER_assert(!(r && ntok == 2), "COVER: a value is accepted by a single number");
}
'''

REPLAY_CPP = r'''
#include "library.h"
#include "settings.h"
#include "tokenlist.h"
#include "token.h"
#include "xml.h"
#include <cstdio>
#include <cstdlib>
#include <string>
int main(int argc, char **argv) {
    long long v = atoll(argv[1]); int k = atoi(argv[2]);
    std::string valid; bool want = false;
    for (int i = 0; i < k; i++) {
        int shape = atoi(argv[3 + 3 * i]); long long a = atoll(argv[4 + 3 * i]), b = atoll(argv[5 + 3 * i]);
        if (i) valid += ",";
        if (shape == 0) { valid += std::to_string(a); want = want || v == a; }
        else if (shape == 1) { valid += std::to_string(a) + ":" + std::to_string(b); want = want || (a <= v && v <= b); }
        else if (shape == 2) { valid += std::to_string(a) + ":"; want = want || v >= a; }
        else { valid += ":" + std::to_string(b); want = want || v <= b; }
    }
    const std::string xml = "<?xml version=\"1.0\"?>\n<def>\n<function name=\"foo\"><arg nr=\"1\"><valid>" + valid + "</valid></arg></function>\n</def>";
    Settings settings; Library library;
    tinyxml2::XMLDocument doc;
    if (doc.Parse(xml.c_str(), xml.size()) != tinyxml2::XML_SUCCESS) { printf("xml parse failed\n"); return 2; }
    if (library.load(doc).errorcode != Library::ErrorCode::OK) { printf("library refused <valid>%s</valid>\n", valid.c_str()); return 2; }
    TokenList list(settings, Standards::Language::C);
    const char code[] = "foo(a);";
    if (!list.createTokensFromBuffer(code, sizeof(code) - 1)) { printf("tokenizing failed\n"); return 2; }
    list.front()->next()->astOperand1(list.front());
    const bool got = library.isIntArgValid(list.front(), 1, v, settings);
    printf("<valid>%s</valid> value %lld: isIntArgValid = %d, declared ranges say %d\n", valid.c_str(), v, (int)got, (int)want);
    return got == want ? 0 : 1;
}
'''


def build(ctx):
    kb = KernelBuild(ID, TITLE)
    base = k24_match.interpreter(kb, ID)
    n = kb.rules_fired
    # Token::tokAtImpl
    lt = extract.locate_function("lib/token.h", r'^\s*static\s+T\s*\*\s*tokAtImpl\s*\(\s*T\s*\*\s*tok\s*,\s*int\s+index\s*\)')
    kb.add_located("Token::tokAtImpl", lt)
    t, k = located_rules(lt, [
        (r'^\s*static\s+T\s*\*\s*tokAtImpl\s*\(\s*T\s*\*\s*tok\s*,\s*int\s+index\s*\)', 'static const struct Token *Token_tokAt(const struct Token *tok, int index)', 1, 1),
        (r'\btok->previous\(\)', 'Token_previous(tok)', 1),
    ] + k24_match.lower_token_exprs(), ID + ".tokAtImpl"); n += k
    tokat = t + "\n"
    # the loop of isIntArgValid
    f = extract.locate_function("lib/library.cpp", r'^bool Library::isIntArgValid\s*\(')
    m = extract.mask(f.text)
    s = list(re.finditer(r'for\s*\(\s*const\s+Token\s*\*\s*tok\s*=\s*tokenList\.front\(\)', m))
    e = m.rfind('}')
    if len(s) != 1 or not re.search(r'return\s+false\s*;\s*$', m[:e].rstrip() + "\n"):
        raise extract.ExtractError("isIntArgValid: token loop / final `return false;` not found")
    pre = extract.strip_comments(f.text[:s[0].start()])
    # what precedes the loop must be the argument lookup, the float hand-over and the tokenisation - nothing that decides validity
    if len(re.findall(r'\breturn\b', extract.mask(pre))) != 2 or not re.search(r'gettokenlistfromvalid\(ac->valid,\s*tokenList\)\s*;\s*$', pre.strip()):
        raise extract.ExtractError("isIntArgValid: unexpected code before the token loop: %r" % pre.strip()[-300:])
    src = extract.read("lib/library.cpp")
    reg = extract.Located("lib/library.cpp", f.text[s[0].start():e], f.start + s[0].start(), f.start + e, src)
    kb.add_located("Library::isIntArgValid [loop over the <valid> tokens]", reg, "region")
    # every Token::Match(tok, "P") of the region is replaced by the matcher the real tools/matchcompiler.py emits for P (the code a
    # build with the match compiler runs; its agreement with the interpreter is the subject of K24).  The interpreter itself merges
    # paths with different pattern pointers and did not fit in memory for 3-word patterns over 8 tokens.
    compiled = []

    def use_compiled(mo):
        nr = 900 + len(compiled)
        compiled.append(k24_match.lower_compiled(k24_match.compile_word(mo.group(2), nr, False), nr))
        return "match%d(%s, 0)" % (nr, mo.group(1))
    t, k = located_rules(reg, [
        (r'\btokenList\.front\(\)', 'front', 1, 1),
        (r'\bconst\s+Token\s*\*', 'const struct Token *', 1),
        (r'\bMathLib::toBigNumber\(tok->tokAt\((\d+)\)\)', r'Token_num(Token_tokAt(tok, \1))', 1),
        (r'\bMathLib::toBigNumber\(tok\)', 'Token_num(tok)', 1),
        (r'\btok->strAt\((-?\d+)\)\s*==\s*("(?:[^"\\]|\\.)*")', r'Token_strAt_eq(tok, \1, \2)', 0),
        (r'\btok->previous\(\)', 'Token_previous(tok)', 0),
        (r'\bToken::Match\(\s*(\w+)\s*,\s*"((?:[^"\\]|\\.)*)"\s*\)', use_compiled, 1),
    ] + k24_match.lower_token_exprs(), ID); n += k
    if re.search(r'tok->|MathLib|Token::|tokenList', extract.mask(t)):
        raise extract.ExtractError("K33: part of the loop was not lowered: %r" % t.strip()[:400])
    kb.rules_fired = n
    strat = ("/* Token::strAt(index) == literal: the string of tokAt(index), or the empty string when there is no such token (token.h) */\n"
             "static _Bool Token_strAt_eq(const struct Token *self, int index, const char *lit) { const struct Token *t = Token_tokAt(self, index); return t ? Token_streq(t, lit) : lit[0] == 0; }\n")
    fn = "static _Bool isIntArgValid_loop(const struct Token *front, const bigint argvalue)\n{\n%s\n}\n" % extract.strip_comments(t)
    text = base + PRELUDE + tokat + strat + "".join(compiled) + fn
    extract.residue_scan(PRELUDE + tokat + strat + fn, ID)
    kb.ctext = text + HARNESS.replace("@NI@", str(NI))
    unw = 4 * NI + 2
    kb.job("valid", "h_valid", kind="bounded", unwind=unw, defines=["NOCONTRACT"], timeout=600, replay="valid",
           note="<valid> lists of 1..%d items (number, a:b, a:, :b), all 64-bit bounds and argument values" % NI)
    kb.job("cover", "h_cover", kind="cover", unwind=unw, defines=["NOCONTRACT"], timeout=600)
    kb.trusted += ["tools/matchcompiler.py is executed (python3) to obtain the compiled matchers of the three patterns of the region"]
    kb.assumptions += ["region interface: the token list is what gettokenlistfromvalid produces for a <valid> expression of the documented integer grammar (items separated and terminated by ','; a '-' merged into its number); createTokensFromBuffer and the merging loop are not verified",
                       "MathLib::toBigNumber(tok) is an oracle returning the token's number (ghost field); it asserts that it is asked about a number token",
                       "closed ranges a:b have a <= b",
                       "Token::strAt is modelled by two lines over the extracted tokAtImpl",
                       "lists longer than %d items, <valid> expressions with '.', and isFloatArgValid are not covered" % NI]

    def rp(inputs, ctx):
        k = int(inputs.get("g_in_k", 1))
        sh = inputs.get("g_in_shape", []) or []
        a = inputs.get("g_in_a", []) or []
        b = inputs.get("g_in_b", []) or []
        args = [str(inputs.get("g_in_v", 0)), str(k)]
        for i in range(k):
            args += [str(sh[i] if i < len(sh) else 0), str(a[i] if i < len(a) else 0), str(b[i] if i < len(b) else 0)]
        rc, o, cmd = native.compile_run("replay_K33", REPLAY_CPP, args)
        return native.verdict_from_rc(rc, o), o, cmd
    kb.replayers["valid"] = rp
    return kb
