"""K31  threshold block of CheckType::checkTooBigBitwiseShift   and
K32  threshold block of CheckType::checkIntegerOverflow      (lib/checktype.cpp)

What these checkers add on top of a value-flow value is a threshold decision; C04 requires that an
error-severity report is made only where the operation is undefined for the reported value.
Oracles with arbitrary results: Token::getValueGE(n) (null, or some value >= n), Token::getValueLE(n) (null, or some
value <= n), Settings::isEnabled(value).  Postconditions from C11 6.5.7 (shifts) and 6.5p5 (overflow = result not
representable in the promoted result type), with the promoted width taken from the platform.
"""
import re

from vlib import extract, native
from vlib.kernel import KernelBuild, located_rules
from . import _common

ID = "K31"
SERVES = ["C04", "C13"]
TITLE = "shift-width and integer-overflow thresholds"

PRE = r'''
struct VfValue { bigint intvalue; _Bool errorSeverity; };
static struct VfValue g_vals[4]; static int g_nvals;
_Bool nondet_bool(void); bigint nondet_bigint(void);
int g_rep_big, g_rep_signed, g_rep_overflow; bigint g_rep_value; int g_rep_bits; _Bool g_rep_error, g_rep_isoverflow;
/* Token::getValueGE(n, settings): null, or a value whose intvalue is >= n (which one is the caller's business) */
static const struct VfValue *ext_getValueGE(bigint n) {
    if (nondet_bool() || g_nvals >= 4) return NULL;
    struct VfValue *v = &g_vals[g_nvals++]; v->intvalue = nondet_bigint(); v->errorSeverity = nondet_bool(); if (!(v->intvalue >= n)) return NULL; return v;
}
static const struct VfValue *ext_getValueLE(bigint n) {
    if (nondet_bool() || g_nvals >= 4) return NULL;
    struct VfValue *v = &g_vals[g_nvals++]; v->intvalue = nondet_bigint(); v->errorSeverity = nondet_bool(); if (!(v->intvalue <= n)) return NULL; return v;
}
static _Bool ext_isEnabled(const struct VfValue *v) { return nondet_bool(); }
#define REPORT_BIG(bits, v) do { g_rep_big++; g_rep_bits = (bits); g_rep_value = (v)->intvalue; g_rep_error = (v)->errorSeverity; } while (0)
#define REPORT_SIGNED(bits, v) do { g_rep_signed++; g_rep_bits = (bits); g_rep_value = (v)->intvalue; g_rep_error = (v)->errorSeverity; } while (0)
#define REPORT_OVERFLOW(v, o) do { g_rep_overflow++; g_rep_value = (v)->intvalue; g_rep_error = (v)->errorSeverity; g_rep_isoverflow = (o); } while (0)
'''

HARNESS = r'''
int g_in_type, g_in_sign, g_in_int_bit, g_in_long_bit; bigint g_in_value, g_in_lhs; int g_in_shl;
static void mk_platform(struct Platform *pl) {
    pl->char_bit = 8; pl->short_bit = 16; pl->int_bit = nondet_uchar(); pl->long_bit = nondet_uchar(); pl->long_long_bit = 64;
    __CPROVER_assume((pl->int_bit == 16 || pl->int_bit == 32) && (pl->long_bit == 32 || pl->long_bit == 64) && pl->long_bit >= pl->int_bit);
}
/* C11 6.5.7: E1 << E2 / E1 >> E2 with E1 of promoted width W: undefined if E2 < 0 or E2 >= W; E1 << E2 for signed E1
   additionally if E1 < 0 or E1 * 2^E2 is not representable */
static _Bool shift_undefined(_Bool shl, _Bool lhs_signed, int W, bigint lhs, bigint cnt) {
    if (cnt < 0 || cnt >= W) return 1;
    if (!shl || !lhs_signed) return 0;
    if (lhs < 0) return 1;
    return (lhs >> (W - 1 - cnt)) != 0;      /* lhs * 2^cnt > 2^(W-1) - 1 */
}
void h_shift(void) {
    struct Platform pl; mk_platform(&pl); g_nvals = 0; g_rep_big = g_rep_signed = 0;
    enum VType t = (enum VType)nondet_int(); enum Sign s = (enum Sign)nondet_int();
    __CPROVER_assume(t >= VType_BOOL && t <= VType_UNKNOWN_INT && (s == Sign_SIGNED || s == Sign_UNSIGNED || s == Sign_UNKNOWN_SIGN));
    g_in_type = t; g_in_sign = s; g_in_int_bit = pl.int_bit; g_in_long_bit = pl.long_bit;
    shift_block(t, s, &pl);
    __CPROVER_assert(g_rep_big + g_rep_signed <= 1, "at most one report per shift");
    if (g_rep_big + g_rep_signed == 0) return;
    /* promoted width of the left operand (C11 6.3.1.1: types narrower than int promote to int) */
    int W = t == VType_LONG ? pl.long_bit : t == VType_LONGLONG ? 64 : pl.int_bit;
    __CPROVER_assert(g_rep_bits == W, "the reported width is the width of the promoted left operand");
    _Bool shl = nondet_bool(); g_in_shl = shl; g_in_value = g_rep_value;
    /* ghost left operand: any value of the promoted type */
    bigint lhs = nondet_bigint(); _Bool ls = (s != Sign_UNSIGNED) || (W > pl.int_bit ? 0 : (t != VType_INT && t != VType_LONG && t != VType_LONGLONG));
    if (ls) { if (W < 64) __CPROVER_assume(lhs >= -(bigint)(1ULL << (W - 1)) && lhs <= (bigint)((1ULL << (W - 1)) - 1)); } else __CPROVER_assume(lhs >= 0 && (W >= 64 || lhs <= (bigint)((1ULL << W) - 1)));
    g_in_lhs = lhs;
#if defined(CLASS_SIGNED_REPORT)
    __CPROVER_assume(g_rep_signed == 1);
#elif defined(CLASS_REST)
    __CPROVER_assume(g_rep_signed == 0);
#endif
    if (g_rep_error) __CPROVER_assert(shift_undefined(shl, ls, W, lhs, g_rep_value), "an error-severity shift report is made only where the shift is undefined for every left operand");
}
void h_overflow(void) {
    struct Platform pl; mk_platform(&pl); g_nvals = 0; g_rep_overflow = 0;
    enum VType t = (enum VType)nondet_int(); __CPROVER_assume(t >= VType_BOOL && t <= VType_UNKNOWN_INT);
    _Bool is_shl = nondet_bool(); g_in_type = t; g_in_shl = is_shl; g_in_int_bit = pl.int_bit; g_in_long_bit = pl.long_bit;
    overflow_block(t, &pl, is_shl);
    if (!g_rep_overflow) return;
    g_in_value = g_rep_value;
    int W = t == VType_INT ? pl.int_bit : t == VType_LONG ? pl.long_bit : 64;
    __CPROVER_assert(t == VType_INT || t == VType_LONG || t == VType_LONGLONG, "only int, long and long long results are judged");
    __CPROVER_assert(W < 64, "64-bit results are not judged (bigint cannot hold the out-of-range value)");
    bigint tmax = (bigint)((1ULL << (W - 1)) - 1), tmin = -tmax - 1;
    __CPROVER_assert(g_rep_value > tmax || g_rep_value < tmin, "a reported overflow value is outside the range of the signed result type");
    __CPROVER_assert(g_rep_isoverflow == (g_rep_value > tmax), "overflow / underflow wording matches the side");
}
void h_cover(void) {
    struct Platform pl; mk_platform(&pl); g_nvals = 0; g_rep_big = g_rep_signed = g_rep_overflow = 0;
    shift_block(VType_INT, Sign_SIGNED, &pl);
    __CPROVER_assert(!(g_rep_big == 1 && g_rep_value == 40), "COVER: shift by 40 reported");
    __CPROVER_assert(!(g_rep_signed == 1), "COVER: signed shift report");
    overflow_block(VType_INT, &pl, 0);
    __CPROVER_assert(!(g_rep_overflow == 1 && !g_rep_isoverflow), "COVER: underflow report");
}
'''


def build(ctx):
    kb = KernelBuild(ID, TITLE)
    enums, _ = _common.valuetype_enums()
    pstruct, pfields, _ = _common.platform_struct()
    mb = re.search(r'const\s+int\s+MathLib::bigint_bits\s*=\s*(\d+)\s*;', extract.read("lib/mathlib.cpp"))
    if not mb:
        raise extract.ExtractError("MathLib::bigint_bits definition not found")
    out = [_common.BASE, enums, pstruct, PRE, "#define BIGINT_BITS %s\n" % mb.group(1)]
    n = 0
    f = extract.locate_function("lib/checktype.cpp", r'^void CheckType::checkTooBigBitwiseShift\s*\(\s*\)')
    m = extract.mask(f.text)
    s = list(re.finditer(r'std::uint8_t\s+lhsbits\s*;', m))
    if len(s) != 1:
        raise extract.ExtractError("checkTooBigBitwiseShift: `std::uint8_t lhsbits;` not found")
    # region runs to the end of the for-loop body: the closing brace of the loop
    fo = list(re.finditer(r'for\s*\(\s*const Token \*tok\s*=\s*mTokenizer->tokens\(\);[^\n]*\)\s*\{', m))
    if len(fo) != 1:
        raise extract.ExtractError("checkTooBigBitwiseShift: token loop not found")
    cb = extract.match_brace(f.text, fo[0].end() - 1, m)
    reg = extract.Located("lib/checktype.cpp", f.text[s[0].start():cb], f.start + s[0].start(), f.start + cb, extract.read("lib/checktype.cpp"))
    kb.add_located("CheckType::checkTooBigBitwiseShift [width and threshold block]", reg, "region")
    t, k = located_rules(reg, _common.VT_RULES + [
        (r'\blhstype->type\b', 'lhs_type', 7),
        (r'\blhstype->sign\b', 'lhs_sign', 1, 1),
        (r'\bmSettings->platform\.(\w+)', r'platform->\1', 3),
        (r'const ValueFlow::Value\s*\*\s*value\s*=\s*tok->astOperand2\(\)->getValueGE\(([^,]+),\s*\*mSettings\)\s*;', r'const struct VfValue *value = ext_getValueGE(\1);', 1, 1),
        (r'value\s*=\s*tok->astOperand2\(\)->getValueGE\(([^,]+),\s*\*mSettings\)\s*;', r'value = ext_getValueGE(\1);', 1, 1),
        (r'\bmSettings->isEnabled\(value,\s*false\)', 'ext_isEnabled(value)', 2, 2),
        (r'\btooBigBitwiseShiftError\(tok,\s*lhsbits,\s*\*value\)\s*;', 'REPORT_BIG(lhsbits, value);', 1, 1),
        (r'\btooBigSignedBitwiseShiftError\(tok,\s*lhsbits,\s*\*value\)\s*;', 'REPORT_SIGNED(lhsbits, value);', 1, 1),
        (r'\bcontinue\s*;', 'return;', 1),
    ], ID + ".shift"); n += k
    out.append("void shift_block(enum VType lhs_type, enum Sign lhs_sign, const struct Platform *platform)\n{\n%s\n}\n" % extract.strip_comments(t))
    reg = extract.locate_region("lib/checktype.cpp", r'^void CheckType::checkIntegerOverflow\s*\(\s*\)', r'unsigned int\s+bits\s*;', r'integerOverflowError\(tok,\s*\*value,\s*isOverflow\)\s*;')
    kb.add_located("CheckType::checkIntegerOverflow [threshold block]", reg, "region")
    t, k = located_rules(reg, _common.VT_RULES + [
        (r'\bvt->type\b', 'vt_type', 3, 3),
        (r'\bmSettings->platform\.(\w+)', r'platform->\1', 3),
        (r'\bMathLib::bigint_bits\b', 'BIGINT_BITS', 1, 1),
        (r'const ValueFlow::Value\s*\*\s*value\s*=\s*tok->getValueGE\(([^,]+),\s*\*mSettings\)\s*;', r'const struct VfValue *value = ext_getValueGE(\1);', 1, 1),
        (r'value\s*=\s*tok->getValueLE\(([^,]+),\s*\*mSettings\)\s*;', r'value = ext_getValueLE(\1);', 1, 1),
        (r'\bmSettings->isEnabled\(value,\s*false\)', 'ext_isEnabled(value)', 1, 1),
        (r'\btok->str\(\)\s*==\s*"<<"', 'is_shl', 1, 1),
        (r'\bintegerOverflowError\(tok,\s*\*value,\s*isOverflow\)\s*;', 'REPORT_OVERFLOW(value, isOverflow);', 1, 1),
        (r'\bcontinue\s*;', 'return;', 3),
    ], ID + ".overflow"); n += k
    out.append("void overflow_block(enum VType vt_type, const struct Platform *platform, _Bool is_shl)\n{\n%s\n}\n" % extract.strip_comments(t))
    kb.rules_fired = n
    text = "".join(out)
    extract.residue_scan(text, ID)
    kb.ctext = text + HARNESS
    kb.job("shift.rest", "h_shift", defines=["CLASS_REST"], note="loop-free region: complete in the type, the platform widths (16/32 int, 32/64 long), the oracle results and the left operand")
    kb.job("shift.signed", "h_shift", kind="known", finding="K31.shiftTooManyBitsSigned-error", props=["C04"], defines=["CLASS_SIGNED_REPORT"], expect_fail=["h_shift.assertion"],
           note="recorded finding class: the shiftTooManyBitsSigned report (shift count == width - 1)")
    kb.job("overflow", "h_overflow", note="loop-free region: complete")
    kb.job("cover", "h_cover", kind="cover")
    kb.assumptions += ["region interfaces: (type, sign of the left operand / result type, platform widths); reporting calls record into ghost outputs",
                       "oracles: getValueGE(n) returns null or some value >= n, getValueLE(n) null or some value <= n, isEnabled arbitrary; whether the value is real is property C01's unverified part",
                       "platform: int is 16 or 32 bits, long 32 or 64, long long 64 (the built-in platforms)",
                       "severity: error iff value.errorSeverity(); the C++14 downgrade of shiftTooManyBitsSigned to portability happens outside the region"]
    return kb
