"""K59  replaceEscapeSequences (lib/utils.cpp) with Token::getStrLength (lib/token.cpp).

replaceEscapeSequences turns the text between the quotes of a character or string literal into its characters.  Its
length decides whether a character literal is a single character (`Token::isCChar`, type char in C++, sizeof 1) or a
multi-character literal (`Token::isCMultiChar`, type int), and Token::getStrLength (the value of strlen("..."), the
known size of a string) is the position of its first null character.
Contract (C10, C11 6.4.4.4): for well-formed literal text the result has one character per c-char / escape sequence;
octal, hexadecimal, \n, \r, \t have their value (mod 256); every other escape is a non-null character.
Bounded: every text of up to N bytes.
"""
import re

from vlib import extract, native
from vlib.kernel import KernelBuild, located_rules
from . import _common

ID = "K59"
SERVES = ["C10", "C09", "C13"]
TITLE = "replaceEscapeSequences: one character per escape sequence, its value for numeric escapes; getStrLength"

PRELUDE = r'''
#define N @N@
#define VPUSH(buf, len, cap, x) do { char vp_c = (x); __CPROVER_assert((len) < (cap), "model buffer holds the string"); (buf)[(len)++] = vp_c; } while (0)
/* std::stoi(value, nullptr, 8) on 1..3 octal digits */
static int vstr_stoi8(const char *v, size_t len)
{
    int r = 0;
    __CPROVER_assert(len >= 1 && len <= 3, "std::stoi: 1..3 digits");
    for (size_t i = 0; i < 3; i++) if (i < len) { __CPROVER_assert(v[i] >= '0' && v[i] <= '7', "std::stoi: octal digits only (else the conversion stops early or throws)"); r = r * 8 + (v[i] - '0'); }
    return r;
}
'''

HARNESS = r'''
unsigned char g_in_s[N + 1]; size_t g_in_len;
struct refch { unsigned char v; _Bool exact; };
/* reference: the characters of well-formed literal text; returns the count or -1 when outside the subset */
static int escapes_ref(const char *s, size_t n, struct refch *out)
{
    size_t pos = 0; int count = 0;
    for (int it = 0; it < N; it++) {
        if (pos >= n) break;
        unsigned char c = (unsigned char)s[pos];
        if (c == '\n' || c == 0) return -1;
        if (c != '\\') { out[count].v = c; out[count].exact = 1; pos++; count++; continue; }
        pos++;
        if (pos >= n) return -1;
        unsigned char e = (unsigned char)s[pos]; pos++;
        if (e == 'n' || e == 'r' || e == 't') { out[count].v = e == 'n' ? 10 : e == 'r' ? 13 : 9; out[count].exact = 1; count++; continue; }
        if (e == '\'' || e == '"' || e == '?' || e == '\\' || e == 'a' || e == 'b' || e == 'f' || e == 'v') { out[count].v = 1; out[count].exact = 0; count++; continue; }
        if (e >= '0' && e <= '7') {
            int v = e - '0';
            for (int k = 0; k < 2; k++) if (pos < n && s[pos] >= '0' && s[pos] <= '7') { v = v * 8 + (s[pos] - '0'); pos++; } else break;
            if (v > 255) return -1;
            out[count].v = (unsigned char)v; out[count].exact = 1; count++; continue;
        }
        if (e == 'x') {
            unsigned v = 0; int nd = 0;
            for (int k = 0; k < N; k++) {
                if (pos >= n) break;
                unsigned char h = (unsigned char)s[pos];
                int d = (h >= '0' && h <= '9') ? h - '0' : (h >= 'a' && h <= 'f') ? h - 'a' + 10 : (h >= 'A' && h <= 'F') ? h - 'A' + 10 : 99;
                if (d > 15) break;
                if (v < 4096) v = v * 16 + (unsigned)d;
                nd++; pos++;
            }
            if (nd == 0 || v > 255) return -1;
            out[count].v = (unsigned char)v; out[count].exact = 1; count++; continue;
        }
        return -1;
    }
    if (pos != n) return -1;
    return count;
}
static size_t mk_text(char *buf) {
    size_t n = nondet_size_t(); __CPROVER_assume(n <= N);
    for (int i = 0; i < N; i++) { char c = nondet_char(); buf[i] = (size_t)i < n ? c : 0; }
    buf[N] = 0;
    for (int i = 0; i <= N; i++) g_in_s[i] = (unsigned char)buf[i];
    g_in_len = n;
    return n;
}
void h_escapes(void) {
    char src[N + 1]; size_t n = mk_text(src);
    struct refch ref[N + 1];
    int want = escapes_ref(src, n, ref);
    char out[N + 1]; size_t out_len = 0;
    replaceEscapeSequences(src, n, out, &out_len);       /* safety obligations for every text */
    __CPROVER_assert(out_len <= n, "the result is not longer than the text");
    if (want < 0) return;
    __CPROVER_assert(out_len == (size_t)want, "one character per c-char / escape sequence (decides isCChar / isCMultiChar and the size of the string)");
    for (int k = 0; k < N; k++) if ((size_t)k < out_len && k < want) {
        if (ref[k].exact) __CPROVER_assert((unsigned char)out[k] == ref[k].v, "plain characters, octal and hexadecimal escapes, \\n \\r \\t have their value");
        else __CPROVER_assert(out[k] != 0, "a simple escape sequence is not the null character");
    }
    /* getStrLength: the position of the first null character, or the number of characters */
    size_t len = getStrLength(src, n);
    size_t wl = (size_t)want;
    for (int k = N - 1; k >= 0; k--) if (k < want && ref[k].exact && ref[k].v == 0) wl = (size_t)k;
    __CPROVER_assert(len == wl, "getStrLength == strlen of the literal");
}
void h_cover(void) {
    char src[N + 1]; size_t n = mk_text(src);
    struct refch ref[N + 1];
    int want = escapes_ref(src, n, ref);
    char out[N + 1]; size_t out_len = 0;
    replaceEscapeSequences(src, n, out, &out_len);
    __CPROVER_assert(!(want == 1 && n == 4 && src[1] == '1'), "COVER: a three digit octal escape is one character");
    __CPROVER_assert(!(want == 1 && n == 5 && src[1] == 'x'), "COVER: a three digit hexadecimal escape is one character");
    __CPROVER_assert(!(want == N), "COVER: N plain characters");
    __CPROVER_assert(!(want == 3 && getStrLength(src, n) == 1), "COVER: an embedded null character ends the string");
}
'''

REPLAY_CPP = r'''
#include "utils.h"
#include <cstdio>
#include <cstdlib>
#include <string>
int main(int argc, char **argv) {
    const int want = atoi(argv[1]);
    std::string s; for (int i = 2; i < argc; i++) s += (char)atoi(argv[i]);
    printf("text:"); for (unsigned char c : s) printf(c >= 32 && c < 127 ? " %c" : " \\x%02x", c); printf("\n");
    const std::string r = replaceEscapeSequences(s);
    printf("replaceEscapeSequences: %zu characters; the literal has %d\n", r.size(), want);
    return r.size() == (size_t)want ? 0 : 1;
}
'''


def build(ctx):
    kb = KernelBuild(ID, TITLE)
    N = 7 if ctx.tier == "thorough" else 6
    n = 0
    f = extract.locate_function("lib/utils.cpp", r'^std::string replaceEscapeSequences\(const std::string &source\)')
    kb.add_located("replaceEscapeSequences", f)
    t, k = located_rules(f, [
        (r'^std::string replaceEscapeSequences\(const std::string &source\)', 'static void replaceEscapeSequences(const char *source, size_t source_len, char *result, size_t *result_len_p)', 1, 1),
        (r'std::string result\s*;', 'size_t result_len = 0;', 1, 1),
        (r'\bresult\.reserve\(source\.size\(\)\)\s*;', '', 1, 1),
        (r'\bsource\.size\(\)', 'source_len', 4),
        (r'\bresult \+= ([^;]+);', r'VPUSH(result, result_len, N, \1);', 6),
        (r'std::string value\(1, source\[i\]\)\s*;', 'char value[4] = { 0, 0, 0, 0 }; size_t value_len = 0; VPUSH(value, value_len, 3, source[i]);', 1, 1),
        (r'\bvalue \+= (source\[i\+\+ \+ 1\])\s*;', r'VPUSH(value, value_len, 3, \1);', 2, 2),
        (r'\bstd::stoi\(value, NULL, 8\)', 'vstr_stoi8(value, value_len)', 1, 1),
        (r'\breturn result\s*;', '*result_len_p = result_len; return;', 1, 1),
    ], ID + ".replaceEscapeSequences"); n += k
    fl = extract.locate_function("lib/token.cpp", r'^nonneg int Token::getStrLength\(const Token \*tok\)')
    kb.add_located("Token::getStrLength", fl)
    tl, k = located_rules(fl, [
        (r'^\s*int Token::getStrLength\(const Token \*tok\)', 'static size_t getStrLength(const char *lit, size_t lit_len)', 1, 1),
        (r'\bassert\(tok != NULL\)\s*;', '', 1, 1),
        (r'\bassert\(tok->mTokType == eString\)\s*;', '', 1, 1),
        (r'const std::string s\(replaceEscapeSequences\(getStringLiteral\(tok->str\(\)\)\)\)\s*;',
         'char s[N + 1]; size_t s_len = 0; replaceEscapeSequences(lit, lit_len, s, &s_len);   /* lit: getStringLiteral(tok->str()), the text between the quotes (K58 covers getStringCharLiteral) */', 1, 1),
        (r'const auto pos = s\.find\(\'\\0\'\)\s*;', 'size_t pos = (size_t)-1; for (size_t q = 0; q < N; q++) if (q < s_len && s[q] == 0 && pos == (size_t)-1) pos = q;   /* std::string::find */', 1, 1),
        (r'\bs\.size\(\)', 's_len', 2, 2),
    ], ID + ".getStrLength"); n += k
    for nm, x in (("replaceEscapeSequences", t), ("getStrLength", tl)):
        if re.search(r'std::|\bauto\b|tok->|\.size\(|\.find\(', extract.mask(x)):
            raise extract.ExtractError("K59: %s not fully lowered: %r" % (nm, re.findall(r'[^\n]*(?:std::|auto|tok->|\.size\(|\.find\()[^\n]*', extract.mask(x))[:3]))
    kb.rules_fired = n
    body = extract.strip_comments(t) + "\n" + extract.strip_comments(tl) + "\n"
    extract.residue_scan(body, ID)
    kb.ctext = _common.BASE + PRELUDE.replace("@N@", str(N)) + body + HARNESS
    kb.job("escapes", "h_escapes", kind="bounded", unwind=N + 3, timeout=900, replay="text", mem_kb=12000000,
           note="every text of up to %d bytes (all byte values): no out-of-bounds access; obligations for the well-formed texts without universal character names" % N)
    kb.job("cover", "h_cover", kind="cover", unwind=N + 3, timeout=900, mem_kb=12000000)
    kb.assumptions += ["std::string is a buffer with explicit length; `+=` is a bounded push, std::stoi on 1..3 octal digits and std::string::find are prelude models",
                       "isCChar / isCMultiChar (lib/token.h) compare the length of the result with 1: they follow from the length obligation and are not extracted",
                       "the values of \\a \\b \\f \\v \\' \\\" \\? \\\\ are only required to be non-null (no consumer reads them)"]

    def rp(inputs, ctx):
        buf = inputs.get("g_in_s") or []
        ln = int(inputs.get("g_in_len", 0) or 0)
        bs = [int(b) & 0xff for b in buf[:ln]]
        want = ref_py(bytes(bs))
        if want < 0:
            return "undecided", "counterexample is outside the reference subset", ""
        rc, o, cmd = native.compile_run("replay_K59", REPLAY_CPP, [str(want)] + [str(b) for b in bs], need_core=True)
        return native.verdict_from_rc(rc, o), o, cmd
    kb.replayers["text"] = rp
    return kb


def ref_py(s):
    n = len(s)
    pos, count = 0, 0
    while pos < n:
        c = s[pos]
        if c in (10, 0):
            return -1
        if c != 92:
            pos += 1; count += 1; continue
        pos += 1
        if pos >= n:
            return -1
        e = s[pos]; pos += 1
        if e in b"'\"?\\abfnrtv":
            count += 1; continue
        if 48 <= e <= 55:
            v = e - 48; k = 0
            while k < 2 and pos < n and 48 <= s[pos] <= 55:
                v = v * 8 + s[pos] - 48; pos += 1; k += 1
            if v > 255:
                return -1
            count += 1; continue
        if e == ord('x'):
            v, nd = 0, 0
            while pos < n and s[pos] in b"0123456789abcdefABCDEF":
                v = v * 16 + int(chr(s[pos]), 16); nd += 1; pos += 1
            if nd == 0 or v > 255:
                return -1
            count += 1; continue
        return -1
    return count
