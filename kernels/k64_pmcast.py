"""K64  convertToType (lib/programmemory.cpp): the value of a cast, and of an initialised variable, when an expression is
evaluated under a program memory.

The program-memory executor evaluates right-hand sides of assignments and conditions with the tracked values of variables
(ValueFlowAnalyzer::evaluateInt, conditionIsTrue / conditionIsFalse).  A cast used to be evaluated as its operand (the
value of `(char)v` for v == 1000 was 1000) and a variable got the unconverted value of its initialiser (`signed char v = 255`
was 255).  Both call convertToType now; the two call sites are pinned by text.
Contract (C01 / C10, C11 6.3.1.2 + 6.3.1.3): a known / possible integer value cast to an integer type is the converted
value - 0 / 1 for bool, otherwise the value reduced to the width of the type with its signedness (plain char: the platform's
default sign); impossible values, non-integer values and other target types are returned unchanged.
ValueFlow::truncateIntValue is called through its contract (K01).
"""
import re

from vlib import extract, native
from vlib.kernel import KernelBuild, located_rules
from . import _common, k01_truncate

ID = "K64"
SERVES = ["C01", "C10", "C03", "C13"]
TITLE = "program memory: the value of a cast to an integer type is the converted value"

HARNESS = r'''
bigint g_in_v; int g_in_type, g_in_sign, g_in_dsign, g_in_size, g_in_imp, g_in_int;
void h_pmcast(void) {
    bigint v = nondet_bigint(); _Bool is_int = nondet_bool(), imp = nondet_bool(), has_vt = nondet_bool(), integral = nondet_bool(); int pointer = nondet_bool();
    enum VType t = (enum VType)nondet_int(); enum Sign s = (enum Sign)nondet_int(); size_t sz = nondet_size_t(); char ds = nondet_char();
    __CPROVER_assume(t >= VType_BOOL && t <= VType_LONGLONG && t != VType_WCHAR_T && s >= Sign_UNKNOWN_SIGN && s <= Sign_UNSIGNED);
    __CPROVER_assume(ds == 's' || ds == 'S' || ds == 'u' || ds == 'U' || ds == 0);
    __CPROVER_assume(sz == (t == VType_BOOL || t == VType_CHAR ? 1 : t == VType_SHORT ? 2 : t == VType_INT ? 4 : 8) || (t == VType_LONG && sz == 4));
    __CPROVER_assume(t == VType_BOOL ? s == Sign_UNKNOWN_SIGN : (t == VType_CHAR || s != Sign_UNKNOWN_SIGN));
    g_in_v = v; g_in_type = t; g_in_sign = s; g_in_dsign = ds; g_in_size = (int)sz; g_in_imp = imp; g_in_int = is_int;
    bigint r = castResult(v, is_int, imp, has_vt, integral, pointer, t, s, sz, ds);
    if (!is_int || imp || !has_vt || !integral || pointer != 0) { __CPROVER_assert(r == v, "values that are not converted are returned unchanged"); return; }
    if (t == VType_BOOL) { __CPROVER_assert(r == (v != 0), "(bool)v is 0 for 0 and 1 for every other value"); return; }
    enum Sign es = s;
    if (t == VType_CHAR && s == Sign_UNKNOWN_SIGN) { if (ds == 's' || ds == 'S') es = Sign_SIGNED; else if (ds == 'u' || ds == 'U') es = Sign_UNSIGNED; else return; }
    if (sz >= 8) { __CPROVER_assert(r == v, "a 64-bit target keeps the value"); return; }
    biguint m = (1ULL << (8 * sz)) - 1, u = (biguint)v & m;
    bigint want = (es == Sign_SIGNED && (u >> (8 * sz - 1))) ? (bigint)(u | ~m) : (bigint)u;
    __CPROVER_assert(r == want, "(T)v is v converted to the integer type T (C11 6.3.1.3, two's complement for signed targets)");
}
void h_cover(void) {
    __CPROVER_assert(!(castResult(1000, 1, 0, 1, 1, 0, VType_CHAR, Sign_UNKNOWN_SIGN, 1, 's') == -24), "COVER: (char)1000 is -24 on a signed-char platform");
    __CPROVER_assert(!(castResult(2, 1, 0, 1, 1, 0, VType_BOOL, Sign_UNKNOWN_SIGN, 1, 's') == 1), "COVER: (bool)2 is 1");
}
'''

REPLAY_CPP = r'''
#include "settings.h"
#include "tokenize.h"
#include "tokenlist.h"
#include "token.h"
#include "errorlogger.h"
#include "color.h"
#include "platform.h"
#include <cstdio>
struct Log : ErrorLogger {
    void reportOut(const std::string &, Color) override {}
    void reportErr(const ErrorMessage &) override {}
    void reportMetric(const std::string &) override {}
};
/* e is (v | x) % (char)v with v == x == 1000: (char)1000 is -24, 1000 % -24 is 16 */
int main() {
    const std::string code = "int f(int x) { if (x == 1000) { unsigned short v = x; long long e = (v | x) % (char)v; return e == 16; } return 0; }";
    Settings settings; settings.platform.set(Platform::Type::Unix64); Log log;
    Tokenizer tokenizer(TokenList(settings, Standards::Language::C), log);
    tokenizer.list.appendFileIfNew("t.c");
    if (!tokenizer.list.createTokensFromBuffer(code.data(), code.size()) || !tokenizer.simplifyTokens1("")) return 2;
    for (const Token *tok = tokenizer.tokens(); tok; tok = tok->next()) {
        if (tok->str() != "==" || !Token::simpleMatch(tok->astOperand2(), "16")) continue;
        if (!tok->hasKnownIntValue()) { printf("%s: `e == 16` has no known value\n", code.c_str()); return 0; }
        printf("%s: `e == 16` has the known value %lld; at run time it is 1\n", code.c_str(), (long long)tok->getKnownIntValue());
        return tok->getKnownIntValue() == 1 ? 0 : 1;
    }
    return 2;
}
'''


def build(ctx):
    kb = KernelBuild(ID, TITLE)
    enums, _ = _common.valuetype_enums()
    trunc, n = k01_truncate.truncate_with_contract(kb, ID)
    f = extract.locate_function("lib/programmemory.cpp", r'^static ValueFlow::Value convertToType\(const ValueType\* vt, ValueFlow::Value v, const Settings& settings\)')
    kb.add_located("convertToType", f)
    t, k = located_rules(f, _common.VT_RULES + [
        (r'^static ValueFlow::Value convertToType\(const ValueType\* vt, ValueFlow::Value v, const Settings& settings\)',
         'static bigint castResult(bigint v_intvalue, _Bool v_isint, _Bool v_impossible, _Bool has_vt, _Bool vt_integral, int vt_pointer, enum VType vt_type, enum Sign vt_sign, size_t vt_size, char defaultSign)', 1, 1),
        (r'!v\.isIntValue\(\)', '!v_isint', 1, 1),
        (r'\bv\.isImpossible\(\)', 'v_impossible', 1, 1),
        (r'!vt \|\|', '!has_vt ||', 1, 1),
        (r'!vt->isIntegral\(\)', '!vt_integral', 1, 1),
        (r'\bvt->getSizeOf\(settings,\s*ValueType::Accuracy::ExactOrZero,\s*ValueType::SizeOf::Pointer\)', 'vt_size', 1, 1),
        (r'\bvt->(pointer|type|sign)\b', r'vt_\1', 4),
        (r'\bv\.intvalue\b', 'v_intvalue', 4),
        (r'\breturn v\s*;', 'return v_intvalue;', 3, 3),
        (r'\bsettings\.platform\.defaultSign\b', 'defaultSign', 4, 4),
        (r'\bValueFlow::truncateIntValue\(', 'truncateIntValue(', 1, 1),
    ], ID); n += k
    if re.search(r'\bvt\b|\bv\.|settings|ValueFlow|cast->', extract.mask(t)):
        raise extract.ExtractError("K64: castResult not fully lowered: %r" % re.findall(r'[^\n]*(?:\bvt\b|\bv\.|settings|ValueFlow|cast->)[^\n]*', extract.mask(t))[:3])
    whole = extract.strip_comments(extract.read("lib/programmemory.cpp"))
    if len(re.findall(r'return convertToType\(expr->valueType\(\), execute\(expr->astOperand[12]\(\)\), settings\)\s*;', whole)) != 2:
        raise extract.ExtractError("programmemory.cpp: the cast branch of the executor no longer converts both forms of a cast with convertToType")
    if len(re.findall(r'pm\.setValue\(vartok, convertToType\(vartok->valueType\(\), execute\(valuetok, local, settings\), settings\)\)\s*;', whole)) != 1:
        raise extract.ExtractError("programmemory.cpp: fillProgramMemoryFromAssignments no longer stores the converted value of the initialiser")
    kb.rules_fired = n
    text = _common.BASE + enums + trunc + extract.strip_comments(t) + "\n"
    extract.residue_scan(text, ID)
    kb.ctext = text + HARNESS
    kb.job("pmcast", "h_pmcast", replace=["truncateIntValue"], replay="pm", note="loop-free function: every 64-bit value, every integer target type, signedness and default sign")
    kb.job("cover", "h_cover", kind="cover", replace=["truncateIntValue"])
    kb.assumptions += ["interface: the operand's value as (intvalue, is-int, impossible), the cast's ValueType as flags, ValueType::getSizeOf an oracle consistent with the type",
                       "the rest of the program-memory executor is not verified; impossible values pass casts unchanged (not decided here)"]

    def rp(inputs, ctx):
        rc, o, cmd = native.compile_run("replay_K64", REPLAY_CPP, [])
        return native.verdict_from_rc(rc, o), o, cmd
    kb.replayers["pm"] = rp
    return kb
