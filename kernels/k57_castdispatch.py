"""K57  setTokenValueCast (lib/vf_settokenvalue.cpp): which conversion (signedness, width) the value of a cast expression is
computed with.  castValue itself is under contract in K04; this kernel pins the dispatch: for every integer target type the
conversion uses that type's width on the selected platform and its signedness - plain `char` has the platform's default
signedness (--platform / <default-sign> of a platform file).

Region: the whole function; setTokenValue(parent, X) is lowered to "hand on X", castValue(v, sign, bits) to a record of (sign, bits).
Contract (C10): an integer (non-pointer, possible or known) value cast to bool-less integer type T is converted with (sign(T), bits(T)).
"""
import re

from vlib import extract, native
from vlib.kernel import KernelBuild, located_rules
from . import _common

ID = "K57"
SERVES = ["C10", "C01", "C03", "C04", "C13"]
TITLE = "setTokenValueCast: width and signedness used for the value of a cast, plain char by the platform's default"

PRELUDE = r'''
int g_mode; enum Sign g_sign; int g_bits;       /* g_mode: 0 nothing handed on, 1 value handed on unchanged, 2 value converted with (g_sign, g_bits), 3 float */
#define HAND_ON() do { g_mode = 1; } while (0)
#define CAST(s, b) do { g_mode = 2; g_sign = (s); g_bits = (b); } while (0)
_Bool g_v_isfloat; double g_v_float; bigint g_v_intvalue;      /* the value that is cast (read by the conversion to bool only) */
_Bool g_bool_set; bigint g_bool_val;                           /* the conversion to bool replaced the value by g_bool_val */
'''

HARNESS = r'''
int g_in_type, g_in_sign, g_in_dsign, g_in_long_bit;
void h_dispatch(void) {
    struct Platform pl; pl.char_bit = 8; pl.short_bit = 16; pl.int_bit = 32; pl.long_bit = nondet_uchar(); pl.long_long_bit = 64; __CPROVER_assume(pl.long_bit == 32 || pl.long_bit == 64);
    char ds = nondet_char(); __CPROVER_assume(ds == 's' || ds == 'S' || ds == 'u' || ds == 'U' || ds == 0);
    enum VType t = (enum VType)nondet_int(); enum Sign s = (enum Sign)nondet_int();
    __CPROVER_assume(t >= VType_CHAR && t <= VType_LONGLONG && t != VType_WCHAR_T && s >= Sign_UNKNOWN_SIGN && s <= Sign_UNSIGNED && (t == VType_CHAR || s != Sign_UNKNOWN_SIGN));
    g_in_type = t; g_in_sign = s; g_in_dsign = ds; g_in_long_bit = pl.long_bit;
    g_mode = 0;
    cast_dispatch(t, s, 0, 0 /* not impossible */, 1 /* int value */, 0 /* not a float type */, &pl, ds);
    int bits = t == VType_CHAR ? 8 : t == VType_SHORT ? 16 : t == VType_INT ? 32 : t == VType_LONG ? pl.long_bit : 64;
    __CPROVER_assert(g_mode == 2 && g_bits == bits, "the value of a cast to an integer type is converted with the width of that type on the platform");
    if (s != Sign_UNKNOWN_SIGN) __CPROVER_assert(g_sign == s, "... and with the signedness of that type");
    else if (ds == 's' || ds == 'S') __CPROVER_assert(g_sign == Sign_SIGNED, "plain char is signed on a platform whose default sign is signed");
    else if (ds == 'u' || ds == 'U') __CPROVER_assert(g_sign == Sign_UNSIGNED, "plain char is unsigned on a platform whose default sign is unsigned");
}
/* (bool)v / (_Bool)v: 0 for a value that compares equal to 0, 1 otherwise (C11 6.3.1.2) */
bigint g_in_v; int g_in_isfloat;
double nondet_double(void);
void h_bool(void) {
    struct Platform pl; pl.char_bit = 8; pl.short_bit = 16; pl.int_bit = 32; pl.long_bit = 64; pl.long_long_bit = 64;
    g_v_isfloat = nondet_bool(); g_v_float = nondet_double(); g_v_intvalue = nondet_bigint();
    __CPROVER_assume(g_v_float == g_v_float);
    g_in_v = g_v_intvalue; g_in_isfloat = g_v_isfloat;
    g_mode = 0; g_bool_set = 0; g_bool_val = 7;
    cast_dispatch(VType_BOOL, Sign_UNKNOWN_SIGN, 0, 0 /* not impossible */, !g_v_isfloat, 0, &pl, 's');
    __CPROVER_assert(g_mode == 1 && g_bool_set, "the value of a cast to bool is handed on after the conversion to bool");
    __CPROVER_assert(g_bool_val == (g_v_isfloat ? (g_v_float != 0.0) : (g_v_intvalue != 0)), "(bool)v is 0 for 0 and 1 for every other value");
}
/* c ? a : b: the result is converted to the common type of a and b (C11 6.5.15p5) */
void h_ternary_value(void) {
    _Bool has_vt = nondet_bool(), integral = nondet_bool(), isint = nondet_bool(), imp = nondet_bool(); int ptr = nondet_bool();
    g_tern = 0;
    ternary_value(has_vt, integral, ptr, isint, imp);
    if (has_vt && integral && ptr == 0 && isint && !imp) __CPROVER_assert(g_tern == 2, "a known / possible integer value reaches a conditional operator of integer type converted to that type");
    else __CPROVER_assert(g_tern == 1, "every other value is handed on");
}
/* c ? a : b with a known condition: the condition is what its known INTEGER (or token) value says - not its first value,
   which may be a symbolic one ("c equals another expression", intvalue 0) */
void h_ternary_cond(void) {
    struct CondVal ki, kt; _Bool has_ki = nondet_bool(), has_kt = nondet_bool();
    ki.is_tok = 0; ki.is_int = 1; ki.intvalue = nondet_bigint(); kt.is_tok = 1; kt.is_int = 0; kt.intvalue = nondet_bigint();
    _Bool known = 0, cond = 0;
    ternary_cond(has_ki ? &ki : NULL, has_kt ? &kt : NULL, &known, &cond);
    __CPROVER_assert(known == (has_ki || has_kt), "the condition is known exactly if it has a known integer or token value");
    if (has_ki) __CPROVER_assert(cond == (ki.intvalue != 0), "a known integer value selects the operand by being non-zero");
    else if (has_kt) __CPROVER_assert(cond, "a known token value (an address) is true");
}
void h_cover(void) {
    struct Platform pl; pl.char_bit = 8; pl.short_bit = 16; pl.int_bit = 32; pl.long_bit = 64; pl.long_long_bit = 64;
    g_mode = 0; cast_dispatch(VType_CHAR, Sign_UNKNOWN_SIGN, 0, 0, 1, 0, &pl, 's');
    __CPROVER_assert(!(g_mode == 2 && g_sign == Sign_SIGNED && g_bits == 8), "COVER: (char)x on a signed-char platform");
    g_mode = 0; cast_dispatch(VType_INT, Sign_SIGNED, 1, 0, 1, 0, &pl, 's');
    __CPROVER_assert(!(g_mode == 1), "COVER: a cast to a pointer type hands the value on");
}
'''

REPLAY_CPP = r'''
#include "settings.h"
#include "tokenize.h"
#include "tokenlist.h"
#include "token.h"
#include "errorlogger.h"
#include "color.h"
#include "platform.h"
#include <cstdio>
struct Log : ErrorLogger {
    void reportOut(const std::string &, Color) override {}
    void reportErr(const ErrorMessage &) override {}
    void reportMetric(const std::string &) override {}
};
int main() {
    const std::string code = "int f(void) { return (char)200; }";
    Settings settings; settings.platform.set(Platform::Type::Unix64); Log log;
    Tokenizer tokenizer(TokenList(settings, Standards::Language::C), log);
    tokenizer.list.appendFileIfNew("t.c");
    if (!tokenizer.list.createTokensFromBuffer(code.data(), code.size()) || !tokenizer.simplifyTokens1("")) return 2;
    for (const Token *tok = tokenizer.tokens(); tok; tok = tok->next()) {
        if (!tok->isCast()) continue;
        if (!tok->hasKnownIntValue()) { printf("(char)200 has no known value\n"); return 0; }
        printf("%s on unix64: (char)200 has the known value %lld; gcc: -56\n", code.c_str(), (long long)tok->getKnownIntValue());
        return tok->getKnownIntValue() == -56 ? 0 : 1;
    }
    return 2;
}
'''


def build(ctx):
    kb = KernelBuild(ID, TITLE)
    enums, _ = _common.valuetype_enums()
    pstruct, fields, _ = _common.platform_struct()
    f = extract.locate_function("lib/vf_settokenvalue.cpp", r'^\s*static void setTokenValueCast\(Token \*parent, const ValueType &valueType, Value value, const Settings &settings\)')
    kb.add_located("setTokenValueCast", f)
    t, n = located_rules(f, _common.VT_RULES + [
        (r'^\s*static void setTokenValueCast\(Token \*parent, const ValueType &valueType, Value value, const Settings &settings\)',
         'static void cast_dispatch(enum VType vt_type, enum Sign vt_sign, int vt_pointer, _Bool v_impossible, _Bool v_int, _Bool vt_float, const struct Platform *platform, char defaultSign)', 1, 1),
        (r'\bsetTokenValue\(parent,\s*castValue\(std::move\(value\),\s*([^,]+),\s*settings\.platform\.(\w+)\),\s*settings\)\s*;', r'CAST(\1, platform->\2);', 5, 5),
        (r'\bsetTokenValue\(parent,\s*std::move\(value\),\s*settings\)\s*;', 'HAND_ON();', 2),
        (r'\bvalueType\.(type|sign|pointer)\b', r'vt_\1', 6),
        (r'\bvalue\.isImpossible\(\)', 'v_impossible', 1, 1),
        (r'\bvalueType\.isFloat\(\) && isNumeric\(value\)', 'vt_float', 1, 1),
        (r'\bvalue\.isIntValue\(\)', 'v_int', 1),
        (r'\bvalue\.floatValue = \(double\)\(value\.intvalue\)\s*;', ';', 1, 1),
        (r'\bvalue\.valueType = Value::ValueType::FLOAT\s*;', ';', 1, 1),
        (r'\bsettings\.platform\.defaultSign\b', 'defaultSign', 0),
        (r'const long long charMax = settings\.platform\.signedCharMax\(\)\s*;', 'const long long charMax = 127;', 1, 1),
        (r'const long long charMin = settings\.platform\.signedCharMin\(\)\s*;', 'const long long charMin = -128;', 1, 1),
        (r'charMin <= value\.intvalue && value\.intvalue <= charMax', 'nondet_bool()', 1, 1),
        # conversion to bool
        (r'\bisNumeric\(value\)', '(v_int || g_v_isfloat)', 0, 1),
        (r'\bvalue\.intvalue = ', 'g_bool_set = 1; g_bool_val = ', 0, 1),
        (r'\bvalue\.isFloatValue\(\)', 'g_v_isfloat', 0, 1),
        (r'\bvalue\.floatValue\b', 'g_v_float', 0, 1),
        (r'\bvalue\.intvalue\b', 'g_v_intvalue', 0, 1),
        (r'\bvalue\.valueType = Value::ValueType::INT\s*;', ';', 0, 1),
    ], ID)
    if re.search(r'valueType|value\.|settings|std::|Value::', extract.mask(t)):
        raise extract.ExtractError("K57: setTokenValueCast not fully lowered: %r" % re.findall(r'[^\n]*(?:valueType|value\.|settings|std::|Value::)[^\n]*', extract.mask(t))[:3])
    # the value of a conditional operator: converted to the operator's type
    ft = extract.locate_function("lib/vf_settokenvalue.cpp", r'^\s*static void setTernaryValue\(Token\* ternary, Value value, const Settings& settings\)')
    kb.add_located("setTernaryValue", ft)
    tt, k = located_rules(ft, _common.VT_RULES + [
        (r'^\s*static void setTernaryValue\(Token\* ternary, Value value, const Settings& settings\)', 'static void ternary_value(_Bool has_vt, _Bool vt_integral, int vt_pointer, _Bool v_isint, _Bool v_impossible)', 1, 1),
        (r'const ValueType\s*\*\s*vt = ternary->valueType\(\)\s*;', '', 1, 1),
        (r'\bvt && vt->isIntegral\(\) && vt->pointer == 0', 'has_vt && vt_integral && vt_pointer == 0', 1, 1),
        (r'\bvalue\.isIntValue\(\)', 'v_isint', 1, 1),
        (r'\bvalue\.isImpossible\(\)', 'v_impossible', 1, 1),
        (r'\bsetTokenValueCast\(ternary, \*vt, std::move\(value\), settings\)\s*;', 'g_tern = 2;', 1, 1),
        (r'\bsetTokenValue\(ternary, std::move\(value\), settings\)\s*;', 'g_tern = 1;', 1, 1),
    ], ID + ".ternary"); n += k
    if re.search(r'ternary->|value\.|settings|std::|\bvt\b', extract.mask(tt)):
        raise extract.ExtractError("K57: setTernaryValue not fully lowered: %r" % re.findall(r'[^\n]*(?:ternary->|value\.|settings|std::|\bvt\b)[^\n]*', extract.mask(tt))[:3])
    # which operand of a conditional operator is selected by a known condition
    fsv = extract.locate_function("lib/vf_settokenvalue.cpp", r'^\s*void\s+setTokenValue\s*\(\s*Token\s*\*\s*tok\s*,')
    msv = extract.mask(fsv.text)
    cs = list(re.finditer(r'const Value\*\s*condKnown = parent->astOperand1\(\)->getKnownValue\(Value::ValueType::INT\)\s*;', msv))
    ce = re.compile(r'const bool cond\([^;]*\)\s*;').search(msv, cs[0].end()) if len(cs) == 1 else None
    if len(cs) != 1 or not ce:
        raise extract.ExtractError("setTokenValue: the selection of the condition's known value for a conditional operator not found")
    regk = extract.Located("lib/vf_settokenvalue.cpp", fsv.text[cs[0].start():ce.end()], fsv.start + cs[0].start(), fsv.start + ce.end(), extract.read("lib/vf_settokenvalue.cpp"))
    kb.add_located("ValueFlow::setTokenValue [known condition of a conditional operator]", regk, "region")
    tk, k = located_rules(regk, _common.VT_RULES + [
        (r'const Value\*\s*condKnown = parent->astOperand1\(\)->getKnownValue\(Value::ValueType::INT\)\s*;', 'const struct CondVal *condKnown = known_int;', 1, 1),
        (r'condKnown = parent->astOperand1\(\)->getKnownValue\(Value::ValueType::TOK\)\s*;', 'condKnown = known_tok;', 1, 1),
        (r'const Value\s*&\s*condvalue = \*condKnown\s*;', 'const struct CondVal condvalue = *condKnown;', 1, 1),
        (r'\bcondvalue\.isTokValue\(\)', 'condvalue.is_tok', 1, 1),
        (r'\bcondvalue\.isIntValue\(\)', 'condvalue.is_int', 1, 1),
        (r'const bool cond\(([^;]*)\)\s*;', r'const _Bool cond = (\1); *cond_out = cond; *known_out = 1;', 1, 1),
    ], ID + ".condknown"); n += k
    if re.search(r'parent|Value::|\bValue\b', extract.mask(tk)):
        raise extract.ExtractError("K57: the condition selection was not fully lowered: %r" % tk[:300])
    cond_fn = ("struct CondVal { _Bool is_tok, is_int; bigint intvalue; };\n"
               "static void ternary_cond(const struct CondVal *known_int, const struct CondVal *known_tok, _Bool *known_out, _Bool *cond_out)\n{\n    *known_out = 0; *cond_out = 0;\n%s\n}\n}\n" % extract.strip_comments(tk))
    whole = extract.strip_comments(extract.locate_function("lib/vf_settokenvalue.cpp", r'^\s*void\s+setTokenValue\s*\(\s*Token\s*\*\s*tok\s*,').text)
    if len(re.findall(r'\bsetTernaryValue\(parent,', whole)) != 3:
        raise extract.ExtractError("setTokenValue: the three places that hand a value to a conditional operator no longer all call setTernaryValue")
    kb.rules_fired = n
    text = _common.BASE + enums + pstruct + PRELUDE + extract.strip_comments(t) + "\n" + "int g_tern;   /* 1: handed on unchanged, 2: converted to the operator's type (setTokenValueCast) */\n" + extract.strip_comments(tt) + "\n" + cond_fn + "\n"
    extract.residue_scan(text, ID)
    kb.ctext = text + HARNESS
    kb.job("dispatch", "h_dispatch", replay="char", note="loop-free function; every integer target type and signedness, long 32/64, every default sign")
    kb.job("ternary", "h_ternary_value", note="loop-free function; the three call sites in setTokenValue are pinned by text")
    kb.job("ternary.cond", "h_ternary_cond", note="loop-free region: which known value of the condition selects the operand")
    kb.job("bool", "h_bool", replay="bool", note="loop-free function; every integer and every (non-NaN) floating point value")
    kb.job("cover", "h_cover", kind="cover")
    kb.assumptions += ["castValue is a record of (sign, bits) here (its arithmetic is K04's contract); setTokenValue is `hand on`; the unknown-type tail of the function is an oracle",
                       "wchar_t, float targets and impossible values are not part of the obligation; for bool the value itself is read through globals of the harness"]

    def rp(inputs, ctx):
        rc, o, cmd = native.compile_run("replay_K57", REPLAY_CPP, [])
        return native.verdict_from_rc(rc, o), o, cmd
    kb.replayers["char"] = rp

    def rpb(inputs, ctx):
        rc, o, cmd = native.compile_run("replay_K57_bool", REPLAY_CPP.replace("(char)200", "(_Bool)2").replace("== -56", "== 1").replace("gcc: -56", "gcc: 1"), [])
        return native.verdict_from_rc(rc, o), o, cmd
    kb.replayers["bool"] = rpb
    return kb
