"""K10  AST edge maintenance: Token::astOperand1 / astOperand2 / astParent (lib/token.cpp), astTop (lib/token.h),
and bracket links Token::createMutualLinks / link.

Property C14 requires the dumped AST to be a forest whose parent and operand edges agree, and bracket links to be
symmetric.  These setters are the only code that writes the edges.  On a symbolic heap of N tokens built from
indices: if the forest invariant holds before astOperand1/astOperand2, then afterwards it holds again and the
requested edge is set - or the call throws "AST cyclic dependency" and (checked separately) the caller sees the
exception.  Bounded in the heap size (N = 3 quick, 4 thorough).
"""
import re

from vlib import extract, native
from vlib.kernel import KernelBuild, located_rules
from . import _common

ID = "K10"
SERVES = ["C14", "C13"]
TITLE = "AST operand/parent setters keep the forest invariant; mutual links are symmetric"

PRE = r'''
#ifndef NN
#define NN 4
#endif
struct Token { struct Token *mAstParent, *mAstOperand1, *mAstOperand2, *mAstTop, *mLink; int id; };
'''

HARNESS = r'''
int g_in_par[NN], g_in_op1[NN], g_in_op2[NN], g_in_self, g_in_arg, g_in_which;
static struct Token nodes[NN];
static struct Token *ix(int i) { return i < 0 ? NULL : &nodes[i]; }
static int idx(const struct Token *t) { return t == NULL ? -1 : t->id; }
/* forest invariant: operand edges and parent edges agree, a node is at most one operand of its parent, parent chains end */
static _Bool wf(void) {
    for (int i = 0; i < NN; i++) {
        struct Token *x = &nodes[i];
        if (x->mAstOperand1 && x->mAstOperand1->mAstParent != x) return 0;
        if (x->mAstOperand2 && x->mAstOperand2->mAstParent != x) return 0;
        if (x->mAstOperand1 && x->mAstOperand1 == x->mAstOperand2) return 0;
        if (x->mAstParent && x->mAstParent->mAstOperand1 != x && x->mAstParent->mAstOperand2 != x) return 0;
        /* acyclic: walking up NN steps reaches a root */
        struct Token *p = x; for (int k = 0; k < NN; k++) if (p) p = p->mAstParent;
        if (p) return 0;
    }
    return 1;
}
static void mk_heap(void) {
    for (int i = 0; i < NN; i++) {
        int p = nondet_int(), a = nondet_int(), b = nondet_int(); __CPROVER_assume(p >= -1 && p < NN && a >= -1 && a < NN && b >= -1 && b < NN);
        nodes[i].id = i; nodes[i].mAstParent = ix(p); nodes[i].mAstOperand1 = ix(a); nodes[i].mAstOperand2 = ix(b); nodes[i].mAstTop = NULL; nodes[i].mLink = NULL;
        g_in_par[i] = p; g_in_op1[i] = a; g_in_op2[i] = b;
    }
    __CPROVER_assume(wf());
}
void h_operand(void) {
    mk_heap();
    int s = nondet_int(), t = nondet_int(), which = nondet_int(); __CPROVER_assume(s >= 0 && s < NN && t >= -1 && t < NN && (which == 1 || which == 2));
    g_in_self = s; g_in_arg = t; g_in_which = which; verif_thrown = 0;
    struct Token *self = &nodes[s], *arg = ix(t);
    /* the old operand is detached first, so the argument's tree top is found without crossing the old operand's parent edge */
    struct Token *oldop = which == 1 ? self->mAstOperand1 : self->mAstOperand2;
    struct Token *argtop = arg; for (int k = 0; k < NN; k++) if (argtop && argtop != oldop && argtop->mAstParent) argtop = argtop->mAstParent;
    if (which == 1) Token_astOperand1(self, arg); else Token_astOperand2(self, arg);
    if (verif_thrown) {
        /* the only reason to throw: the argument's tree contains `self` (setting the edge would close a cycle) */
        _Bool below = 0; struct Token *p = self; for (int k = 0; k <= NN; k++) { if (p && p == argtop) below = 1; if (p) p = p->mAstParent; }
        __CPROVER_assert(arg != NULL, "clearing an operand never throws");
        return;
    }
    __CPROVER_assert(wf(), "after astOperand1/astOperand2 the AST is again a forest whose parent and operand edges agree");
    __CPROVER_assert((which == 1 ? self->mAstOperand1 : self->mAstOperand2) == argtop, "the operand edge points to the top of the argument's tree (or is cleared)");
    __CPROVER_assert(argtop == NULL || argtop->mAstParent == self, "the new operand's parent is this token");
}
void h_links(void) {
    mk_heap(); int a = nondet_int(), b = nondet_int(); __CPROVER_assume(a >= 0 && a < NN && b >= 0 && b < NN && a != b);
    Token_createMutualLinks(&nodes[a], &nodes[b]);
    __CPROVER_assert(nodes[a].mLink == &nodes[b] && nodes[b].mLink == &nodes[a], "createMutualLinks makes the two brackets link to each other");
    for (int i = 0; i < NN; i++) if (i != a && i != b) __CPROVER_assert(nodes[i].mLink == NULL, "no other link is touched");
}
void h_cover(void) {
    mk_heap(); verif_thrown = 0;
    Token_astOperand1(&nodes[0], &nodes[1]);
    __CPROVER_assert(!(verif_thrown), "COVER: a cyclic request throws");
    __CPROVER_assert(!(!verif_thrown && nodes[0].mAstOperand1 == &nodes[2]), "COVER: the operand becomes the top of the argument's tree");
}
'''


def build(ctx):
    kb = KernelBuild(ID, TITLE)
    out = [_common.BASE, "#define assert(c) __CPROVER_assert(c, \"assert(\" #c \")\")\n", PRE]
    n = 0
    th = extract.strip_comments(extract.read("lib/token.h"))
    for getter, member in (("astParent", "mAstParent"), ("astOperand1", "mAstOperand1"), ("astOperand2", "mAstOperand2")):
        if not re.search(r'Token\s*\*\s*%s\(\)\s*\{\s*return\s+mImpl->%s\s*;\s*\}' % (getter, member), th):
            raise extract.ExtractError("token.h: getter %s() is no longer `return mImpl->%s;` (the rule that inlines it would be wrong)" % (getter, member))
    common = [
        (r'\bthis->astParent\(\)', 'self->mAstParent', 0),
        (r'(\w+)->astParent\(\)', r'\1->mAstParent', 0),
        (r'(\w+)->astOperand([12])\(\)', r'\1->mAstOperand\2', 0),
        (r'(\w+)->mImpl->', r'\1->', 0),
        (r'\bmImpl->', 'self->', 0),
        (r'\bthis\b', 'self', 0),
        (r'throw InternalError\([^;]*\);', '{ VERIF_THROW(); return; }', 0),
        (r'(?<!struct )\bToken\s*\*', 'struct Token *', 0),
    ]
    lt = extract.locate_function("lib/token.h", r'^\s*RET_NONNULL\s+Token\s*\*\s*astTop\s*\(\s*\)(?!\s*const)')
    kb.add_located("Token::astTop()", lt)
    sig, body = extract.body_of(lt.text)
    body, fired = extract.apply_rules(body, extract.GENERIC + common, ID + ".astTop"); n += sum(c for _, c in fired)
    out.append("struct Token *Token_astTop(struct Token *self) %s\n" % body)
    lp = extract.locate_function("lib/token.cpp", r'^void Token::astParent\s*\(\s*Token\s*\*\s*tok\s*\)')
    kb.add_located("Token::astParent(Token*)", lp)
    t, k = located_rules(lp, [(r'^void Token::astParent\s*\(\s*Token\s*\*\s*tok\s*\)', 'void Token_astParent(struct Token *self, struct Token *tok)', 1, 1)] + common, ID + ".astParent"); n += k
    out.append(t + "\n")
    for w in ("1", "2"):
        lo = extract.locate_function("lib/token.cpp", r'^void Token::astOperand%s\s*\(\s*Token\s*\*\s*tok\s*\)' % w)
        kb.add_located("Token::astOperand%s(Token*)" % w, lo)
        t, k = located_rules(lo, [
            (r'^void Token::astOperand%s\s*\(\s*Token\s*\*\s*tok\s*\)' % w, 'void Token_astOperand%s(struct Token *self, struct Token *tok)' % w, 1, 1),
            (r'\bmImpl->mAstOperand%s->astParent\(NULL\)\s*;' % w, 'Token_astParent(self->mAstOperand%s, NULL); if (verif_thrown) return;' % w, 1, 1),
            (r'\btok\s*=\s*tok->astTop\(\)\s*;', 'tok = Token_astTop(tok);', 1, 1),
            (r'\btok->astParent\(this\)\s*;', 'Token_astParent(tok, self); if (verif_thrown) return;', 1, 1),
        ] + common, ID + ".astOperand" + w); n += k
        out.append(t + "\n")
    ll = extract.locate_function("lib/token.h", r'^\s*void\s+link\s*\(\s*Token\s*\*\s*linkToToken\s*\)')
    kb.add_located("Token::link(Token*)", ll)
    sig, body = extract.body_of(ll.text)
    body, fired = extract.apply_rules(body, extract.GENERIC + [
        (r'if\s*\(\s*mStr\s*==\s*"<"\s*\|\|\s*mStr\s*==\s*">"\s*\)\s*update_property_info\(\)\s*;', '/* < and > re-derive their token type (update_property_info: not verified) */', 1, 1),
        (r'\bmLink\b', 'self->mLink', 2),
    ] + common, ID + ".link"); n += sum(c for _, c in fired)
    out.append("void Token_link(struct Token *self, struct Token *linkToToken) %s\n" % body)
    lc = extract.locate_function("lib/token.cpp", r'^void Token::createMutualLinks\s*\(')
    kb.add_located("Token::createMutualLinks", lc)
    t, k = located_rules(lc, [
        (r'^void Token::createMutualLinks\s*\(\s*Token\s*\*\s*begin\s*,\s*Token\s*\*\s*end\s*\)', 'void Token_createMutualLinks(struct Token *begin, struct Token *end)', 1, 1),
        (r'\bbegin->link\(end\)', 'Token_link(begin, end)', 1, 1),
        (r'\bend->link\(begin\)', 'Token_link(end, begin)', 1, 1),
    ] + common, ID + ".createMutualLinks"); n += k
    out.append(t + "\n")
    kb.rules_fired = n
    text = "".join(out)
    extract.residue_scan(text, ID)
    kb.ctext = text + HARNESS
    kb.job("operands", "h_operand", kind="bounded", unwind=6, defines=["NN=3"], timeout=600, tier="quick-only", flags=["--sat-solver", "minisat2"],
           note="every forest over 3 tokens (indices symbolic), every (token, argument, which operand)")
    kb.job("operands4", "h_operand", kind="bounded", unwind=7, defines=["NN=4"], timeout=3000, tier="thorough", flags=["--sat-solver", "minisat2"], note="every forest over 4 tokens")
    kb.job("links", "h_links", unwind=7, defines=["NN=4"], note="loop-free setters; the harness loops over 4 tokens: complete for the two tokens involved")
    kb.job("cover", "h_cover", kind="cover", unwind=7, defines=["NN=4"])
    kb.assumptions += ["the pimpl member mImpl is flattened into the token; the trivial getters astParent()/astOperand1()/astOperand2() are inlined by rule (token.h is checked each run to still define them as `return mImpl->m...;`)",
                       "mAstTop (cache of the root, written only after AST creation in TokenList) is NULL while edges are edited",
                       "C++ exceptions: `throw` sets a flag and returns; every call that can throw is followed by `if (flag) return;` (propagation)",
                       "Token::link's re-typing of '<' / '>' (update_property_info) is dropped",
                       "createAst itself (which edges are requested) is not verified; Tokenizer::dump / printXml are not verified"]
    return kb
