"""K40  getMinFormatStringOutputLength (lib/checkbufferoverrun.cpp): the minimum number of characters a printf-style call
writes, which checkBufferSize compares with the destination size to report bufferAccessOutOfBounds (severity error).

Property C04: an error finding must not be reported for code whose executions are free of undefined behaviour.  The
finding is reported when this function's result is >= the buffer size, so the result must never exceed what a call can
actually write:  result <= min over all executions of the output length (C11 7.21.6.1).

Region: from `bool percentCharFound = false;` to `return outputStringSize;` (the scan of the format string).  std::string
operations are lowered to a small fixed-capacity string model; the decimal length of a known argument and the known
length of a string argument are oracles (declen is exact, by comparison with the powers of ten).
Reference: specs/printf_ref.h - the exact minimum output length for formats over the alphabet below.
Bounded: format bodies of up to FMT_MAX characters over `% . - 0 1 2 5 l d i x u s c n a`, up to 3 arguments.
"""
import re

from vlib import extract, native
from vlib.kernel import KernelBuild, located_rules
from . import _common

ID = "K40"
SERVES = ["C04", "C13"]
TITLE = "getMinFormatStringOutputLength never exceeds the number of characters the call can write"

PRELUDE = r'''
#define PRINTF_REF_MAX @FMT_MAX@
#include "printf_ref.h"
/* Observational model of the std::string `digits_string`: the region only appends characters, asks for the first '.', takes the
   part after that '.', and converts either the whole string or that part with atoi.  The model keeps, instead of the characters, the
   two running atoi automata (whole string / part after the first '.'); every other use of the string stops the extraction.
   atoi: optional sign, decimal digits, stops at the first other character (the alphabet has no white space). */
#define VS_NPOS ((size_t)-1)
struct AT { unsigned st; _Bool neg; int val; };            /* st 0: start, 1: sign seen, 2: in digits, 3: stopped */
struct VS { size_t n; _Bool has_dot; size_t dot; struct AT w, p; };
static void at_feed(struct AT *a, char c) {
    _Bool dig = c >= '0' && c <= '9';
    if (a->st == 0 && (c == '-' || c == '+')) { a->neg = c == '-'; a->st = 1; }
    else if ((a->st == 0 || a->st == 1) && dig) { a->val = c - '0'; a->st = 2; }
    else if (a->st == 2 && dig) { __CPROVER_assert(a->val < 100000000, "string model: atoi stays in range"); a->val = a->val * 10 + (c - '0'); }
    else a->st = 3;
}
static void vs_init(struct VS *v) { v->n = 0; v->has_dot = 0; v->dot = 0; v->w.st = 0; v->w.neg = 0; v->w.val = 0; v->p.st = 0; v->p.neg = 0; v->p.val = 0; }
static void vs_push(struct VS *v, char c) {
    at_feed(&v->w, c);
    if (v->has_dot) at_feed(&v->p, c);
    else if (c == '.') { v->has_dot = 1; v->dot = v->n; }
    v->n = v->n + 1;
}
static size_t vs_find_dot(const struct VS *v) { return v->has_dot ? v->dot : VS_NPOS; }
static struct VS vs_substr(const struct VS *v, size_t pos) {
    __CPROVER_assert(v->has_dot && pos == v->dot + 1, "string model: substr is taken right after the first '.'");
    struct VS r; vs_init(&r); r.n = v->n - pos; r.w = v->p; return r;
}
static int vs_atoi(const struct VS *v) { return v->w.neg ? -v->w.val : v->w.val; }
static int abs_i(int x) { return x < 0 ? -x : x; }
#define MAX_I(a, b) ((a) < (b) ? (b) : (a))
#define MIN_I(a, b) ((b) < (a) ? (b) : (a))
/* argument facts (harness): parameters[formatStringArgNr + k] */
extern unsigned a_n; extern _Bool a_known[3]; extern bigint a_val[3]; extern bigint a_slen[3]; extern unsigned a_first;
#define ARG_IN(i) ((i) < a_first + a_n)
static _Bool ARG_hasKnown(unsigned i) { __CPROVER_assert(i >= a_first && i < a_first + a_n, "parameters[] index in range"); return a_known[i - a_first]; }
static bigint ARG_known(unsigned i) { __CPROVER_assert(i >= a_first && i < a_first + a_n && a_known[i - a_first], "getKnownIntValue on a token with a known value"); return a_val[i - a_first]; }
static bigint ARG_strlen(unsigned i) { __CPROVER_assert(i >= a_first && i < a_first + a_n, "parameters[] index in range"); return a_slen[i - a_first]; }
'''

HARNESS = r'''
#define FMT_MAX @FMT_MAX@
unsigned a_n; _Bool a_known[3]; bigint a_val[3]; bigint a_slen[3]; unsigned a_first;
char g_in_fmt[FMT_MAX + 3]; int g_in_len, g_in_nargs, g_in_known[3]; bigint g_in_val[3], g_in_slen[3];
static const char ALPHA[] = "%.-01 25ldixuscna";
static int mk_format(char *fmt) {
    int n = nondet_int(); __CPROVER_assume(n >= 0 && n <= FMT_MAX);
    fmt[0] = '"';
    for (int i = 0; i < FMT_MAX; i++) {
        char c = nondet_char(); _Bool ok = 0;
        for (int k = 0; k < (int)sizeof(ALPHA) - 1; k++) if (ALPHA[k] != ' ' && c == ALPHA[k]) ok = 1;
        __CPROVER_assume(ok);
        fmt[1 + i] = i < n ? c : 0;
    }
    fmt[1 + n] = '"'; fmt[2 + n] = 0;
    a_first = nondet_unsigned(); __CPROVER_assume(a_first >= 1 && a_first <= 3);
    a_n = nondet_unsigned(); __CPROVER_assume(a_n <= 3);
    for (int k = 0; k < 3; k++) {
        a_known[k] = nondet_bool(); a_val[k] = nondet_bigint(); a_slen[k] = nondet_bigint();
        __CPROVER_assume(a_val[k] >= -2147483648LL && a_val[k] <= 2147483647LL && a_slen[k] >= 0 && a_slen[k] <= 1000000);
        g_in_known[k] = a_known[k]; g_in_val[k] = a_val[k]; g_in_slen[k] = a_slen[k];
    }
    for (int i = 0; i < FMT_MAX + 3; i++) g_in_fmt[i] = fmt[i];
    g_in_len = n; g_in_nargs = a_n;
    return n;
}
void h_fmt(void) {
    char fmt[FMT_MAX + 3]; int n = mk_format(fmt);
    int code = fmt_min_len(fmt, (size_t)n + 2, a_first);
    long ref = printf_min_len(fmt + 1, n, a_n, a_known, a_val, a_slen);
    __CPROVER_assert(code >= 0, "the minimum length is not negative");
    if (ref >= 0) __CPROVER_assert(code <= ref, "the reported minimum output length does not exceed what the call can write");
}
void h_cover(void) {
    char fmt[FMT_MAX + 3]; int n = mk_format(fmt);
    int code = fmt_min_len(fmt, (size_t)n + 2, a_first);
    long ref = printf_min_len(fmt + 1, n, a_n, a_known, a_val, a_slen);
    __CPROVER_assert(!(ref == 7 && code == 7 && n == 4), "COVER: a 4-character format with minimum output 7, computed exactly");
    __CPROVER_assert(!(ref >= 0 && code < ref), "COVER: an underestimate (allowed)");
    __CPROVER_assert(!(ref < 0), "COVER: a format the reference rejects (undefined behaviour in the analysed program)");
}
'''

REPLAY_CPP = r'''
#include "settings.h"
#include "tokenize.h"
#include "tokenlist.h"
#include "token.h"
#include "errorlogger.h"
#include "color.h"
#include "astutils.h"
#include "@REPO@/lib/checkbufferoverrun.cpp"
#include <cstdio>
#include <cstdlib>
#include <string>
struct Log : ErrorLogger {
    void reportOut(const std::string &, Color) override {}
    void reportErr(const ErrorMessage &) override {}
    void reportMetric(const std::string &) override {}
};
/* argv: format-body ref nargs then per argument: kind(0 unknown int, 1 known int, 2 string of known length) value */
int main(int argc, char **argv) {
    const std::string body = argv[1]; const long ref = atol(argv[2]); const int nargs = atoi(argv[3]);
    std::string decl = "void f(char *buf, int u0, int u1, int u2, const char *q0, const char *q1, const char *q2) { sprintf(buf, \"" + body + "\"";
    for (int k = 0; k < nargs; k++) {
        const int kind = atoi(argv[4 + 2 * k]); const long long v = atoll(argv[5 + 2 * k]);
        if (kind == 1) decl += ", " + std::to_string(v);
        else if (kind == 2) decl += ", \"" + std::string((size_t)v, 'x') + "\"";
        else if (kind == 3) decl += ", q" + std::to_string(k);
        else decl += ", u" + std::to_string(k);
    }
    decl += "); }";
    Settings settings; Log log;
    Tokenizer tokenizer(TokenList(settings, Standards::Language::C), log);
    tokenizer.list.appendFileIfNew("t.c");
    if (!tokenizer.list.createTokensFromBuffer(decl.data(), decl.size()) || !tokenizer.simplifyTokens1("")) { printf("tokenizing failed: %s\n", decl.c_str()); return 2; }
    for (const Token *tok = tokenizer.tokens(); tok; tok = tok->next()) {
        if (tok->str() != "sprintf" || !Token::simpleMatch(tok->next(), "(")) continue;
        const std::vector<const Token *> args = getArguments(tok);
        const int code = getMinFormatStringOutputLength(args, 2, settings);
        printf("%s\ngetMinFormatStringOutputLength = %d, the call can write as few as %ld characters\n", decl.c_str(), code, ref);
        return code <= ref ? 0 : 1;
    }
    printf("no sprintf call found\n"); return 2;
}
'''


def build(ctx):
    kb = KernelBuild(ID, TITLE)
    f = extract.locate_function("lib/checkbufferoverrun.cpp", r'^static int getMinFormatStringOutputLength\s*\(')
    m = extract.mask(f.text)
    s = list(re.finditer(r'bool\s+percentCharFound\s*=\s*false\s*;', m))
    e = m.rfind('}')
    if len(s) != 1:
        raise extract.ExtractError("getMinFormatStringOutputLength: `bool percentCharFound = false;` not found")
    head = extract.strip_comments(f.text[:s[0].start()])
    # the prefix: argument-number guard, string-token guard, formatString = the token's spelling (with its quotes)
    if not re.search(r'const std::string &formatString = parameters\[formatStringArgNr - 1\]->str\(\);\s*$', head.strip()) or len(re.findall(r'\breturn 0;', head)) != 2:
        raise extract.ExtractError("getMinFormatStringOutputLength: unexpected prefix before the scan: %r" % head.strip()[-300:])
    reg = extract.Located("lib/checkbufferoverrun.cpp", f.text[s[0].start():e], f.start + s[0].start(), f.start + e, extract.read("lib/checkbufferoverrun.cpp"))
    kb.add_located("getMinFormatStringOutputLength [scan of the format string]", reg, "region")
    t, n = located_rules(reg, [
        (r'\bstd::string\s+digits_string\s*;', 'struct VS digits_string; vs_init(&digits_string);', 1, 1),
        (r'\bformatString\.length\(\)', 'fmt_len', 1),
        (r'\bformatString\[', 'fmt[', 3),
        (r'\bdigits_string\.append\(1,\s*([^;]+?)\)\s*;', r'vs_push(&digits_string, \1);', 1, 1),
        (r'\bconst std::string endStr = digits_string\.substr\(digits_string\.find\(\'\.\'\) \+ 1\)\s*;', "struct VS endStr = vs_substr(&digits_string, vs_find_dot(&digits_string) + 1);", 1, 1),
        (r"\bdigits_string\.find\('\.'\)\s*!=\s*std::string::npos", "vs_find_dot(&digits_string) != VS_NPOS", 1, 1),
        (r'\bstd::atoi\((\w+)\.c_str\(\)\)', r'vs_atoi(&\1)', 2, 3),
        (r'(?<![\w:])abs\(', 'abs_i(', 2, 3),      # std::abs -> abs by the generic rules
        (r'\bstd::max\(', 'MAX_I(', 0),
        (r'\bstd::min\(', 'MIN_I(', 0),
        (r'\bdigits_string\.clear\(\)\s*;', 'vs_init(&digits_string);', 1, 1),
        (r'\binputArgNr < parameters\.size\(\)', 'ARG_IN(inputArgNr)', 2, 2),
        (r'\bparameters\[inputArgNr\]->hasKnownIntValue\(\)', 'ARG_hasKnown(inputArgNr)', 1, 1),
        (r'\bMathLib::toString\(parameters\[inputArgNr\]->getKnownIntValue\(\)\)\.length\(\)', 'printf_declen(ARG_known(inputArgNr))', 1, 1),
        (r'\bparameters\[inputArgNr\]->getKnownIntValue\(\)', 'ARG_known(inputArgNr)', 0),
        (r'\bValueFlow::valueFlowGetStrLength\(parameters\[inputArgNr\],\s*settings\)', 'ARG_strlen(inputArgNr)', 1, 1),
    ], ID)
    if re.search(r'std::|parameters|\bformatString\b|MathLib|ValueFlow', extract.mask(t)):
        raise extract.ExtractError("K40: part of the scan was not lowered: %r" % re.findall(r'[^\n]*(?:std::|parameters|\bformatString\b|MathLib|ValueFlow)[^\n]*', extract.mask(t))[:3])
    kb.rules_fired = n
    fn = "static int fmt_min_len(const char *fmt, size_t fmt_len, unsigned formatStringArgNr)\n{\n%s\n}\n" % extract.strip_comments(t)
    fmt_max = 5 if ctx.tier == "thorough" else 4
    text = _common.BASE + PRELUDE.replace("@FMT_MAX@", str(fmt_max)) + fn
    extract.residue_scan(text, ID)
    kb.ctext = text + HARNESS.replace("@FMT_MAX@", str(fmt_max))
    known = "K40.format-minimum-overestimates"
    kb.job("fmt", "h_fmt", kind="bounded", unwind=20, timeout=1500, replay="fmt", mem_kb=16000000,
           note="format bodies of up to %d characters over `%% . - 0 1 2 5 l d i x u s c n a`, up to 3 arguments (unknown / known int / string of known length)" % fmt_max)
    kb.job("cover", "h_cover", kind="cover", unwind=20, timeout=1500, mem_kb=16000000)
    kb.assumptions += ["region interface: formatString is the spelling of a string-literal token (with its quotes); parameters[k] facts are (hasKnownIntValue, known value in int range, valueFlowGetStrLength in 0..10^6) - the functions computing them are not verified",
                       "specs/printf_ref.h is the reference for the minimum output length (C11 7.21.6.1) over the stated alphabet; formats it rejects (undefined behaviour in the analysed program) are unconstrained",
                       "std::string `digits_string` is an observational model (running atoi automata of the whole string and of the part after the first `.`); any other use of the string stops the extraction",
                       "backslash escapes, `*` widths, floating conversions and positional arguments are outside the alphabet"]

    def rp(inputs, ctx):
        buf = inputs.get("g_in_fmt") or []
        ln = int(inputs.get("g_in_len", 0) or 0)
        body = "".join(chr(c & 0xff) for c in buf[1:1 + ln])
        nargs = int(inputs.get("g_in_nargs", 0) or 0)
        kn, va, sl = inputs.get("g_in_known") or [], inputs.get("g_in_val") or [], inputs.get("g_in_slen") or []
        # which kind each argument needs follows from the conversion that consumes it
        convs = re.findall(r'%[-0]*\d*(?:\.\d*)?l*([a-zA-Z%])', body)
        convs = [c for c in convs if c != '%']
        args = []
        for k in range(nargs):
            c = convs[k] if k < len(convs) else 'd'
            if c == 's':
                n_ = int(sl[k]) if k < len(sl) else 0
                args += (["2", str(min(n_, 2000))] if n_ > 0 else ["3", "0"])
            elif c in 'di' and k < len(kn) and kn[k]:
                args += ["1", str(va[k])]
            else:
                args += ["0", "0"]
        # the reference value is recomputed by the verifier's trace only implicitly: replay compares against a fresh evaluation
        ref = native_ref(body, nargs, kn, va, sl)
        if ref is None:
            return "none", "reference rejects the format %r" % body, ""
        rc, o, cmd = native.compile_run("replay_K40", REPLAY_CPP.replace("@REPO@", extract.REPO), [body, str(ref), str(nargs)] + args, exclude_objs=("checkbufferoverrun.cpp.o",))
        return native.verdict_from_rc(rc, o), o, cmd
    kb.replayers["fmt"] = rp
    return kb


def native_ref(body, nargs, kn, va, sl):
    """the reference of specs/printf_ref.h in python (replay side only)"""
    i, total, argi, n = 0, 0, 0, len(body)
    while i < n:
        c = body[i]
        if c != '%':
            total += 1; i += 1; continue
        i += 1
        if i >= n:
            return None
        if body[i] == '%':
            total += 1; i += 1; continue
        flags, zero_flag = 0, False
        while i < n and body[i] in '-0':
            zero_flag = zero_flag or body[i] == '0'
            flags += 1; i += 1
        width, wd = 0, 0
        while i < n and body[i].isdigit():
            width = width * 10 + int(body[i]); i += 1; wd += 1
        hasprec, prec = False, 0
        if i < n and body[i] == '.':
            hasprec = True; i += 1
            while i < n and body[i].isdigit():
                prec = prec * 10 + int(body[i]); i += 1
        nl = 0
        while i < n and body[i] == 'l':
            nl += 1; i += 1
        if i >= n or nl > 2:
            return None
        conv = body[i]; i += 1
        have = argi < nargs
        if conv in 'di':
            if have and argi < len(kn) and kn[argi]:
                v = int(va[argi]); nd = len(str(abs(v)))
                if v == 0 and hasprec and prec == 0:
                    nd = 0
                ln = (1 if v < 0 else 0) + max(nd, prec if hasprec else 1) if not (v == 0 and hasprec and prec == 0) else 0
            else:
                ln = prec if hasprec else 1
        elif conv in 'xu':
            ln = prec if hasprec else 1
        elif conv == 's':
            if nl:
                return None
            S = int(sl[argi]) if (have and argi < len(sl)) else 0
            ln = min(S, prec) if hasprec else S
        elif conv == 'c':
            if hasprec or nl or zero_flag:
                return None
            ln = 1
        elif conv == 'n':
            if hasprec or width or flags or wd:
                return None
            ln = 0
        else:
            return None
        total += max(width, ln)
        argi += 1
    return total
