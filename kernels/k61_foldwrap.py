"""K61  binary folding in ValueFlow::setTokenValue (lib/vf_settokenvalue.cpp): what becomes of the result of
calculate(op, v1, v2) for two integer operand values.

Region: from `auto val = calculate(parent->str(), intValue1(), intValue2(), &error);` to the `if (error)` that follows.
calculate is K06's contract (the mathematical / two's complement result in 64 bits); here it is an arbitrary input.
Contract (C10 "wrap-around of unsigned arithmetic", C01): a known or possible result of an arithmetic, bit or shift operator
whose type is an unsigned integer type of N < 64 bits is the 64-bit result reduced modulo 2^N; the unreduced result is kept
in wideintvalue; every other result is stored unchanged.  ValueFlow::truncateIntValue is called through its contract (K01).
"""
import re

from vlib import extract, native
from vlib.kernel import KernelBuild, located_rules
from . import _common, k01_truncate

ID = "K61"
SERVES = ["C10", "C01", "C03", "C13"]
TITLE = "setTokenValue binary folding: results of unsigned arithmetic are reduced modulo 2^N"

HARNESS = r'''
bigint g_in_val; int g_in_size, g_in_sign, g_in_comp, g_in_imp, g_in_ptr, g_in_hasvt;
void h_fold(void) {
    bigint val = nondet_bigint(); size_t sz = nondet_size_t(); __CPROVER_assume(sz == 0 || sz == 1 || sz == 2 || sz == 4 || sz == 8);
    enum Sign s = (enum Sign)nondet_int(); __CPROVER_assume(s >= Sign_UNKNOWN_SIGN && s <= Sign_UNSIGNED);
    _Bool comp = nondet_bool(), imp = nondet_bool(), hasvt = nondet_bool(); int ptr = nondet_bool();
    g_in_val = val; g_in_size = (int)sz; g_in_sign = s; g_in_comp = comp; g_in_imp = imp; g_in_ptr = ptr; g_in_hasvt = hasvt;
    bigint res_int = 0, res_wide = 0; double res_float = 0;
    op1_unsigned64 = nondet_bool(); op2_unsigned64 = nondet_bool(); calc_result_unsigned = nondet_biguint();
    if (comp) __CPROVER_assume((val == 0 || val == 1) && calc_result_unsigned <= 1);
    res_bound_point = nondet_bool(); op_may_wrap = nondet_bool(); fold_dropped = 0;
    fold_block(val, 0, imp, comp, hasvt, s, ptr, sz, &res_int, &res_wide, &res_float);
    /* C01: a bound (x > v, x < v) of an operand says nothing about the result of unsigned arithmetic that can wrap around */
    if (imp && !res_bound_point && !comp && hasvt && s == Sign_UNSIGNED && !ptr && sz >= 1 && sz < 8 && op_may_wrap) {
        __CPROVER_assert(fold_dropped, "an impossible bound is not handed on through + - * << of an unsigned type of less than 64 bits");
        return;
    }
    __CPROVER_assert(!fold_dropped, "every other result is handed on");
    if (comp && (op1_unsigned64 || op2_unsigned64)) {
        __CPROVER_assert(res_int == (bigint)calc_result_unsigned, "operands whose common type is unsigned 64 bits are compared as unsigned values");
    } else if (!imp && !comp && hasvt && s == Sign_UNSIGNED && !ptr && sz >= 1 && sz < 8) {
        __CPROVER_assert((biguint)res_int == ((biguint)val & ((1ULL << (8 * sz)) - 1)), "a known / possible result of unsigned arithmetic is reduced modulo 2^N");
        __CPROVER_assert(res_wide == val, "the unreduced result is kept in wideintvalue");
    } else {
        __CPROVER_assert(res_int == val, "every other result is stored unchanged");
    }
}
void h_cover(void) {
    bigint res_int = 0, res_wide = 0; double res_float = 0;
    op1_unsigned64 = 0; op2_unsigned64 = 0; calc_result_unsigned = 0; res_bound_point = 1; op_may_wrap = 1;
    fold_block(4294967296LL, 0, 0, 0, 1, Sign_UNSIGNED, 0, 4, &res_int, &res_wide, &res_float);
    __CPROVER_assert(!(res_int == 0 && res_wide == 4294967296LL), "COVER: 4294967295u + 1u");
    fold_block(-5, 0, 0, 0, 1, Sign_SIGNED, 0, 4, &res_int, &res_wide, &res_float);
    __CPROVER_assert(!(res_int == -5), "COVER: signed result");
}
'''

REPLAY_CPP = r'''
#include "settings.h"
#include "tokenize.h"
#include "tokenlist.h"
#include "token.h"
#include "errorlogger.h"
#include "color.h"
#include "platform.h"
#include <cstdio>
struct Log : ErrorLogger {
    void reportOut(const std::string &, Color) override {}
    void reportErr(const ErrorMessage &) override {}
    void reportMetric(const std::string &) override {}
};
static int check(const std::string &expr, const std::string &op, long long want) {
    const std::string code = "long long f(void) { long long x = " + expr + "; return x; }";
    Settings settings; settings.platform.set(Platform::Type::Unix64); Log log;
    Tokenizer tokenizer(TokenList(settings, Standards::Language::C), log);
    tokenizer.list.appendFileIfNew("t.c");
    if (!tokenizer.list.createTokensFromBuffer(code.data(), code.size()) || !tokenizer.simplifyTokens1("")) return 2;
    for (const Token *tok = tokenizer.tokens(); tok; tok = tok->next()) {
        if (tok->str() != op || !tok->astOperand2()) continue;
        if (!tok->hasKnownIntValue()) { printf("%s: no known value\n", expr.c_str()); return 0; }
        printf("%s on unix64: %s has the known value %lld; a compiler: %lld\n", code.c_str(), expr.c_str(), (long long)tok->getKnownIntValue(), want);
        return tok->getKnownIntValue() == want ? 0 : 1;
    }
    return 2;
}
int main() {
    const int a = check("4294967295u + 1u", "+", 0);
    const int b = check("-1 < sizeof(int)", "<", 0);
    return (a == 1 || b == 1) ? 1 : (a == 2 || b == 2) ? 2 : 0;
}
'''


def build(ctx):
    kb = KernelBuild(ID, TITLE)
    enums, _ = _common.valuetype_enums()
    trunc, n = k01_truncate.truncate_with_contract(kb, ID)
    f = extract.locate_function("lib/vf_settokenvalue.cpp", r'^\s*void\s+setTokenValue\s*\(\s*Token\s*\*\s*tok\s*,')
    m = extract.mask(f.text)
    s = list(re.finditer(r'auto val = calculate\(parent->str\(\), intValue1\(\), intValue2\(\), &error\)\s*;', m))
    if len(s) != 1:
        raise extract.ExtractError("setTokenValue: integer `calculate` of the binary folding found %d times" % len(s))
    e = re.compile(r'\}\s*\}\s*if \(error\)').search(m, s[0].end())
    if not e:
        raise extract.ExtractError("setTokenValue: end of the folding block not found")
    end = f.text.index("}", e.start()) + 1
    reg = extract.Located("lib/vf_settokenvalue.cpp", f.text[s[0].start():end], f.start + s[0].start(), f.start + end, extract.read("lib/vf_settokenvalue.cpp"))
    kb.add_located("ValueFlow::setTokenValue [integer result of the binary folding]", reg, "region")
    t, k = located_rules(reg, _common.VT_RULES + [
        (r'auto val = calculate\(parent->str\(\), intValue1\(\), intValue2\(\), &error\)\s*;', 'bigint val = calc_result;', 1, 1),
        (r'\bresult\.isFloatValue\(\)', 'res_is_float', 1, 1),
        (r'\bresult\.floatValue = ', '*res_float = ', 1, 1),
        (r'\bresult\.isImpossible\(\)', 'res_impossible', 0, 1),
        (r'\bparent->isComparisonOp\(\)', 'parent_is_comp', 0, 2),
        (r'\bisUnsigned64\(parent->astOperand([12])\(\), settings\)', r'op\1_unsigned64', 0, 2),
        (r'\(bigint\)\(calculate\(parent->str\(\),\s*\(biguint\)\(intValue1\(\)\),\s*\(biguint\)\(intValue2\(\)\),\s*&error\)\)', '(bigint)(calc_result_unsigned)', 0, 1),
        (r'\bastIsUnsigned\(parent\)', '(parent_has_vt && vt_sign == Sign_UNSIGNED)   /* astIsUnsigned */', 0, 1),
        (r'\bparent->valueType\(\)->pointer\b', 'vt_pointer', 0, 1),
        (r'\bparent->valueType\(\)->getSizeOf\(settings,\s*ValueType::Accuracy::ExactOrZero,\s*ValueType::SizeOf::Pointer\)', 'vt_size', 0, 1),
        (r'\bresult\.wideintvalue = ', '*res_wide = ', 0, 1),
        (r'\bresult\.bound != Value::Bound::Point\b', '!res_bound_point', 0, 1),
        (r'\bToken::Match\(parent,\s*"\+\|-\|\*\|<<"\)', 'op_may_wrap', 0, 1),
        (r'\bcontinue\s*;', '{ fold_dropped = 1; return; }', 0, 1),
        (r'\bresult\.intvalue = ', '*res_int = ', 1, 1),
    ], ID); n += k
    if re.search(r'\bparent\b|result\.|settings|std::', extract.mask(t)):
        raise extract.ExtractError("K61: folding block not fully lowered: %r" % re.findall(r'[^\n]*(?:\bparent\b|result\.|settings|std::)[^\n]*', extract.mask(t))[:3])
    kb.rules_fired = n
    text = (_common.BASE + enums + trunc +
            "_Bool res_bound_point, op_may_wrap, fold_dropped;   /* the result's bound is Point; the operator is + - * <<; no value is handed on */\n_Bool op1_unsigned64, op2_unsigned64;   /* an operand has an unsigned 64-bit integer type (isUnsigned64) */\nbiguint calc_result_unsigned;           /* calculate() on the operand values as unsigned 64-bit values */\n"
            "static void fold_block(bigint calc_result, _Bool res_is_float, _Bool res_impossible, _Bool parent_is_comp, _Bool parent_has_vt, enum Sign vt_sign, int vt_pointer, size_t vt_size, bigint *res_int, bigint *res_wide, double *res_float)\n{\n%s\n}\n"
            % extract.strip_comments(t))
    extract.residue_scan(text, ID)
    kb.ctext = text + HARNESS
    kb.job("fold", "h_fold", replace=["truncateIntValue"], replay="wrap", note="loop-free region; every 64-bit result, result type size 0/1/2/4/8, every signedness, pointer / comparison / impossible flags")
    kb.job("cover", "h_cover", kind="cover", replace=["truncateIntValue"])
    kb.assumptions += ["calculate() on unsigned 64-bit operand values (the biguint instantiation of the template) is an input, not verified",
                       "region interface: the result of calculate() (K06) is an input; the parent's ValueType as (has, sign, pointer, size) with ValueType::getSizeOf an oracle; astIsUnsigned is `valueType() && sign == UNSIGNED`",
                       "operands are converted to the common type before (K60); division and remainder of converted operands need no reduction",
                       "impossible point values (x != v) are handed on unreduced; impossible bounds of 64-bit unsigned results are handed on (the recorded finding K44.stmt-unsigned-wrap and TestStl::outOfBounds concern that width)"]

    def rp(inputs, ctx):
        rc, o, cmd = native.compile_run("replay_K61", REPLAY_CPP, [])
        return native.verdict_from_rc(rc, o), o, cmd
    kb.replayers["wrap"] = rp
    return kb
