"""K56  the token filter of valueFlowSymbolicInfer (lib/valueflow.cpp): for which `-` / comparison tokens the relation between the two
operands (x < y, x == y + 1 ...) is turned into values of the expression itself.

infer() reasons about the MATHEMATICAL difference of the operands.  For a comparison that is what C compares (for operands of one
signed type); for the token `x - y` it is the value of the expression only if the subtraction cannot wrap around, i.e. not when the
expression has an unsigned type.  Ghost: a, b are the operand values, d the value of the expression `a - b` in its own type.
Contract (C01): whenever the filter lets a `-` token through, d equals the mathematical difference a - b for all operand values
of its type (the type is at most 32 bits wide here, the difference is computed in 64 bits).
"""
import re

from vlib import extract, native
from vlib.kernel import KernelBuild, located_rules
from . import _common

ID = "K56"
SERVES = ["C01", "C03", "C13"]
TITLE = "valueFlowSymbolicInfer: the relation of two operands becomes a value of `x - y` only where the subtraction cannot wrap around"

PRELUDE = r'''
#include "vstr.h"
static _Bool tok_is_minus_or_comp(const char *s, size_t n) { return vstr_eq(s, n, "-") || vstr_eq(s, n, "<") || vstr_eq(s, n, "<=") || vstr_eq(s, n, ">") || vstr_eq(s, n, ">=") || vstr_eq(s, n, "==") || vstr_eq(s, n, "!="); }
'''

HARNESS = r'''
bigint g_in_a, g_in_b; int g_in_unsigned, g_in_minus;
void h_filter(void) {
    _Bool is_minus = nondet_bool(), is_unsigned = nondet_bool(), known = nondet_bool(), has1 = nondet_bool(), has2 = nondet_bool(), e1 = nondet_bool(), e2 = nondet_bool(), k1 = nondet_bool(), k2 = nondet_bool(), f1 = nondet_bool(), f2 = nondet_bool();
    const char *op = is_minus ? "-" : "<";
    _Bool pass = symbolic_filter(op, 1, is_unsigned, known, has1, has2, e1, e2, k1, k2, f1, f2);
    if (!pass || !is_minus) return;
    /* operands and expression of a 32-bit type: unsigned arithmetic is modulo 2^32, signed arithmetic does not overflow in a UB-free execution */
    bigint a = nondet_bigint(), b = nondet_bigint(); g_in_a = a; g_in_b = b; g_in_unsigned = is_unsigned; g_in_minus = is_minus;
    bigint d;
    if (is_unsigned) { __CPROVER_assume(a >= 0 && a <= 4294967295LL && b >= 0 && b <= 4294967295LL); d = (bigint)(((biguint)a - (biguint)b) & 0xffffffffULL); }
    else { __CPROVER_assume(a >= -2147483648LL && a <= 2147483647LL && b >= -2147483648LL && b <= 2147483647LL && a - b >= -2147483648LL && a - b <= 2147483647LL); d = a - b; }
    __CPROVER_assert(d == a - b, "a `-` token that is given values from the relation of its operands has the mathematical difference as its value");
}
void h_cover(void) {
    __CPROVER_assert(!symbolic_filter("-", 1, 0, 0, 1, 1, 1, 1, 0, 0, 0, 0), "COVER: a signed difference passes the filter");
    __CPROVER_assert(symbolic_filter("-", 1, 1, 0, 1, 1, 1, 1, 0, 0, 0, 0), "COVER: an unsigned difference is filtered out");
    __CPROVER_assert(!symbolic_filter("<", 1, 1, 0, 1, 1, 1, 1, 0, 0, 0, 0), "COVER: a comparison passes the filter");
}
'''

REPLAY_CPP = r'''
#include <cstdio>
int main() { printf("K56: compare `cppcheck --enable=style` on `void f(unsigned x, unsigned y){ if (x < y) { if (x - y > 0) g(); } }` (always true at run time)\n"); return 0; }
'''


def build(ctx):
    kb = KernelBuild(ID, TITLE)
    f = extract.locate_function("lib/valueflow.cpp", r'^static void valueFlowSymbolicInfer\s*\(')
    mk = extract.mask(f.text, keep_strings=True)
    s = list(re.finditer(r'if \(!Token::Match\(tok, "-\|%comp%"\)\)', mk))
    e = list(re.finditer(r'std::vector<ValueFlow::Value> values\s*;', mk))
    if len(s) != 1 or len(e) != 1 or e[0].start() < s[0].end():
        raise extract.ExtractError("valueFlowSymbolicInfer: filter chain not found")
    # after the filter: infer() on the operands' relation, results set on the token itself
    tail = " ".join(extract.strip_comments(f.text[e[0].start():]).split())
    if 'values = infer(leftModel, tok->str(), 0, tok->astOperand2()->values());' not in tail or 'setTokenValue(tok, std::move(value), settings);' not in tail:
        raise extract.ExtractError("valueFlowSymbolicInfer: the inference after the filter changed")
    reg = extract.Located("lib/valueflow.cpp", f.text[s[0].start():e[0].start()], f.start + s[0].start(), f.start + e[0].start(), extract.read("lib/valueflow.cpp"))
    kb.add_located("valueFlowSymbolicInfer [token filter]", reg, "region")
    t, n = located_rules(reg, [
        (r'!Token::Match\(tok, "-\|%comp%"\)', '!tok_is_minus_or_comp(op, op_len)', 1, 1),
        (r'\btok->str\(\)\s*==\s*"-"', 'vstr_eq(op, op_len, "-")', 0, 1),
        (r'\bastIsUnsigned\(tok\)', 'is_unsigned', 0, 1),
        (r'\btok->hasKnownIntValue\(\)', 'known', 1, 1),
        (r'!tok->astOperand([12])\(\)(?!->)', r'!has\1', 2, 2),
        (r'\btok->astOperand([12])\(\)->exprId\(\) == 0', r'!e\1', 2, 2),
        (r'\btok->astOperand([12])\(\)->hasKnownIntValue\(\)', r'k\1', 2, 2),
        (r'\bastIsFloat\(tok->astOperand([12])\(\), false\)', r'f\1', 2, 2),
        (r'\bcontinue\s*;', 'return 0;', 8),
    ], ID)
    if re.search(r'tok->|Token::|astIs', extract.mask(t)):
        raise extract.ExtractError("K56: filter not fully lowered: %r" % re.findall(r'[^\n]*(?:tok->|Token::|astIs)[^\n]*', extract.mask(t))[:3])
    kb.rules_fired = n
    fn = ("static _Bool symbolic_filter(const char *op, size_t op_len, _Bool is_unsigned, _Bool known, _Bool has1, _Bool has2, _Bool e1, _Bool e2, _Bool k1, _Bool k2, _Bool f1, _Bool f2)\n{\n%s\n    return 1;\n}\n" % extract.strip_comments(t))
    text = _common.BASE + PRELUDE + fn
    extract.residue_scan(text, ID)
    kb.ctext = text + HARNESS
    kb.job("filter", "h_filter", unwind=6, replay="note", note="loop-free region; every combination of the filter's oracles, every pair of 32-bit operand values")
    kb.job("cover", "h_cover", kind="cover", unwind=6)
    kb.assumptions += ["astIsUnsigned(tok) is an oracle for the type of the expression; 32-bit operands (wider unsigned types wrap in the same way)",
                       "infer() itself (K43 covers its Interval arithmetic) and the comparison tokens with symbolic offsets (`x == y + 1` for unsigned x, y) are not covered: the latter is still unsound when y + 1 wraps around"]

    def rnote(inputs, ctx):
        rc, o, cmd = native.compile_run("replay_K56", REPLAY_CPP, [], need_core=False)
        return "none", o, cmd
    kb.replayers["note"] = rnote
    return kb
