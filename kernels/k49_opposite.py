"""K49  the comparison part of isOppositeCond (lib/astutils.cpp), on which oppositeInnerCondition / multiCondition rely:

A. the block `if (!isNot && comp2.empty()) { ... }`: two comparisons of the same expression with two constants
   (`x < 5` against `x > 7`, constant on either side);
B. the final operator table for two comparisons of the same two operands.
isSameExpression is an oracle; when it answers "same", both comparisons talk about the same value x (ghost) - and in B about
the same pair (x, y).  Contract (C03): a `true` answer with isNot == false means the two conditions cannot both hold for any
x (y); with isNot == true it means cond1 is exactly the negation of cond2.
"""
import re

from vlib import extract, native
from vlib.kernel import KernelBuild, located_rules
from . import _common

ID = "K49"
SERVES = ["C03", "C13"]
TITLE = "isOppositeCond: comparisons reported as opposite cannot both hold (are each other's negation) for any operand values"

PRELUDE = r'''
#include "vstr.h"
static _Bool op_is(const char *op, const char *lit) { size_t n = 0; while (n < 3 && op[n] != 0) n++; return vstr_eq(op, n, lit); }
/* operand ids of the two conditions: 11 / 12 = left / right operand of cond1, 21 / 22 of cond2 */
'''

HARNESS = r'''
bigint g_in_l1, g_in_r1, g_in_l2, g_in_r2; int g_in_op1, g_in_op2, g_in_k1l, g_in_k1r, g_in_k2l, g_in_k2r, g_in_isnot, g_in_same, g_in_swapped;
static const char *opname(int k) { return k == 0 ? "==" : k == 1 ? "!=" : k == 2 ? "<" : k == 3 ? "<=" : k == 4 ? ">" : ">="; }
static _Bool rel(int op, bigint a, bigint b) { return op == 0 ? a == b : op == 1 ? a != b : op == 2 ? a < b : op == 3 ? a <= b : op == 4 ? a > b : a >= b; }
static bigint g_val[4]; static _Bool g_known[4]; static int g_same_a, g_same_b; static _Bool g_same;
/* oracles of the region */
static _Bool KNOWN(int id) { return g_known[id == 11 ? 0 : id == 12 ? 1 : id == 21 ? 2 : 3]; }
static bigint VAL(int id) { __CPROVER_assert(id == 11 || id == 12 || id == 21 || id == 22, "values().front() of an operand"); __CPROVER_assert(KNOWN(id), "the first value of a token with a known value is that value"); return g_val[id == 11 ? 0 : id == 12 ? 1 : id == 21 ? 2 : 3]; }
static _Bool same_expr(int a, int b) { g_same_a = a; g_same_b = b; return g_same; }
void h_const(void) {
    int op1 = nondet_int(), op2 = nondet_int(); __CPROVER_assume(op1 >= 0 && op1 <= 5 && op2 >= 0 && op2 <= 5);
    for (int i = 0; i < 4; i++) { g_val[i] = nondet_bigint(); g_known[i] = nondet_bool(); }
    g_same = nondet_bool(); g_same_a = 0; g_same_b = 0;
    g_in_op1 = op1; g_in_op2 = op2; g_in_l1 = g_val[0]; g_in_r1 = g_val[1]; g_in_l2 = g_val[2]; g_in_r2 = g_val[3]; g_in_k1l = g_known[0]; g_in_k1r = g_known[1]; g_in_k2l = g_known[2]; g_in_k2r = g_known[3]; g_in_same = g_same;
    _Bool r = opposite_const_block(opname(op1), opname(op2));
    if (!r) return;
    /* the two operands the checker took as "the expression" are the same expression: they have the same value in an execution */
    __CPROVER_assert(g_same && (g_same_a == 11 || g_same_a == 12) && (g_same_b == 21 || g_same_b == 22), "opposite only when the two non-constant operands are the same expression");
    bigint x = g_val[g_same_a == 11 ? 0 : 1];
    __CPROVER_assume(g_val[g_same_b == 21 ? 2 : 3] == x);
    _Bool c1 = rel(op1, g_val[0], g_val[1]), c2 = rel(op2, g_val[2], g_val[3]);
    __CPROVER_assert(!(c1 && c2), "two comparisons of one expression with constants that are reported as opposite cannot both hold");
}
void h_table(void) {
    int op1 = nondet_int(), op2 = nondet_int(); __CPROVER_assume(op1 >= 0 && op1 <= 5 && op2 >= 0 && op2 <= 5);
    _Bool isNot = nondet_bool(), swapped = nondet_bool();
    bigint x = nondet_bigint(), y = nondet_bigint();
    g_in_op1 = op1; g_in_op2 = op2; g_in_l1 = x; g_in_r1 = y; g_in_isnot = isNot; g_in_swapped = swapped;
    /* comp2 as the code prepares it: the operator of cond2, mirrored when cond2 has the operands the other way round */
    int m2 = swapped ? (op2 == 2 ? 4 : op2 == 3 ? 5 : op2 == 4 ? 2 : op2 == 5 ? 3 : op2) : op2;
    _Bool r = opposite_table(isNot, opname(op1), opname(m2));
    if (!r) return;
    _Bool c1 = rel(op1, x, y), c2 = swapped ? rel(op2, y, x) : rel(op2, x, y);
    if (isNot) __CPROVER_assert(c1 == !c2, "isNot: a condition reported as the opposite is exactly the negation of the other, for all operand values");
    else __CPROVER_assert(!(c1 && c2), "conditions reported as opposite cannot both hold, for all operand values");
}
void h_cover(void) {
    for (int i = 0; i < 4; i++) { g_val[i] = 0; g_known[i] = 0; }
    g_known[1] = 1; g_val[1] = 5; g_known[3] = 1; g_val[3] = 7; g_same = 1;
    __CPROVER_assert(!opposite_const_block("<", ">"), "COVER: x < 5 against x > 7 is opposite");
    __CPROVER_assert(!opposite_table(1, "<", ">="), "COVER: x < y against x >= y is the exact opposite");
}
'''

REPLAY_CPP = r'''
#include <cstdio>
int main() { printf("K49: the counterexample gives the two operators (0..5 for == != < <= > >=), which operands are constants and the operand values; compare `cppcheck --enable=warning` (oppositeInnerCondition) on `if (x OP1 V1) { if (x OP2 V2) {} }`\n"); return 0; }
'''


def build(ctx):
    kb = KernelBuild(ID, TITLE)
    src = "lib/astutils.cpp"
    f = extract.locate_function(src, r'^bool isOppositeCond\s*\(')
    mk = extract.mask(f.text, keep_strings=True)
    m = extract.mask(f.text)
    n = 0
    OPS = [
        (r'\b(op[12]|comp[12])\s*==\s*("(?:[^"\\]|\\.)*")', r'op_is(\1, \2)', 0),
        (r'\b(op[12]|comp[12])\s*!=\s*("(?:[^"\\]|\\.)*")', r'!op_is(\1, \2)', 0),
    ]
    # ---- A
    s = list(re.finditer(r'if \(!isNot && comp2\.empty\(\)\)\s*\{', mk))
    if len(s) != 1:
        raise extract.ExtractError("isOppositeCond: block `if (!isNot && comp2.empty())` not found")
    ob = s[0].end() - 1
    cb = extract.match_brace(f.text, ob, m)
    rega = extract.Located(src, f.text[ob + 1:cb], f.start + ob + 1, f.start + cb, extract.read(src))
    kb.add_located("isOppositeCond [two comparisons of one expression with constants]", rega, "region")
    ta, k = located_rules(rega, [
        (r'const Token \*expr1 = NULL, \*value1 = NULL, \*expr2 = NULL, \*value2 = NULL\s*;', 'int expr1 = 0, value1 = 0, expr2 = 0, value2 = 0;', 1, 1),
        (r'std::string op1 = cond1->str\(\), op2 = cond2->str\(\)\s*;',
         'char op1[4], op2[4]; for (int i_ = 0; i_ < 4; i_++) { op1[i_] = 0; op2[i_] = 0; } for (int i_ = 0; i_ < 3 && cop1[i_]; i_++) op1[i_] = cop1[i_]; for (int i_ = 0; i_ < 3 && cop2[i_]; i_++) op2[i_] = cop2[i_];', 1, 1),
        (r'\bcond([12])->astOperand([12])\(\)->hasKnownIntValue\(\)', r'KNOWN(\1\2)', 4, 4),
        (r'\b(expr|value)([12]) = cond([12])->astOperand([12])\(\)\s*;', r'\1\2 = \3\4;', 8, 8),
        (r'!isSameExpression\(true, expr1, expr2, settings, pure, followVar, errors\)', '!same_expr(expr1, expr2)', 1, 1),
        (r'const ValueFlow::Value &rhsValue([12]) = value([12])->values\(\)\.front\(\)\s*;', r'const bigint rhsValue\1 = VAL(value\2);', 2, 2),
        (r'\brhsValue([12])\.intvalue\b', r'rhsValue\1', 4, 4),
    ] + OPS, ID + ".const"); n += k
    if re.search(r'cond[12]->|std::|ValueFlow|settings', extract.mask(ta)):
        raise extract.ExtractError("K49 A: not fully lowered: %r" % re.findall(r'[^\n]*(?:cond[12]->|std::|ValueFlow|settings)[^\n]*', extract.mask(ta))[:3])
    fa = "static _Bool opposite_const_block(const char *cop1, const char *cop2)\n{\n%s\n}\n" % extract.strip_comments(ta)
    # ---- B: the final return
    tail = f.text[cb + 1:]
    tm = extract.mask(tail)
    rs = list(re.finditer(r'return\s*\(\(comp1 ==', extract.mask(tail, keep_strings=True)))
    if len(rs) != 1:
        raise extract.ExtractError("isOppositeCond: final operator table not found")
    re_end = tm.index(';', rs[0].start())
    regb = extract.Located(src, tail[rs[0].start():re_end + 1], f.start + cb + 1 + rs[0].start(), f.start + cb + 1 + re_end + 1, extract.read(src))
    kb.add_located("isOppositeCond [operator table for the same two operands]", regb, "region")
    tb, k = located_rules(regb, OPS, ID + ".table"); n += k
    if re.search(r'std::|cond[12]', extract.mask(tb)):
        raise extract.ExtractError("K49 B: not fully lowered")
    # how comp1 / comp2 reach the table: pinned by text
    mid = " ".join(extract.strip_comments(f.text[:s[0].start()]).split())
    for piece in ('const std::string &comp1 = cond1->str();', "comp2 = cond2->str(); if (comp2[0] == '>') comp2[0] = '<'; else if (comp2[0] == '<') comp2[0] = '>';"):
        if piece.replace(" ", "") not in mid.replace(" ", ""):
            raise extract.ExtractError("isOppositeCond: preparation of comp1/comp2 changed: %r" % piece)
    fb = "static _Bool opposite_table(_Bool isNot, const char *comp1, const char *comp2)\n{\n    %s\n}\n" % extract.strip_comments(tb).strip()
    kb.rules_fired = n
    text = _common.BASE + PRELUDE + "static _Bool KNOWN(int id); static bigint VAL(int id); static _Bool same_expr(int a, int b);\n" + fa + fb
    extract.residue_scan(text, ID)
    kb.ctext = text + HARNESS
    kb.job("const", "h_const", unwind=8, replay="note", note="all operator pairs, constants on either side, all 64-bit values")
    kb.job("table", "h_table", unwind=8, replay="note", note="all operator pairs, isNot, cond2 with the operands either way round, all operand values")
    kb.job("cover", "h_cover", kind="cover", unwind=8)
    kb.assumptions += ["isSameExpression is an oracle: when it answers true the two operands have the same value in every execution (pure expressions)",
                       "values().front() of a token with a known value is that value (value-list invariant, not verified)",
                       "the container / smart pointer / bool parts of isOppositeCond before the comparison part are not covered; comparisons are on 64-bit integers (the operands' real types are not modelled)"]

    def rnote(inputs, ctx):
        rc, o, cmd = native.compile_run("replay_K49", REPLAY_CPP, [], need_core=False)
        return "none", o, cmd
    kb.replayers["note"] = rnote
    return kb
