"""K24/K25  Token pattern matching: the interpreter (lib/token.cpp Token::Match and its helpers) against the
specialised matchers that tools/matchcompiler.py generates at build time.

K24 (unbounded, loop contracts): Token::chrInFirstWord and Token::firstWordEquals - result and memory safety on
NUL-terminated strings of any length.
K25 (bounded, per pattern WORD): the real tools/matchcompiler.py::_compilePattern is run on the one-word pattern W
(and on `W @@` with a sentinel, which exposes how W advances the token pointer); its C++ output is lowered with the
accessor rules and proved equal to the extracted Token::Match(tok, "W"[ @@], varid) for every token list of length
0..2 whose tokens satisfy the token invariant.  Token strings are symbolic with length 1..L+1 (L = longest
alternative of W); type, flags and varId are symbolic.
Words: every distinct word of every Token::Match/simpleMatch/findmatch pattern literal in lib/*.cpp, plus the
documented %cmd% words.  quick: all %cmd% words, all [..] sets, all !! words and a seeded sample; thorough: all.
"""
import glob
import os
import re
import subprocess
import sys

from vlib import extract, native
from vlib.kernel import KernelBuild, located_rules, HERE
from . import _common

ID = "K24"
SERVES = ["C33", "C13"]
TITLE = "Token::Match interpreter vs match compiler output, word by word"

ACCESSORS = [  # name, return type in C
    ("isName", "_Bool"), ("isNumber", "_Bool"), ("isOp", "_Bool"), ("isConstOp", "_Bool"), ("isArithmeticalOp", "_Bool"), ("isComparisonOp", "_Bool"),
    ("isAssignmentOp", "_Bool"), ("isBoolean", "_Bool"), ("isLiteral", "_Bool"), ("isKeyword", "_Bool"), ("isExtendedOp", "_Bool"), ("isIncDecOp", "_Bool"),
]
NAME_TYPES = ["eName", "eType", "eVariable", "eFunction", "eKeyword", "eBoolean", "eEnumerator"]

CMD_WORDS = ["%any%", "%assign%", "%bool%", "%char%", "%comp%", "%num%", "%cop%", "%op%", "%or%", "%oror%", "%str%", "%type%", "%name%", "%var%", "%varid%"]

LEAF_CONTRACTS = {
    "firstWordEquals": (r'''
#ifndef NOCONTRACT
__CPROVER_requires(g_n <= 100000 && __CPROVER_is_fresh(s, g_n + 1) && s[g_n] == 0)
__CPROVER_requires(g_m <= 100000 && __CPROVER_is_fresh(word, g_m + 1) && word[g_m] == 0)
__CPROVER_assigns()
__CPROVER_ensures((__CPROVER_old(s)[0] != __CPROVER_old(word)[0] && !(__CPROVER_old(s)[0] == ' ' && __CPROVER_old(word)[0] == 0)) ==> !__CPROVER_return_value)
__CPROVER_ensures((__CPROVER_old(s)[0] == 0 && __CPROVER_old(word)[0] == 0) ==> __CPROVER_return_value)
#endif
''', r'''
#ifndef NOCONTRACT
__CPROVER_assigns(s, word)
__CPROVER_loop_invariant(__CPROVER_same_object(s, __CPROVER_loop_entry(s)) && __CPROVER_same_object(word, __CPROVER_loop_entry(word)))
__CPROVER_loop_invariant((size_t)__CPROVER_POINTER_OFFSET(s) <= g_n && (size_t)__CPROVER_POINTER_OFFSET(word) <= g_m && __CPROVER_POINTER_OFFSET(s) == __CPROVER_POINTER_OFFSET(word))
__CPROVER_decreases(g_n - (size_t)__CPROVER_POINTER_OFFSET(s))
#endif
'''),
    "chrInFirstWord": (r'''
#ifndef NOCONTRACT
__CPROVER_requires(g_n <= 100000 && __CPROVER_is_fresh(s, g_n + 1) && s[g_n] == 0)
__CPROVER_assigns()
__CPROVER_ensures(__CPROVER_return_value == NULL || (__CPROVER_same_object(__CPROVER_return_value, __CPROVER_old(s)) && (size_t)__CPROVER_POINTER_OFFSET(__CPROVER_return_value) <= g_n && *__CPROVER_return_value == c && c != ' ' && c != 0))
__CPROVER_ensures((__CPROVER_old(s)[0] == c && c != ' ' && c != 0) ==> __CPROVER_return_value == __CPROVER_old(s))
#endif
''', r'''
#ifndef NOCONTRACT
__CPROVER_assigns(s)
__CPROVER_loop_invariant(__CPROVER_same_object(s, __CPROVER_loop_entry(s)) && (size_t)__CPROVER_POINTER_OFFSET(s) <= g_n)
__CPROVER_decreases(g_n - (size_t)__CPROVER_POINTER_OFFSET(s))
#endif
'''),
}

PRELUDE = r'''
#include "vstr.h"
size_t g_n, g_m;
struct Token { const char *mStr; size_t mStrLen; const struct Token *mNext; int mVarId; enum TokType mTokType; uint64_t mFlags; const struct Token *mPrevious; bigint mNum; /* mPrevious, mNum: used by K33 only */ };
static inline _Bool Token_streq(const struct Token *t, const char *lit) { return vstr_eq(t->mStr, t->mStrLen, lit); }
static inline const struct Token *Token_next(const struct Token *t) { return t->mNext; }
static inline int Token_varId(const struct Token *t) { return t->mVarId; }
static inline enum TokType Token_tokType(const struct Token *t) { return t->mTokType; }
static inline _Bool Token_getFlag(const struct Token *t, uint64_t f) { return (t->mFlags & f) != 0; }
'''


def accessor_rules():
    return [
        (r'\bgetFlag\(', 'Token_getFlag(self, ', 0),
        (r'\bmImpl->mVarId\b', 'self->mVarId', 0),
        (r'\b(is[A-Z]\w*)\(\)', r'Token_\1(self)', 0),
        (r'\bmTokType\b', 'self->mTokType', 0),
        (r'\bmFlags\b', 'self->mFlags', 0),
        (r'(?<![\w>])(e[A-Z]\w*)\b', r'Token_\1', 0),
    ]


def lower_token_exprs():
    """rules shared by the interpreter and the compiled matchers: accessor calls on a Token pointer"""
    return [
        # std::string == MatchCompiler::ConstString<n>: the real operator== / equalN<n> of lib/matchcompiler.h (extracted below), n = sizeof(literal)
        (r'(\w+)->str\(\)\s*==\s*MatchCompiler::makeConstString\(("(?:[^"\\]|\\.)*")\)', r'MC_eq(\1->mStr, \2, sizeof(\2))', 0),
        (r'(\w+)->str\(\)\s*==\s*("(?:[^"\\]|\\.)*")', r'Token_streq(\1, \2)', 0),
        (r'(\w+)->str\(\)\.(?:size|length)\(\)', r'\1->mStrLen', 0),
        (r'(\w+)->str\(\)\.c_str\(\)', r'\1->mStr', 0),
        (r'(\w+)->str\(\)\[0\]', r'\1->mStr[0]', 0),
        (r'(\w+)->(is[A-Z]\w*|tokType|varId|next)\(\)', r'Token_\2(\1)', 0),
        (r'\bToken::(e[A-Z]\w*)\b', r'Token_\1', 0),
    ]


def matchcompiler_h(kb):
    """operator==(const std::string&, ConstString<n>) and equalN<n> of lib/matchcompiler.h, the comparison every compiled
    matcher uses for literal words; the template parameter n becomes a run-time argument."""
    src = extract.strip_comments(extract.read("lib/matchcompiler.h"))
    g = re.search(r'template<unsigned int n>\s*inline bool equalN\(const char s1\[\], const char s2\[\]\)\s*\{(.*?)\n    \}', src, re.S)
    b = re.search(r'template<>\s*inline bool equalN<0>\(const char\s*\[\], const char\s*\[\]\)\s*\{(.*?)\n    \}', src, re.S)
    o = re.search(r'template<unsigned int n>\s*inline bool operator==\(const std::string\s*&\s*s1, ConstString<n> const\s*&\s*s2\)\s*\{(.*?)\n    \}', src, re.S)
    if not (g and b and o):
        raise extract.ExtractError("lib/matchcompiler.h: equalN<n> / equalN<0> / operator== not found in the expected shape")
    rules = [(r'\bequalN<n-1>\(', 'equalN(n - 1, ', 0), (r'\bequalN<n>\(', 'equalN(n, ', 0), (r'\bs1\.c_str\(\)', 's1', 0), (r'\bstd::(strncmp|strcmp|memcmp)\b', r'\1', 0)]
    gen, _ = extract.apply_rules(g.group(1), rules, "matchcompiler.h equalN<n>")
    base, _ = extract.apply_rules(b.group(1), rules, "matchcompiler.h equalN<0>")
    op, _ = extract.apply_rules(o.group(1), rules, "matchcompiler.h operator==")
    text = ("static _Bool equalN(unsigned n, const char *s1, const char *s2) { if (n == 0) { %s } %s }\n"
            "static _Bool MC_eq(const char *s1, const char *s2, unsigned n) { %s }\n" % (base.strip(), gen.strip(), op.strip()))
    extract.residue_scan(text, "matchcompiler.h")
    kb.functions.append({"name": "MatchCompiler::operator==(std::string, ConstString<n>) / equalN<n>", "where": "lib/matchcompiler.h", "sha": "", "kind": "function"})
    return text


LAST_WORDS = set()     # last word of every pattern literal (filled by source_words)


def optional_word(w):
    """the word has an empty alternative (`const|`) and no pattern literal of the sources ends in such a word"""
    def has_empty_alternative(x):
        # `a|b|` - a trailing separator; the operators | || |= ||= are words of their own, not separators
        return len(x) > 1 and x.endswith("|") and not x.endswith("||") and not x.startswith("[") and not x.startswith("!!")
    if not has_empty_alternative(w):
        return False
    return not any(has_empty_alternative(x) for x in LAST_WORDS)


def source_words():
    """distinct pattern words of all Token::Match-family pattern literals in lib/*.cpp"""
    words = set()
    rx = re.compile(r'Token::(?:Match|simpleMatch|findmatch|findsimplematch)\s*\(')
    for f in sorted(glob.glob(os.path.join(extract.REPO, "lib", "*.cpp"))):
        txt = extract.strip_comments(open(f, encoding="utf-8", errors="replace").read())
        for mo in rx.finditer(txt):
            # first string literal argument after the first comma at depth 1
            i, depth = mo.end(), 1
            seen_comma = False
            while i < len(txt) and depth > 0:
                c = txt[i]
                if c == '"':
                    j = i + 1
                    while j < len(txt) and txt[j] != '"':
                        j += 2 if txt[j] == '\\' else 1
                    if seen_comma and depth == 1:
                        lit = txt[i + 1:j]
                        if '\\' not in lit:
                            for w in lit.split(' '):
                                if w:
                                    words.add(w)
                            # a literal that is the whole pattern argument (not a piece of a run-time concatenation such as "struct| " + name)
                            if lit.split() and txt[j + 1:j + 40].lstrip()[:1] in (",", ")") and txt[:i].rstrip()[-1:] == ",":
                                LAST_WORDS.add(lit.split()[-1])
                        break
                    i = j + 1
                    continue
                if c == '(':
                    depth += 1
                elif c == ')':
                    depth -= 1
                elif c == ',' and depth == 1:
                    seen_comma = True
                i += 1
    return sorted(words)


def compile_word(pattern, nr, has_varid):
    """run the real tools/matchcompiler.py on one pattern; returns the C++ text of matchN"""
    code = ("import sys; sys.path.insert(0, %r); import matchcompiler; mc = matchcompiler.MatchCompiler(); "
            "sys.stdout.write(mc._compilePattern(%r, %d, %r))" % (os.path.join(extract.REPO, "tools"), pattern, nr, "varid" if has_varid else None))
    p = subprocess.run([sys.executable, "-c", code], stdout=subprocess.PIPE, stderr=subprocess.PIPE, timeout=60)
    if p.returncode != 0:
        raise extract.ExtractError("tools/matchcompiler.py failed on %r: %s" % (pattern, p.stderr.decode()[-400:]))
    return p.stdout.decode()


def lower_compiled(cpp, nr):
    rules = [
        (r'//[^\n]*\n', '\n', 0),
        (r'MAYBE_UNUSED static inline bool match%d\(const Token\* tok(?:, const int varid)?\)\s*\{' % nr, 'static _Bool match%d(const struct Token *tok, const int varid) {' % nr, 1, 1),
        (r'throw InternalError\([^;]*\);', '{ VERIF_THROW(); return 0; }', 0),
        (r'\bvarid==0U\b', 'varid==0', 0),
    ] + lower_token_exprs() + [(r'(?<!")\bnullptr\b(?!")', 'NULL', 0)]     # the keyword, not the pattern word "nullptr" inside a literal
    t, fired = extract.apply_rules(cpp, rules, "matchcompiler output %d" % nr)
    extract.residue_scan(t, "compiled match%d" % nr)
    return t


def word_len(w):
    core = w[2:] if w.startswith("!!") else w
    if core.startswith("[") and core.endswith("]") and len(core) > 2:
        return 1
    return max([len(a) for a in core.split("|") if not a.startswith("%")] + [2])


HARNESS_TOKENS = r'''
#define SMAXALL 8
int g_in_shape, g_in_varid, g_in_type0, g_in_varid0, g_in_type1, g_in_varid1; char g_in_str0[SMAXALL + 1], g_in_str1[SMAXALL + 1];
/* buf has SMAXALL + 1 bytes; the token string has 1..slen characters */
static void mk_token(struct Token *t, char *buf, size_t slen) {
    for (int i = 0; i <= SMAXALL; i++) buf[i] = nondet_char();
    size_t n = nondet_size_t(); __CPROVER_assume(n >= 1 && n <= slen && slen <= SMAXALL);
    for (int i = 0; i < SMAXALL; i++) if ((size_t)i < n) __CPROVER_assume(buf[i] != 0 && buf[i] != ' ');
    buf[n] = 0;
    t->mStr = buf; t->mStrLen = n; t->mNext = NULL; t->mVarId = nondet_int(); t->mTokType = (enum TokType)nondet_int(); t->mFlags = nondet_biguint();
    __CPROVER_assume(t->mVarId >= 0 && t->mTokType >= 0 && t->mTokType <= Token_eNone);
    /* token invariant maintained by Token::tokType(t) / update_property_info(): */
    __CPROVER_assume(Token_getFlag(t, fIsName) == (NAME_TYPE(t->mTokType)));
    __CPROVER_assume(t->mVarId == 0 || NAME_TYPE(t->mTokType));
    TOKTYPE_INVARIANT(t);
}
/* same for a token whose spelling is already in place */
static void mk_fields(struct Token *t) {
    t->mVarId = nondet_int(); t->mTokType = (enum TokType)nondet_int(); t->mFlags = nondet_biguint();
    __CPROVER_assume(t->mVarId >= 0 && t->mTokType >= 0 && t->mTokType <= Token_eNone);
    __CPROVER_assume(Token_getFlag(t, fIsName) == (NAME_TYPE(t->mTokType)));
    __CPROVER_assume(t->mVarId == 0 || NAME_TYPE(t->mTokType));
    TOKTYPE_INVARIANT(t);
}
'''


def interpreter(kb, what=ID):
    """C text of the Token model, the accessors of token.h and the extracted Token::Match interpreter (shared with K33)"""
    n = 0
    tt, tt_names = extract.enum_list("lib/token.h", r'enum\s+Type\s*:\s*std::uint8_t\s*\{\s*eVariable', "Token_")
    flags = extract.strip_comments(extract.read("lib/token.h"))
    fl = {}
    for nm in ("fIsName", "fIsLiteral", "fIsStandardType"):
        mo = re.search(r'\b%s\s*=\s*\(\s*1ULL\s*<<\s*(\d+)\s*\)' % nm, flags)
        if not mo:
            raise extract.ExtractError("token.h: flag %s not found" % nm)
        fl[nm] = int(mo.group(1))
    out = [_common.BASE, "enum TokType %s;\n" % tt, "".join("#define %s (1ULL << %d)\n" % (k, v) for k, v in fl.items()), PRELUDE + matchcompiler_h(kb)]
    # accessors from token.h
    for name, cty in ACCESSORS:
        loc = extract.locate_function("lib/token.h", r'^\s*bool\s+%s\s*\(\s*\)\s*const' % name)
        kb.add_located("Token::" + name, loc)
        sig, rawbody = extract.body_of(loc.text)
        body, fired = extract.apply_rules(rawbody, extract.GENERIC + accessor_rules(), ID + "." + name); n += sum(c for _, c in fired)
        out.append("static %s %s\n" % (_common.add_self(sig, "const struct Token *self", "Token_" + name), body))
    # forward declarations are not needed: emit in dependency order (isOp uses isConstOp/isAssignmentOp; isConstOp uses isArithmeticalOp)
    order = ["isName", "isNumber", "isArithmeticalOp", "isComparisonOp", "isAssignmentOp", "isBoolean", "isLiteral", "isKeyword", "isIncDecOp", "isConstOp", "isExtendedOp", "isOp"]
    acc = out[4:]
    byname = dict((nm, acc[i]) for i, (nm, _) in enumerate(ACCESSORS))
    out = out[:4] + [byname[nm] for nm in order]
    # name-type predicate from the tokType(t) setter
    ls = extract.locate_function("lib/token.h", r'^\s*void\s+tokType\s*\(\s*Token::Type\s+t\s*\)')
    kb.add_located("Token::tokType(Type) [memoised isName]", ls)
    mo = re.search(r'const bool memoizedIsName\s*=\s*\(([^;]*?)\)\s*;', extract.strip_comments(ls.text), re.S)
    if not mo:
        raise extract.ExtractError("Token::tokType(t): memoizedIsName not found")
    pred = re.sub(r'\bmTokType\b', '(tt)', mo.group(1))
    pred = re.sub(r'(?<![\w>])(e[A-Z]\w*)\b', r'Token_\1', pred)
    out.append("#define NAME_TYPE(tt) (%s)\n" % " ".join(pred.split()))
    # interpreter leaves
    for name in ("firstWordEquals", "chrInFirstWord"):
        rty = "bool" if name == "firstWordEquals" else r"const char \*"
        loc = extract.locate_function("lib/token.cpp", r'^%s\s*Token::%s\s*\(' % (rty, name))
        kb.add_located("Token::" + name, loc)
        # `for (;;)` -> `while (1)`: CBMC 6.11 silently drops a loop contract attached to a for-loop without a condition
        t, k = located_rules(loc, [(r'\bToken::%s\b' % name, name, 1, 1), (r'\bfor\s*\(\s*;\s*;\s*\)', 'while (1)', 1, 1)], ID + "." + name); n += k
        sig, body = extract.body_of(t)
        con, lp = LEAF_CONTRACTS[name]
        body = extract.insert_loop_contracts(body, [lp], ID + "." + name)
        out.append("%s\n%s%s\n" % (sig, con, body))
    # multiComparePercent, multiCompareImpl, Match
    lp = extract.locate_function("lib/token.cpp", r'^int multiComparePercent\s*\(')
    kb.add_located("multiComparePercent", lp)
    t, k = located_rules(lp, lower_token_exprs() + [
        (r'^int multiComparePercent\s*\(\s*const Token \*tok\s*,\s*const char\s*\*\s*&\s*haystack\s*,\s*int varid\s*\)', 'static int multiComparePercent(const struct Token *tok, const char **haystack_p, int varid)', 1, 1),
        (r'throw InternalError\([^;]*\);', '{ VERIF_THROW(); return -1; }', 2, 2),
    ], ID + ".multiComparePercent"); n += k
    sig, body = extract.body_of(t)
    out.append("%s\n#define haystack (*haystack_p)\n%s\n#undef haystack\n" % (sig, body))
    li = extract.locate_function("lib/token.cpp", r'^int multiCompareImpl\s*\(')
    kb.add_located("multiCompareImpl", li)
    t, k = located_rules(li, lower_token_exprs() + [
        (r'^int multiCompareImpl\s*\(\s*const Token \*tok', 'static int multiCompareImpl(const struct Token *tok', 1, 1),
        (r'\bmultiComparePercent\(tok,\s*haystack,\s*varid\)', 'multiComparePercent(tok, &haystack, varid)', 1, 1),
    ], ID + ".multiCompareImpl"); n += k
    out.append(t + "\n")
    lm = extract.locate_function("lib/token.cpp", r'^bool Token::Match\s*\(')
    kb.add_located("Token::Match", lm)
    t, k = located_rules(lm, lower_token_exprs() + [
        (r'^bool Token::Match\s*\(\s*const Token \*tok\s*,\s*const char pattern\[\]\s*,\s*int varid\s*\)', 'static _Bool Token_Match(const struct Token *tok, const char pattern[], int varid)', 1, 1),
    ], ID + ".Match"); n += k
    out.append(t + "\n")
    kb.rules_fired = n
    base_text = "".join(out)
    extract.residue_scan(base_text, what)
    return base_text


def build(ctx):
    kb = KernelBuild(ID, TITLE)
    base_text = interpreter(kb)

    # ---- words
    src_words = source_words()
    if len(src_words) < 300:
        raise extract.ExtractError("only %d pattern words found in lib/*.cpp" % len(src_words))
    allw = sorted(set(src_words) | set(CMD_WORDS))
    # words the match compiler itself refuses / special forms are left to the interpreter
    usable = [w for w in allw if '"' not in w and '\\' not in w and "'" not in w and len(w) <= 24]
    special = [w for w in usable if w.startswith("%") or w.startswith("[") or w.startswith("!!") or "%" in w]
    plain = [w for w in usable if w not in special]
    rng = ctx.rng
    brackets = [w for w in special if w.startswith("[")]
    negs = [w for w in special if w.startswith("!!")]
    pct = [w for w in special if w not in brackets and w not in negs and w not in CMD_WORDS]
    # every %cmd% word, every !! word, and seeded samples of the bracket sets, the alternatives with %cmd% and the plain words
    # (words longer than 16 characters - many alternatives - need more than the per-job memory/time budget; their literal alternatives are
    # covered by the probes below).  The thorough tier takes five times the quick sample (all 1100 words took about 3 hours on 16 cores
    # and a fifth of them ran out of the per-job budget on a loaded machine).
    short = lambda ws: [w for w in ws if len(w) <= 16]
    mult = 5 if ctx.tier == "thorough" else 1
    chosen = list(CMD_WORDS) + sorted(negs) + sorted(rng.sample(short(brackets), min(6 * mult, len(short(brackets))))) + \
        sorted(rng.sample(short(pct), min(8 * mult, len(short(pct))))) + sorted(rng.sample(short(plain), min(6 * mult, len(short(plain)))))
    # match compiler's token-type table: spelling => one of the listed types (token invariant assumed for these spellings)
    sys.path.insert(0, os.path.join(extract.REPO, "tools"))
    try:
        import importlib
        mcmod = importlib.import_module("matchcompiler")
        importlib.reload(mcmod)
        toktypes = dict(mcmod.tokTypes)
    finally:
        sys.path.pop(0)
    inv = []
    for sp, tys in sorted(toktypes.items()):
        if '"' in sp or '\\' in sp:
            continue
        inv.append("__CPROVER_assume(!Token_streq(t, \"%s\") || %s);" % (sp, " || ".join("(t)->mTokType == Token_%s" % ty for ty in tys)))
    pieces = [base_text, "#define TOKTYPE_INVARIANT(t) do { %s } while (0)\n" % " ".join(inv), HARNESS_TOKENS]
    groups = []
    GS = 1     # one word (two patterns) per verifier run: larger groups ran out of memory / time
    nr = 0
    for gi in range(0, len(chosen), GS):
        grp = chosen[gi:gi + GS]
        hname = "h_words_%d" % (gi // GS)
        body = []
        maxlen = 2
        for w in grp:
            for variant in ("one", "adv"):
                pat = w if variant == "one" else (w + " @@")
                nr += 1
                has_varid = "%varid%" in w
                cpp = compile_word(pat, nr, has_varid)
                pieces.append(lower_compiled(cpp, nr))
                maxlen = max(maxlen, word_len(w) + 1)
                # A word with an empty alternative ("const|") is optional.  No pattern literal of lib/*.cpp ENDS in an optional word (checked
                # below), so "the pattern is exhausted by optional words at the end of the token list" never decides a match in the
                # sources; there the interpreter answers false and the compiled matcher true (recorded in DESIGN.md 10.5).  The one-word
                # form of such a word is therefore compared on existing tokens only; the `W @@` form is compared on every shape.
                guard = "shape == 0 || " if (variant == "one" and optional_word(w)) else ""
                body.append('    { verif_thrown = 0; _Bool a = Token_Match(tok, "%s", varid); _Bool b = match%d(tok, varid); '
                            '__CPROVER_assert(!verif_thrown, "pattern %s: no exception for a non-zero varid"); '
                            '__CPROVER_assert(%sa == b, "pattern \\"%s\\": compiled matcher == Token::Match"); }' % (pat, nr, pat, guard, pat))
        pieces.append("#if defined(%s)\n#define SLEN_%s %d\nvoid %s(void) {\n"
                      "    struct Token t0, t1, t2; char b0[SMAXALL + 1], b1[SMAXALL + 1]; static char sb[3] = \"@@\";\n"
                      "    mk_token(&t0, b0, SLEN_%s); mk_token(&t1, b1, 2); t2.mStr = sb; t2.mStrLen = 2; t2.mNext = NULL; t2.mVarId = 0; t2.mTokType = Token_eOther; t2.mFlags = 0;\n"
                      "    int shape = nondet_int(); __CPROVER_assume(shape >= 0 && shape <= 4);\n"
                      "    const struct Token *tok = NULL;\n"
                      "    if (shape == 1) { tok = &t0; } else if (shape == 2) { tok = &t0; t0.mNext = &t2; } else if (shape == 3) { tok = &t0; t0.mNext = &t1; t1.mNext = &t2; } else if (shape == 4) { tok = &t0; t0.mNext = &t1; }\n"
                      "    int varid = nondet_int(); __CPROVER_assume(varid > 0);\n"
                      "    g_in_shape = shape; g_in_varid = varid; g_in_type0 = t0.mTokType; g_in_varid0 = t0.mVarId; g_in_type1 = t1.mTokType; g_in_varid1 = t1.mVarId;\n"
                      "    for (int i = 0; i <= SMAXALL; i++) { g_in_str0[i] = b0[i]; g_in_str1[i] = b1[i]; }\n%s\n}\n#endif\n" % (hname.upper(), hname.upper(), min(maxlen, 6), hname, hname.upper(), "\n".join(body)))
        groups.append((hname, grp, min(maxlen, 6), max(len(w) for w in grp) + 3))
    # probes for long literal alternatives (longer than the symbolic token strings above): the token spelling is the literal with one
    # position replaced by an arbitrary character, or extended by one character - exact match, near miss and prefix cases
    alts = sorted({a for w in usable for a in (w[2:] if w.startswith("!!") else w).split("|") if a and "%" not in a and not a.startswith("[") and len(a) >= 7})
    long16 = [a for a in alts if len(a) >= 16]
    rest = [a for a in alts if a not in long16]
    probe = alts if ctx.tier == "thorough" else long16 + sorted(rng.sample(rest, min(6, len(rest))))
    probes = []
    for pi, a in enumerate(probe):
        nr += 1
        pieces.append(lower_compiled(compile_word(a, nr, False), nr))
        L = len(a)
        pieces.append("#if defined(H_PROBE_%d)\nvoid h_probe_%d(void) {\n"
                      "    struct Token t; static char pb[%d] = \"%s\"; size_t k = nondet_size_t(); __CPROVER_assume(k <= %d); char c = nondet_char(); __CPROVER_assume(c != ' ');\n"
                      "    if (k < %d) { __CPROVER_assume(c != 0); pb[k] = c; t.mStrLen = %d; } else { pb[%d] = c; pb[%d] = 0; t.mStrLen = c ? %d : %d; }\n"
                      "    t.mStr = pb; t.mNext = NULL; mk_fields(&t); int varid = nondet_int(); __CPROVER_assume(varid > 0); verif_thrown = 0;\n"
                      "    _Bool x = Token_Match(&t, \"%s\", varid); _Bool y = match%d(&t, varid);\n"
                      "    __CPROVER_assert(x == y, \"pattern \\\"%s\\\" on a token spelled like the literal (one character changed or appended): compiled matcher == Token::Match\");\n}\n#endif\n"
                      % (pi, pi, L + 2, a, L, L, L, L, L + 1, L + 1, L, a, nr, a))
        probes.append((pi, a))
    kb.ctext = "".join(pieces) + r'''
void h_firstWordEquals(void) { const char *a; const char *b; (void)firstWordEquals(a, b); }
void h_chrInFirstWord(void) { const char *a; (void)chrInFirstWord(a, nondet_char()); }
'''
    kb.job("firstWordEquals", "h_firstWordEquals", enforce="firstWordEquals", loop_contracts=True)
    kb.job("chrInFirstWord", "h_chrInFirstWord", enforce="chrInFirstWord", loop_contracts=True)
    for hname, grp, sl, plen in groups:
        # loops run over the concrete pattern (length plen + 3 for " @@") and over token strings (<= SMAXALL)
        kb.job("words." + hname[8:], hname, kind="bounded", props=["C33"], flags=["--sat-solver", "minisat2"], unwind=max(12, plen + 6), unwindset=["Token_Match.4:4"], defines=["NOCONTRACT", hname.upper()], timeout=(900 if ctx.tier == "thorough" else 400), no_std_checks=False,
               # bracket sets (the scan over the set inside Token::Match with a symbolic token character) need up to 8 GB; everything else fits the default
               mem_kb=(12000000 if any(w.startswith("[") for w in grp) else None),
               # Token_Match.4 is the outer word loop of Token::Match (loops are numbered by back edge): a one- or two-word pattern needs at most 4
               # iterations; bounding it keeps the pattern pointer from being explored symbolically (an insufficient bound shows as *undecided*)
               note="words %s: token lists of 0..2 tokens (+ sentinel), token strings 1..%d chars, type/flags/varId symbolic; varid > 0" % (" ".join(grp), sl))
    for pi, a in probes:
        kb.job("probe.%d" % pi, "h_probe_%d" % pi, kind="bounded", props=["C33"], flags=["--sat-solver", "minisat2"], unwind=len(a) + 8, unwindset=["Token_Match.4:4"],
               defines=["NOCONTRACT", "H_PROBE_%d" % pi], timeout=(900 if ctx.tier == "thorough" else 400),
               note="pattern word %s on a token spelled like it with one character replaced or appended; type/flags/varId symbolic" % a)
    kb.assumptions += ["token invariant (assumed here; K26 proves the first part for Token::tokType(t) and checks the table part for Token::update_property_info, later retyping passes stay unverified): "
                       "fIsName == (type is a name type); varId != 0 => name type; "
                       "for every spelling in the match compiler's tokTypes table the token has one of the listed types; token strings are non-empty and contain no NUL or space",
                       "varid > 0 when the pattern is evaluated (both sides treat varid 0 as an internal error at different points)",
                       "only one-word patterns (and `W @@`) are compared: the sequencing of several words is covered only through the two-word form",
                       "the Python text surgery that replaces call sites in the build is not verified"]
    kb.trusted += ["tools/matchcompiler.py is executed (python3) to obtain the compiled matcher text; its output is lowered by the same accessor rules as the interpreter"]
    return kb
