"""K66  evaluate() with isTrue() / isFalse() (lib/programmemory.cpp): a binary operator applied to two values of the program
memory.

The program memory holds, besides known values, what a condition says about a variable: after `if (x > 2)` it holds for x the
value 3 with the bound Lower ("x >= 3").  evaluate() computes `x == 5` from that as calculate("==", 3, 5): 0 - a definite
"false" - although 5 is a member of the range; the forward analysis then skips `if (x == 5) { v = 31; }` and
`if (v == 0)` is reported "always true".
Contract (C03 / C01): a definite result (an integer that is not impossible) is the result for EVERY value the operands stand
for: a point value stands for itself, a lower / upper bounded possible value for every value on its side of the bound.
The class "an operand is a bounded possible value" is a recorded finding (KNOWN-FINDING); point operands are proved.
calculate() is K06's contract: here the comparison operators are written out, the others are an arbitrary oracle.
"""
import re

from vlib import extract, native
from vlib.kernel import KernelBuild, located_rules
from . import _common

ID = "K66"
SERVES = ["C03", "C01", "C13"]
TITLE = "program memory evaluate(): a definite result holds for every value the operands stand for"

PRELUDE = r'''
enum VKind { K_POSSIBLE, K_KNOWN, K_INCONCLUSIVE, K_IMPOSSIBLE };
enum VBound { BOUND_Upper, BOUND_Lower, BOUND_Point };
enum VVType { VV_INT, VV_FLOAT, VV_ITERATOR, VV_SYMBOLIC, VV_UNINIT, VV_OTHER };
struct VValue { enum VKind kind; enum VBound bound; enum VVType vtype; bigint intvalue; double floatValue; int tokvalue; };
static struct VValue vunknown(void) { struct VValue v; v.kind = K_POSSIBLE; v.bound = BOUND_Point; v.vtype = VV_UNINIT; v.intvalue = 0; v.floatValue = 0; v.tokvalue = 0; return v; }   /* ValueFlow::Value::unknown(): an UNINIT value */
static struct VValue vdefault(void) { struct VValue v; v.kind = K_POSSIBLE; v.bound = BOUND_Point; v.vtype = VV_INT; v.intvalue = 0; v.floatValue = 0; v.tokvalue = 0; return v; }
/* the operator: 0 ==, 1 !=, 2 <, 3 <=, 4 >, 5 >=, 6 + , 7 -, 8 one of % / & |, 9 any other */
int g_op;
bigint nondet_bigint(void);
static bigint o_calc(bigint x, bigint y, _Bool *error) {
    *error = 0;
    switch (g_op) { case 0: return x == y; case 1: return x != y; case 2: return x < y; case 3: return x <= y; case 4: return x > y; case 5: return x >= y; default: break; }
    *error = nondet_bool(); return nondet_bigint();          /* calculate(): K06 */
}
double nondet_double(void);
static double o_calc_float(_Bool *error) { *error = nondet_bool(); return nondet_double(); }
'''

HARNESS = r'''
int g_in_op, g_in_lk, g_in_lb, g_in_rk, g_in_rb; bigint g_in_lv, g_in_rv, g_in_x, g_in_y;
/* x is one of the values v stands for */
static _Bool member(const struct VValue *v, bigint x) {
    if (v->kind == K_IMPOSSIBLE) return v->bound == BOUND_Point ? x != v->intvalue : v->bound == BOUND_Upper ? x > v->intvalue : x < v->intvalue;
    return v->bound == BOUND_Point ? x == v->intvalue : v->bound == BOUND_Upper ? x <= v->intvalue : x >= v->intvalue;
}
static _Bool cmp(int op, bigint x, bigint y) { return op == 0 ? x == y : op == 1 ? x != y : op == 2 ? x < y : op == 3 ? x <= y : op == 4 ? x > y : x >= y; }
void h_eval(void) {
    struct VValue l = vdefault(), r = vdefault();
    l.kind = (enum VKind)nondet_int(); r.kind = (enum VKind)nondet_int(); l.bound = (enum VBound)nondet_int(); r.bound = (enum VBound)nondet_int(); l.intvalue = nondet_bigint(); r.intvalue = nondet_bigint();
    __CPROVER_assume((l.kind == K_POSSIBLE || l.kind == K_KNOWN || l.kind == K_IMPOSSIBLE) && (r.kind == K_POSSIBLE || r.kind == K_KNOWN || r.kind == K_IMPOSSIBLE));
    __CPROVER_assume(l.bound >= BOUND_Upper && l.bound <= BOUND_Point && r.bound >= BOUND_Upper && r.bound <= BOUND_Point);
    __CPROVER_assume((l.kind != K_KNOWN || l.bound == BOUND_Point) && (r.kind != K_KNOWN || r.bound == BOUND_Point));
    g_op = nondet_int(); __CPROVER_assume(g_op >= 0 && g_op <= 5);           /* the comparison operators */
    _Bool ranged = (l.kind != K_IMPOSSIBLE && l.bound != BOUND_Point) || (r.kind != K_IMPOSSIBLE && r.bound != BOUND_Point);
#ifdef CLASS_RANGED
    __CPROVER_assume(ranged);
#else
    __CPROVER_assume(!ranged);
#endif
    bigint x = nondet_bigint(), y = nondet_bigint();                          /* ghosts: values in some execution */
    __CPROVER_assume(member(&l, x) && member(&r, y));
    g_in_op = g_op; g_in_lk = l.kind; g_in_lb = l.bound; g_in_rk = r.kind; g_in_rb = r.bound; g_in_lv = l.intvalue; g_in_rv = r.intvalue; g_in_x = x; g_in_y = y;
    struct VValue res = evaluate(1 /* comparison */, 0, g_op == 1, 0, &l, &r);
    if (res.vtype != VV_INT) return;                                          /* unknown: nothing is claimed */
    _Bool truth = cmp(g_op, x, y);
    if (res.kind == K_IMPOSSIBLE) return;          /* the caller discards an impossible result of a comparison (pinned by text in build()) */
    if (res.bound == BOUND_Point) {
        __CPROVER_assert((bigint)truth == res.intvalue, "a definite result of a comparison is its result for every value the operands stand for");
        __CPROVER_assert(isTrue(&res) == truth && isFalse(&res) == !truth, "isTrue / isFalse of that result agree with it");
    }
}
void h_cover(void) {
    struct VValue l = vdefault(), r = vdefault(); l.kind = K_KNOWN; l.intvalue = 3; r.kind = K_KNOWN; r.intvalue = 5; g_op = 0;
    struct VValue res = evaluate(1, 0, 0, 0, &l, &r);
    __CPROVER_assert(!(res.vtype == VV_INT && res.intvalue == 0 && res.kind != K_IMPOSSIBLE), "COVER: 3 == 5 is 0");
    l.kind = K_IMPOSSIBLE; g_op = 0;
    res = evaluate(1, 0, 0, 0, &l, &r);
    __CPROVER_assert(!(res.vtype == VV_INT), "COVER: an impossible operand gives a result");
}
'''

REPLAY_CPP = r'''
#include "settings.h"
#include "tokenize.h"
#include "tokenlist.h"
#include "token.h"
#include "errorlogger.h"
#include "color.h"
#include "platform.h"
#include <cstdio>
struct Log : ErrorLogger {
    void reportOut(const std::string &, Color) override {}
    void reportErr(const ErrorMessage &) override {}
    void reportMetric(const std::string &) override {}
};
int main() {
    const std::string code = "void g(void); void f(int x) { if (x > 2) { int v = 0; if (x == 5) { v = 31; } if (v == 0) { g(); } } }";
    Settings settings; settings.platform.set(Platform::Type::Unix64); Log log;
    Tokenizer tokenizer(TokenList(settings, Standards::Language::C), log);
    tokenizer.list.appendFileIfNew("t.c");
    if (!tokenizer.list.createTokensFromBuffer(code.data(), code.size()) || !tokenizer.simplifyTokens1("")) return 2;
    for (const Token *tok = tokenizer.tokens(); tok; tok = tok->next()) {
        if (tok->str() != "==" || !Token::simpleMatch(tok->astOperand1(), "v")) continue;
        if (!tok->hasKnownIntValue()) { printf("%s: `v == 0` has no known value\n", code.c_str()); return 0; }
        printf("%s: `v == 0` has the known value %lld; x == 5 makes v 31\n", code.c_str(), (long long)tok->getKnownIntValue());
        return 1;
    }
    return 2;
}
'''


def build(ctx):
    kb = KernelBuild(ID, TITLE)
    n = 0
    helpers = []
    for nm in ("isTrue", "isFalse"):
        fh = extract.locate_function("lib/programmemory.cpp", r'^static bool %s\(const ValueFlow::Value& v\)' % nm)
        kb.add_located(nm, fh)
        th, k = located_rules(fh, [
            (r'^static bool %s\(const ValueFlow::Value& v\)' % nm, 'static _Bool %s(const struct VValue *v)' % nm, 1, 1),
            (r'\bv\.isUninitValue\(\)', '(v->vtype == VV_UNINIT)', 1, 1),
            (r'\bv\.isImpossible\(\)', '(v->kind == K_IMPOSSIBLE)', 1, 1),
            (r'\bv\.intvalue\b', 'v->intvalue', 1),
        ], ID + "." + nm); n += k
        helpers.append(extract.strip_comments(th))
    f = extract.locate_function("lib/programmemory.cpp", r'^static ValueFlow::Value evaluate\(const Token\* op, const ValueFlow::Value& lhs, const ValueFlow::Value& rhs, bool removeAssign = false\)')
    kb.add_located("evaluate", f)
    t, k = located_rules(f, [
        (r'^static ValueFlow::Value evaluate\(const Token\* op, const ValueFlow::Value& lhs, const ValueFlow::Value& rhs, bool removeAssign = false\)',
         'static struct VValue evaluate(_Bool op_is_comp, _Bool op_is_arith, _Bool op_is_ne, _Bool op_is_addsub, const struct VValue *lhs, const struct VValue *rhs)', 1, 1),
        (r'const std::string opStr = removeAssign \? op->str\(\)\.substr\(0, op->str\(\)\.size\(\) - 1\) : op->str\(\)\s*;', '', 1, 1),
        (r'ValueFlow::Value result\s*;', 'struct VValue result = vdefault();', 1, 1),
        (r'\breturn ValueFlow::Value::unknown\(\)\s*;', 'return vunknown();', 6),
        (r'contains\(\{"%", "/", "&", "\|"\}, opStr\)', '(g_op == 8)', 1, 1),
        (r'contains\(\{"\+", "-"\}, opStr\)', 'op_is_addsub', 1, 1),
        (r'\bopStr == "!="', 'op_is_ne', 1, 1),
        (r'\bop->isArithmeticalOp\(\)', 'op_is_arith', 1, 1),
        (r'\bop->isComparisonOp\(\)', 'op_is_comp', 1, 1),
        (r'\bresult\.setImpossible\(\)\s*;', 'result.kind = K_IMPOSSIBLE;', 1, 1),
        (r'\bresult\.setPossible\(\)\s*;', 'result.kind = K_POSSIBLE;', 1, 1),
        (r'\bresult\.isImpossible\(\)', '(result.kind == K_IMPOSSIBLE)', 1, 1),
        (r'\bisNumericValue\((lhs|rhs)\)', r'(\1->vtype == VV_INT || \1->vtype == VV_FLOAT)', 2, 2),
        (r'\bisIntegralValue\((lhs|rhs)\)', r'(\1->vtype == VV_INT || \1->vtype == VV_ITERATOR || \1->vtype == VV_SYMBOLIC)', 2, 2),
        (r'\bresult\.floatValue = calculate\(opStr, asFloat\(lhs\), asFloat\(rhs\), &error\)\s*;', 'result.floatValue = o_calc_float(&error);', 1, 1),
        (r'\bresult\.intvalue = calculate\(opStr, lhs\.intvalue, rhs\.intvalue, &error\)\s*;', 'result.intvalue = o_calc(lhs->intvalue, rhs->intvalue, &error);', 1, 1),
        (r'\b(lhs|rhs)\.isImpossible\(\)', r'(\1->kind == K_IMPOSSIBLE)', 4),
        (r'\b(lhs|rhs)\.isFloatValue\(\)', r'(\1->vtype == VV_FLOAT)', 2, 2),
        (r'\b(lhs|rhs)\.isIntValue\(\)', r'(\1->vtype == VV_INT)', 6),
        (r'\b(lhs|rhs)\.isIteratorValue\(\)', r'(\1->vtype == VV_ITERATOR)', 2, 2),
        (r'\b(lhs|rhs)\.isSymbolicValue\(\)', r'(\1->vtype == VV_SYMBOLIC)', 2, 2),
        (r'\b(lhs|rhs)\.valueType\b', r'\1->vtype', 4),
        (r'\b(lhs|rhs)\.tokvalue\b', r'\1->tokvalue', 4),
        (r'\bresult\.valueType\b', 'result.vtype', 4),
        (r'\bValueFlow::Value::ValueType::(INT|FLOAT)\b', r'VV_\1', 3),
        (r'\bValueFlow::Value::Bound::Point\b', 'BOUND_Point', 1),
        (r'\bisTrue\(result\)', 'isTrue(&result)', 1, 1),
        (r'\bisFalse\(result\)', 'isFalse(&result)', 1, 1),
        (r'\bbool\b', '_Bool', 1),
    ], ID); n += k
    if re.search(r'ValueFlow|opStr|\bop->|std::|\b(?:lhs|rhs)\.', extract.mask(t)):
        raise extract.ExtractError("K66: evaluate not fully lowered: %r" % re.findall(r'[^\n]*(?:ValueFlow|opStr|\bop->|std::|\b(?:lhs|rhs)\.)[^\n]*', extract.mask(t))[:4])
    whole = extract.strip_comments(extract.read("lib/programmemory.cpp"))
    if not re.search(r'ValueFlow::Value r = evaluate\(expr, lhs, rhs\)\s*;\s*if \(expr->isComparisonOp\(\) && \(r\.isUninitValue\(\) \|\| r\.isImpossible\(\)\)\)', whole):
        raise extract.ExtractError("programmemory.cpp: the executor no longer discards an impossible result of a comparison")
    kb.rules_fired = n
    text = _common.BASE + PRELUDE + "\n".join(helpers) + "\n" + extract.strip_comments(t) + "\n"
    extract.residue_scan(text, ID)
    kb.ctext = text + HARNESS
    kb.job("points", "h_eval", note="loop-free function: comparison operators, both operands point values (known, possible) or impossible values; every pair of values")
    kb.job("ranges", "h_eval", kind="known", finding="K66.bounded-operand", props=["C03"], defines=["CLASS_RANGED"], expect_fail=["h_eval.assertion"], replay="cond",
           note="recorded finding class: an operand is a possible value with a lower / upper bound")
    kb.job("cover", "h_cover", kind="cover")
    kb.assumptions += ["values as (kind, bound, value type, intvalue, floatValue, tokvalue id); calculate() is written out for the comparison operators and an arbitrary oracle otherwise (K06)",
                       "only integer operands and comparison operators are decided; float / iterator / symbolic operands and arithmetic results are run for safety only",
                       "how the forward analysis uses the result (evalCond, skipping a branch) is not verified"]

    def rp(inputs, ctx):
        rc, o, cmd = native.compile_run("replay_K66", REPLAY_CPP, [])
        return native.verdict_from_rc(rc, o), o, cmd
    kb.replayers["cond"] = rp
    return kb
