"""K55  impossible values through integer conversions:

  * ValueFlow::isValuePreservingConversion (lib/vf_common.cpp): "does the conversion from integer type src to integer type dst keep
    every value (of a non-negative source)";
  * its two users: the guard in front of setTokenValueCast (explicit cast, lib/vf_settokenvalue.cpp) and the removal of impossible
    values in truncateValues (initialisation / assignment, lib/valueflow.cpp), with the helper replaced by its contract.
Ghost: x is any value of the source type (non-negative when the caller says so).  Contract (C01): the helper answers true only if
converting x to the destination type gives x again - for every x; the users let an impossible integer value pass only then.
ValueType::getSizeOf is an oracle (sizes 1, 2, 4, 8 or 0 = unknown), ValueType::isIntegral a flag.
"""
import re

from vlib import extract, native
from vlib.kernel import KernelBuild, located_rules
from . import _common

ID = "K55"
SERVES = ["C01", "C03", "C13"]
TITLE = "impossible values pass an integer conversion only if the conversion preserves every value of the source"

PRELUDE = r'''
struct VT2 { enum Sign sign; int pointer; _Bool integral; size_t size; };
enum VKind { K_KNOWN, K_POSSIBLE, K_IMPOSSIBLE };
enum VBound { BOUND_Upper, BOUND_Lower, BOUND_Point };
struct VValue { enum VKind kind; enum VBound bound; bigint intvalue; _Bool isInt; _Bool isSymbolic; };
'''

CONTRACT = r'''
__CPROVER_requires(__CPROVER_r_ok(src, sizeof(*src)) && __CPROVER_r_ok(dst, sizeof(*dst)))
__CPROVER_assigns()
__CPROVER_ensures(!__CPROVER_return_value || PRESERVES(src, dst, srcNonNegative))
'''

HARNESS = r'''
bigint g_in_x; int g_in_ssign, g_in_dsign, g_in_ssize, g_in_dsize, g_in_nonneg;
static _Bool in_type(bigint x, size_t sz, enum Sign s) {   /* plain char of unknown sign: either reading */
    if (sz >= 8) return 1;
    _Bool as_signed = x >= -(1LL << (8 * sz - 1)) && x < (1LL << (8 * sz - 1)), as_unsigned = x >= 0 && x < (1LL << (8 * sz));
    return s == Sign_SIGNED ? as_signed : s == Sign_UNSIGNED ? as_unsigned : (as_signed || as_unsigned);
}
static bigint conv(bigint x, size_t sz, enum Sign s) {      /* C11 6.3.1.3 with wrap-around for signed targets (gcc/clang) */
    if (sz >= 8) return x;
    biguint m = (1ULL << (8 * sz)) - 1, u = (biguint)x & m;
    return (s == Sign_SIGNED && (u >> (8 * sz - 1))) ? (bigint)(u | ~m) : (bigint)u;
}
static void mk_types(struct VT2 *src, struct VT2 *dst) {
    src->sign = (enum Sign)nondet_int(); dst->sign = (enum Sign)nondet_int(); src->pointer = nondet_bool(); dst->pointer = nondet_bool(); src->integral = nondet_bool(); dst->integral = nondet_bool();
    src->size = nondet_size_t(); dst->size = nondet_size_t();
    __CPROVER_assume(src->sign >= Sign_UNKNOWN_SIGN && src->sign <= Sign_UNSIGNED && dst->sign >= Sign_UNKNOWN_SIGN && dst->sign <= Sign_UNSIGNED);
    __CPROVER_assume((src->size == 0 || src->size == 1 || src->size == 2 || src->size == 4 || src->size == 8) && (dst->size == 0 || dst->size == 1 || dst->size == 2 || dst->size == 4 || dst->size == 8));
    /* only plain char has an unknown sign */
    __CPROVER_assume((src->sign != Sign_UNKNOWN_SIGN || src->size <= 1) && (dst->sign != Sign_UNKNOWN_SIGN || dst->size <= 1));
    g_in_ssign = src->sign; g_in_dsign = dst->sign; g_in_ssize = (int)src->size; g_in_dsize = (int)dst->size;
}
void h_helper(void) {
    struct VT2 src, dst; mk_types(&src, &dst); _Bool nn = nondet_bool(); g_in_nonneg = nn;
    _Bool r = isValuePreservingConversion(&src, &dst, nn);
    if (!r) return;
    __CPROVER_assert(src.integral && dst.integral && src.pointer == 0 && dst.pointer == 0 && src.size != 0 && dst.size != 0, "preserving only for integer types of known size");
    bigint x = nondet_bigint(); __CPROVER_assume(in_type(x, src.size, src.sign) && (!nn || x >= 0)); g_in_x = x;
    /* 8-byte unsigned sources are carried as 64-bit patterns: values above LLONG_MAX are negative bigints and are excluded from the comparison */
    __CPROVER_assume(!(src.size == 8 && src.sign == Sign_UNSIGNED && x < 0));
    __CPROVER_assert(conv(x, dst.size, dst.sign) == x && in_type(x, dst.size, dst.sign == Sign_UNKNOWN_SIGN ? Sign_SIGNED : dst.sign), "a conversion reported as value preserving gives back every value of the source type");
}
void h_cast_guard(void) {
    struct VT2 src, dst; mk_types(&src, &dst); _Bool has_src = nondet_bool(), nn = nondet_bool();
    struct VValue v; v.kind = (enum VKind)nondet_int(); v.isInt = nondet_bool(); v.isSymbolic = !v.isInt && nondet_bool(); v.bound = BOUND_Point; v.intvalue = 0; __CPROVER_assume(v.kind >= K_KNOWN && v.kind <= K_IMPOSSIBLE);
    _Bool passed = cast_guard(&v, has_src ? &src : NULL, &dst, nn);
    /* a symbolic value (the operand equals / differs from another expression by an offset) is a fact about the result of an
       integer cast only through a preserving conversion; non-negativity of the operand is not known for it */
    if (passed && v.isSymbolic && has_src && src.integral && src.pointer == 0 && dst.integral && dst.pointer == 0)
        __CPROVER_assert(PRESERVES(&src, &dst, nn), "cast: a symbolic value passes only a value preserving conversion");
    /* an impossible integer value of an integer operand reaches an integer cast only through a preserving conversion */
    if (passed && v.kind == K_IMPOSSIBLE && v.isInt && has_src && src.integral && src.pointer == 0 && dst.integral && dst.pointer == 0)
        __CPROVER_assert(PRESERVES(&src, &dst, nn), "cast: an impossible value passes only a value preserving conversion");
}
void h_assign_guard(void) {
    struct VT2 src, dst; mk_types(&src, &dst); _Bool nn = nondet_bool();
    _Bool removed = 0;
    assign_guard(&src, &dst, nn, &removed);
    if (src.integral && src.pointer == 0 && dst.pointer == 0 && !removed)
        __CPROVER_assert(PRESERVES(&src, &dst, nn), "initialisation: impossible values are kept only through a value preserving conversion");
}
/* (a = e): the value of the assignment expression is the value stored in a - e converted to the type of a (C11 6.5.16p3) */
void h_assign_expr(void) {
    struct VT2 src, dst; mk_types(&src, &dst);
    struct VValue v; v.kind = (enum VKind)nondet_int(); v.isInt = nondet_bool(); v.isSymbolic = !v.isInt && nondet_bool(); v.bound = BOUND_Point; v.intvalue = 0; __CPROVER_assume(v.kind >= K_KNOWN && v.kind <= K_IMPOSSIBLE);
    g_assign_mode = 0;
    assign_expr(&v, &src, &dst);
    if (!(src.integral && src.pointer == 0 && dst.integral && dst.pointer == 0)) return;      /* other types: not decided */
    if (v.isInt && v.kind != K_IMPOSSIBLE && !PRESERVES(&src, &dst, 0))      /* a preserving conversion may be skipped */
        __CPROVER_assert(g_assign_mode == 2 || g_assign_mode == 0, "a known / possible integer value of the right operand reaches `=` only converted to the type of the left operand");
    if ((v.isSymbolic || (v.isInt && v.kind == K_IMPOSSIBLE)) && g_assign_mode != 0)
        __CPROVER_assert(g_assign_mode == 1 && PRESERVES(&src, &dst, 0), "an impossible or symbolic value reaches `=` only through a value preserving conversion");
}
void h_cover(void) {
    struct VT2 a, b; a.sign = Sign_SIGNED; a.pointer = 0; a.integral = 1; a.size = 4; b = a; b.size = 8;
    __CPROVER_assert(!isValuePreservingConversion(&a, &b, 0), "COVER: int -> long long preserves");
    b.size = 1; b.sign = Sign_UNSIGNED;
    __CPROVER_assert(isValuePreservingConversion(&a, &b, 0), "COVER: int -> unsigned char does not preserve");
}
'''

REPLAY_CPP = r'''
#include <cstdio>
int main() { printf("K55: compare `cppcheck --enable=style` on `void f(int x){ if (x > 300) { int y = (unsigned char)x; if (y == 1) g(); } }` (x = 257 makes the inner condition true)\n"); return 0; }
'''

# the ghost meaning of "preserves": every value of src (non-negative if nn) is unchanged by the conversion - written as a closed formula over sizes and signs
PRESERVES = r'''
static _Bool PRESERVES(const struct VT2 *s, const struct VT2 *d, _Bool nn) {
    if (!s->integral || !d->integral || s->pointer != 0 || d->pointer != 0 || s->size == 0 || d->size == 0) return 0;
    /* ranges: signed [-2^(8n-1), 2^(8n-1)-1], unsigned [0, 2^(8n)-1]; plain char may be either: both readings must be preserved */
    _Bool s_may_neg = s->sign != Sign_UNSIGNED && !nn;
    _Bool s_may_big = s->sign != Sign_SIGNED;          /* values up to 2^(8n)-1 */
    _Bool d_signed = d->sign == Sign_SIGNED, d_unsigned = d->sign == Sign_UNSIGNED;
    if (!d_signed && !d_unsigned) return 0;            /* plain char target: not decided */
    if (d_unsigned) return !s_may_neg && d->size >= s->size;
    /* signed target holds up to 2^(8n-1)-1 */
    if (s_may_big) return d->size > s->size;
    return d->size >= s->size;
}
'''


def build(ctx):
    kb = KernelBuild(ID, TITLE)
    enums, _ = _common.valuetype_enums()
    n = 0
    VTR = _common.VT_RULES + [
        (r'\b(src|dst)\.isIntegral\(\)', r'\1->integral', 0),
        (r'\b(src|dst)\.getSizeOf\(settings,\s*ValueType::Accuracy::ExactOrZero,\s*ValueType::SizeOf::Pointer\)', r'\1->size', 0),
        (r'\b(src|dst)\.(sign|pointer)\b', r'\1->\2', 0),
    ]
    f = extract.locate_function("lib/vf_common.cpp", r'^\s*bool isValuePreservingConversion\s*\(')
    kb.add_located("ValueFlow::isValuePreservingConversion", f)
    t, k = located_rules(f, [
        (r'^\s*bool isValuePreservingConversion\s*\(\s*const ValueType& src, const ValueType& dst, bool srcNonNegative, const Settings& settings\s*\)',
         'static _Bool isValuePreservingConversion(const struct VT2 *src, const struct VT2 *dst, _Bool srcNonNegative)', 1, 1),
    ] + VTR, ID + ".helper"); n += k
    if re.search(r'ValueType|settings|std::', extract.mask(t)):
        raise extract.ExtractError("K55: helper not fully lowered: %r" % re.findall(r'[^\n]*(?:ValueType|settings|std::)[^\n]*', extract.mask(t))[:3])
    sig, body = extract.body_of(t)
    helper = "%s\n%s%s\n" % (sig, CONTRACT, body)
    # ---- the cast guard in setTokenValue
    g = extract.locate_function("lib/vf_settokenvalue.cpp", r'^\s*void\s+setTokenValue\s*\(\s*Token\s*\*\s*tok\s*,')
    gm = extract.mask(g.text)
    s = list(re.finditer(r'if \((?:\(\()?value\.isImpossible\(\) && value\.isIntValue\(\)(?:\) \|\| value\.isSymbolicValue\(\)\))? && valueType\.isIntegral\(\) && valueType\.pointer == 0 &&', gm))
    e = list(re.finditer(r'setTokenValueCast\(parent, valueType, std::move\(value\), settings\)\s*;', gm))
    if len(s) != 1 or len(e) != 1 or e[0].start() < s[0].end():
        raise extract.ExtractError("setTokenValue: guard in front of setTokenValueCast not found")
    regc = extract.Located("lib/vf_settokenvalue.cpp", g.text[s[0].start():e[0].end()], g.start + s[0].start(), g.start + e[0].end(), extract.read("lib/vf_settokenvalue.cpp"))
    kb.add_located("ValueFlow::setTokenValue [impossible values in front of a cast]", regc, "region")
    tc = extract.strip_comments(regc.text)
    # the any_of over the operand's values computes "the operand is known to be non-negative": an oracle flag here
    tc2, cnt = re.subn(r'const bool nonNegative = std::any_of\(tok->values\(\)\.cbegin\(\), tok->values\(\)\.cend\(\), \[\]\(const Value& v\) \{.*?\}\);', 'const _Bool nonNegative = nn;', tc, flags=re.S)
    if cnt != 1:
        raise extract.ExtractError("setTokenValue cast guard: non-negativity scan not found")
    tc3, k = extract.apply_rules(tc2, extract.GENERIC + _common.VT_RULES + [
        (r'\bvalue\.isImpossible\(\)', '(value->kind == K_IMPOSSIBLE)', 1, 1),
        (r'\bvalue\.isIntValue\(\)', 'value->isInt', 1, 1),
        (r'\bvalue\.isSymbolicValue\(\)', 'value->isSymbolic', 0, 1),
        (r'\bvalueType\.isIntegral\(\)', 'dst->integral', 1, 1),
        (r'\bvalueType\.pointer\b', 'dst->pointer', 1, 1),
        (r'\btok->valueType\(\) && tok->valueType\(\)->isIntegral\(\) && tok->valueType\(\)->pointer == 0', '(src != NULL && src->integral && src->pointer == 0)', 1, 1),
        (r'isValuePreservingConversion\(\*tok->valueType\(\), valueType, nonNegative, settings\)', 'isValuePreservingConversion(src, dst, nonNegative)', 1, 1),
        (r'\breturn\s*;', 'return 0;', 1, 1),
        (r'setTokenValueCast\(parent, valueType, std::move\(value\), settings\)\s*;', 'return 1;', 1, 1),
    ], ID + ".cast"); n += sum(c for _, c in k)
    if re.search(r'tok->|valueType|settings|std::', extract.mask(tc3)):
        raise extract.ExtractError("K55: cast guard not fully lowered: %r" % re.findall(r'[^\n]*(?:tok->|valueType|settings|std::)[^\n]*', extract.mask(tc3))[:3])
    castg = "static _Bool cast_guard(const struct VValue *value, const struct VT2 *src, const struct VT2 *dst, _Bool nn)\n{\n%s\n}\n" % tc3
    # ---- the removal in truncateValues
    h = extract.locate_function("lib/valueflow.cpp", r'^static std::list<ValueFlow::Value> truncateValues\s*\(')
    hm = extract.mask(h.text)
    s = list(re.finditer(r'if \(src->isIntegral\(\) && src->pointer == 0 && dst->pointer == 0\)\s*\{', hm))
    if len(s) != 1:
        raise extract.ExtractError("truncateValues: guard for impossible values not found")
    ob = s[0].end() - 1
    cb = extract.match_brace(h.text, ob, hm)
    rega = extract.Located("lib/valueflow.cpp", h.text[s[0].start():cb + 1], h.start + s[0].start(), h.start + cb + 1, extract.read("lib/valueflow.cpp"))
    kb.add_located("truncateValues [removal of impossible values]", rega, "region")
    ta = extract.strip_comments(rega.text)
    ta, c1 = re.subn(r'const bool nonNegative = std::any_of\(values\.cbegin\(\), values\.cend\(\), \[\]\(const ValueFlow::Value& value\) \{.*?\}\);', 'const _Bool nonNegative = nn;', ta, flags=re.S)
    ta, c2 = re.subn(r'values\.remove_if\(\[\]\(const ValueFlow::Value& value\) \{\s*return value\.isIntValue\(\) && value\.isImpossible\(\);\s*\}\);', '*removed = 1;   /* every impossible integer value is removed */', ta, flags=re.S)
    if c1 != 1 or c2 != 1:
        raise extract.ExtractError("truncateValues guard: scan / removal not found in the expected shape")
    ta, k = extract.apply_rules(ta, extract.GENERIC + [
        (r'\bsrc->isIntegral\(\)', 'src->integral', 1, 1),
        (r'ValueFlow::isValuePreservingConversion\(\*src, \*dst, nonNegative, settings\)', 'isValuePreservingConversion(src, dst, nonNegative)', 1, 1),
    ], ID + ".assign"); n += sum(c for _, c in k)
    if re.search(r'ValueFlow|settings|std::|values', extract.mask(ta)):
        raise extract.ExtractError("K55: truncateValues guard not fully lowered: %r" % ta[:300])
    assg = "static void assign_guard(const struct VT2 *src, const struct VT2 *dst, _Bool nn, _Bool *removed)\n{\n%s\n}\n" % ta
    # ---- the value of an assignment expression (setTokenValue, parent `=` and tok its right operand)
    s = [mo for mo in re.finditer(r'if \(Token::simpleMatch\(parent, "[^"]*"\) && astIsRHS\(tok\)\)\s*\{', gm) if g.text[mo.start():mo.end()].startswith('if (Token::simpleMatch(parent, "=")')]
    if len(s) != 1:
        raise extract.ExtractError("setTokenValue: block for the right operand of `=` found %d times" % len(s))
    ob = s[0].end() - 1
    cb = extract.match_brace(g.text, ob, gm)
    rege = extract.Located("lib/vf_settokenvalue.cpp", g.text[ob + 1:cb], g.start + ob + 1, g.start + cb, extract.read("lib/vf_settokenvalue.cpp"))
    kb.add_located("ValueFlow::setTokenValue [value of an assignment expression]", rege, "region")
    te, k = extract.apply_rules(extract.strip_comments(rege.text), extract.GENERIC + _common.VT_RULES + [
        (r'const ValueType\s*\*\s*lhsType = parent->astOperand1\(\) \? parent->astOperand1\(\)->valueType\(\) : NULL\s*;', 'const struct VT2 *lhsType = dst;', 0, 1),
        (r'\blhsType && lhsType->isIntegral\(\) && lhsType->pointer == 0', '(lhsType != NULL && lhsType->integral && lhsType->pointer == 0)', 0, 1),
        (r'\btok->valueType\(\) && tok->valueType\(\)->isIntegral\(\) && tok->valueType\(\)->pointer == 0', '(src != NULL && src->integral && src->pointer == 0)', 0, 1),
        (r'\bvalue\.isIntValue\(\)', 'value->isInt', 0, 1),
        (r'\bvalue\.isSymbolicValue\(\)', 'value->isSymbolic', 0, 2),
        (r'\bvalue\.isImpossible\(\)', '(value->kind == K_IMPOSSIBLE)', 0, 1),
        (r'isValuePreservingConversion\(\*tok->valueType\(\), \*lhsType, false, settings\)', 'isValuePreservingConversion(src, lhsType, 0)', 0, 1),
        (r'\bsetTokenValueCast\(parent, \*lhsType, value, settings\)\s*;', 'g_assign_mode = 2;', 0, 1),
        (r'\bsetTokenValue\(parent, value, settings\)\s*;', 'g_assign_mode = 1;', 1, 2),
        (r'\bif \(!value\.isUninitValue\(\)\)\s*return\s*;', '', 1, 1),
    ], ID + ".assignexpr"); n += sum(c for _, c in k)
    if re.search(r'tok->|parent|settings|std::|value\.', extract.mask(te)):
        raise extract.ExtractError("K55: assignment-expression block not fully lowered: %r" % re.findall(r'[^\n]*(?:tok->|parent|settings|std::|value\.)[^\n]*', extract.mask(te))[:3])
    asse = ("int g_assign_mode;   /* 0: nothing is handed on to `=`, 1: the value as it is, 2: the value converted to the type of the left operand (setTokenValueCast, K57) */\n"
            "static void assign_expr(const struct VValue *value, const struct VT2 *src, const struct VT2 *dst)\n{\n%s\n}\n" % te)
    kb.rules_fired = n
    text = _common.BASE + enums + PRELUDE + PRESERVES + helper + castg + assg + asse
    extract.residue_scan(text, ID)
    kb.ctext = text + HARNESS
    kb.job("helper", "h_helper", replay="note", note="all sizes (1, 2, 4, 8, unknown), signs, pointer / integral flags; every value of the source type")
    kb.job("helper.contract", "h_helper", enforce="isValuePreservingConversion", replay="note", note="the closed-form contract used by the two callers")
    kb.job("cast", "h_cast_guard", replace=["isValuePreservingConversion"], replay="note")
    kb.job("assign", "h_assign_guard", replace=["isValuePreservingConversion"], replay="note")
    kb.job("assignexpr", "h_assign_expr", replace=["isValuePreservingConversion"], replay="note", note="loop-free region: every value kind, every pair of operand types")
    kb.job("cover", "h_cover", kind="cover")
    kb.assumptions += ["ValueType::getSizeOf is an oracle (1, 2, 4, 8 bytes, 0 = unknown), isIntegral a flag; only plain char has an unknown sign",
                       "`nonNegative` (a scan of the value list for `never <= -1`) is an oracle flag: x >= 0 when it is set",
                       "64-bit unsigned sources above LLONG_MAX are not compared; the variable-following of isSameExpression (followVar) through a narrowing initialisation is the subject of K62"]

    def rnote(inputs, ctx):
        rc, o, cmd = native.compile_run("replay_K55", REPLAY_CPP, [], need_core=False)
        return "none", o, cmd
    kb.replayers["note"] = rnote
    return kb
