"""K51  the "absorbing operand" block of ValueFlow::setTokenValue (lib/vf_settokenvalue.cpp): a value of ONE operand that
decides the binary expression whatever the other operand is - `0 * y`, `0 & y`, `0 && y`, `c || y` with c != 0.

Region: the `if (!value.isImpossible() && value.isIntValue() && (...)) { ... return; }` statement of the binary-operator branch.
Ghost: y is any value of the other operand.  Contract (C01): when the block hands a value on for the parent expression, that
value is the value of `x op y` / `y op x` for every y, for a known x.
"""
import re

from vlib import extract, native
from vlib.kernel import KernelBuild, located_rules
from . import _common

ID = "K51"
SERVES = ["C01", "C03", "C13"]
TITLE = "setTokenValue: a value of one operand that decides * & && || gives the value of the expression for every other operand"

PRELUDE = r'''
#include "vstr.h"
enum VKind { K_KNOWN, K_POSSIBLE, K_IMPOSSIBLE };
enum VBound { BOUND_Upper, BOUND_Lower, BOUND_Point };
struct VValue { enum VKind kind; enum VBound bound; bigint intvalue; _Bool isInt; };
static _Bool tok_is(const char *s, const char *alts)
{   /* Token::Match(tok, "[&*]") / simpleMatch(tok, "&&") for operator spellings */
    size_t n = 0; while (n < 3 && s[n] != 0) n++;
    if (alts[0] == '[') { if (n != 1) return 0; for (size_t i = 1; alts[i] != 0 && alts[i] != ']'; i++) if (alts[i] == s[0]) return 1; return 0; }
    return vstr_eq(s, n, alts);
}
'''

HARNESS = r'''
bigint g_in_x, g_in_y; int g_in_op, g_in_integral, g_in_kind;
static const char *bopname(int k) { return k == 0 ? "*" : k == 1 ? "&" : k == 2 ? "&&" : k == 3 ? "||" : k == 4 ? "+" : "|"; }
void h_absorb(void) {
    int op = nondet_int(); __CPROVER_assume(op >= 0 && op <= 5);
    struct VValue v; v.kind = (enum VKind)nondet_int(); v.bound = (enum VBound)nondet_int(); v.intvalue = nondet_bigint(); v.isInt = nondet_bool();
    __CPROVER_assume(v.kind >= K_KNOWN && v.kind <= K_IMPOSSIBLE && v.bound >= BOUND_Upper && v.bound <= BOUND_Point);
    _Bool parent_integral = nondet_bool();
    bigint y = nondet_bigint();
    g_in_x = v.intvalue; g_in_y = y; g_in_op = op; g_in_integral = parent_integral; g_in_kind = v.kind;
    struct VValue out; _Bool set = 0;
    absorb_block(&v, bopname(op), parent_integral, &out, &set);
    if (!set) return;
    __CPROVER_assert(out.kind == v.kind && out.bound == BOUND_Point, "the value handed on keeps its kind and is a point value");
    if (v.kind != K_KNOWN) return;      /* possible values make no universal claim */
    bigint x = g_in_x;
    /* integer semantics of the four operators on 64-bit values (for * only a zero factor reaches this block; wrap-around is immaterial) */
    bigint r = op == 0 ? (bigint)((biguint)x * (biguint)y) : op == 1 ? (x & y) : op == 2 ? (x && y) : op == 3 ? (x || y) : op == 4 ? (bigint)((biguint)x + (biguint)y) : (x | y);
    __CPROVER_assert(out.intvalue == r, "the value of the expression decided by one known operand is its value for every value of the other operand");
}
void h_cover(void) {
    struct VValue v, out; _Bool set = 0; v.kind = K_KNOWN; v.bound = BOUND_Point; v.isInt = 1; v.intvalue = 5;
    absorb_block(&v, "||", 1, &out, &set);
    __CPROVER_assert(!(set && out.intvalue == 1), "COVER: 5 || y is 1");
    v.intvalue = 0; set = 0; absorb_block(&v, "*", 1, &out, &set);
    __CPROVER_assert(!(set && out.intvalue == 0), "COVER: 0 * y is 0");
}
'''

REPLAY_CPP = r'''
#include "settings.h"
#include "tokenize.h"
#include "tokenlist.h"
#include "token.h"
#include "errorlogger.h"
#include "color.h"
#include <cstdio>
#include <cstdlib>
#include <string>
struct Log : ErrorLogger {
    void reportOut(const std::string &, Color) override {}
    void reportErr(const ErrorMessage &) override {}
    void reportMetric(const std::string &) override {}
};
/* argv: op constant y : the known value of `y OP constant` (y an int parameter) against the C result for y */
int main(int argc, char **argv) {
    const std::string op = argv[1]; const long long c = atoll(argv[2]), y = atoll(argv[3]);
    const std::string code = "int f(int y) { return y " + op + " (" + std::to_string(c) + "); }";
    Settings settings; Log log;
    Tokenizer tokenizer(TokenList(settings, Standards::Language::C), log);
    tokenizer.list.appendFileIfNew("t.c");
    if (!tokenizer.list.createTokensFromBuffer(code.data(), code.size()) || !tokenizer.simplifyTokens1("")) { printf("tokenizing failed\n"); return 2; }
    long long want = op == "*" ? y * c : op == "&" ? (y & c) : op == "&&" ? (y && c) : (y || c);
    printf("%s\n", code.c_str());
    for (const Token *tok = tokenizer.tokens(); tok; tok = tok->next()) {
        if (tok->str() != op || !tok->astOperand2()) continue;
        if (!tok->hasKnownIntValue()) { printf("the expression has no known value\n"); return 0; }
        printf("the expression has the known value %lld; for y = %lld it is %lld\n", (long long)tok->getKnownIntValue(), y, want);
        return tok->getKnownIntValue() == want ? 0 : 1;
    }
    return 2;
}
'''


def build(ctx):
    kb = KernelBuild(ID, TITLE)
    src = "lib/vf_settokenvalue.cpp"
    f = extract.locate_function(src, r'^\s*void\s+setTokenValue\s*\(\s*Token\s*\*\s*tok\s*,')
    m = extract.mask(f.text)
    mk = extract.mask(f.text, keep_strings=True)
    s = list(re.finditer(r'if \(!value\.isImpossible\(\) && value\.isIntValue\(\) &&\s*\(\(Token::Match\(parent, "\[&\*\]"\)', mk))
    if len(s) != 1:
        raise extract.ExtractError("setTokenValue: absorbing-operand block found %d times" % len(s))
    ob = m.index('{', s[0].end())
    cb = extract.match_brace(f.text, ob, m)
    reg = extract.Located(src, f.text[s[0].start():cb + 1], f.start + s[0].start(), f.start + cb + 1, extract.read(src))
    kb.add_located("ValueFlow::setTokenValue [operand that decides * & && ||]", reg, "region")
    t, n = located_rules(reg, [
        (r'\bvalue\.isImpossible\(\)', '(value->kind == K_IMPOSSIBLE)', 1, 1),
        (r'\bvalue\.isIntValue\(\)', 'value->isInt', 1, 1),
        (r'Token::(?:simpleMatch|Match)\(parent,\s*("(?:[^"\\]|\\.)*")\)', r'tok_is(op, \1)', 3),
        (r'\bastIsIntegral\(parent, true\)', 'parent_integral', 1, 1),
        (r'\bvalue\.(intvalue|bound)\b', r'value->\1', 3),
        (r'\bValue::Bound::(Upper|Lower|Point)\b', r'BOUND_\1', 1, 1),
        (r'\bsetTokenValue\(parent, std::move\(value\), settings\)\s*;', '*out = *value; *set = 1;', 1, 1),
    ], ID)
    if re.search(r'\bvalue\.|parent\b|Token::|std::|settings', extract.mask(t)):
        raise extract.ExtractError("K51: not fully lowered: %r" % re.findall(r'[^\n]*(?:\bvalue\.|parent\b|Token::|std::|settings)[^\n]*', extract.mask(t))[:3])
    kb.rules_fired = n
    fn = "static void absorb_block(struct VValue *value, const char *op, _Bool parent_integral, struct VValue *out, _Bool *set)\n{\n%s\n}\n" % extract.strip_comments(t)
    text = _common.BASE + PRELUDE + fn
    extract.residue_scan(text, ID)
    kb.ctext = text + HARNESS
    kb.job("absorb", "h_absorb", unwind=6, replay="abs", solver="z3", note="loop-free region; operators * & && || (and + | as controls), every value of both operands")
    kb.job("cover", "h_cover", kind="cover", unwind=6)
    kb.assumptions += ["region interface: a copy of one operand's value (kind, bound, integer flag, intvalue), the parent's operator spelling and astIsIntegral(parent); integer operands on 64 bits",
                       "only known values make a universal claim; possible / impossible values are checked for their kind and bound only"]

    def rp(inputs, ctx):
        op = int(inputs.get("g_in_op", 0) or 0)
        if op > 3:
            return "none", "control operator", ""
        rc, o, cmd = native.compile_run("replay_K51", REPLAY_CPP, [["*", "&", "&&", "||"][op], str(inputs.get("g_in_x", 0)), str(max(-2147483648, min(2147483647, int(inputs.get("g_in_y", 0)))))])
        return native.verdict_from_rc(rc, o), o, cmd
    kb.replayers["abs"] = rp
    return kb
