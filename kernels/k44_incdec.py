"""K44  the `++` and `--` blocks of ValueFlow::setTokenValue (lib/vf_settokenvalue.cpp): the value of a prefix increment /
decrement expression from a value of its operand.

Facts about an integer operand x (ValueFlow::Value kind and bound):
    Known v            x == v
    Impossible Point v x != v          Impossible Upper v   x <= v never happens (x > v)      Impossible Lower v   x >= v never (x < v)
    Possible ...       no universal claim (unconstrained here)
Ghost: x is any value of the operand's type that satisfies the fact, in an execution free of undefined behaviour (signed
overflow does not happen; unsigned operands wrap around).  Contract: the value the block hands on for `++x` / `--x` is a true
fact about the result, and the block does no undefined arithmetic.  ValueFlow::truncateIntValue is replaced by its contract (K01);
Value::invertBound is extracted from lib/vfvalue.h; the destination size is an oracle (1, 2, 4 or 8 bytes, or 0 = unknown).
"""
import re

from vlib import extract, native
from vlib.kernel import KernelBuild, located_rules
from . import _common
from . import k01_truncate

ID = "K44"
SERVES = ["C01", "C03", "C13"]
TITLE = "value of ++x / --x from a value of x: sound for every operand value, including unsigned wrap-around"

PRELUDE = r'''
enum VKind { K_KNOWN, K_POSSIBLE, K_IMPOSSIBLE };
enum VBound { BOUND_Upper, BOUND_Lower, BOUND_Point };
struct VValue { enum VKind kind; enum VBound bound; bigint intvalue; };
'''

HARNESS = r'''
bigint g_in_v, g_in_x; int g_in_kind, g_in_bound, g_in_sz, g_in_sign, g_in_ptr, g_in_hasdst, g_in_dec;
static _Bool in_type(bigint x, size_t sz, _Bool sgn) {
    if (sz >= 8) return sgn ? 1 : 1;       /* 8-byte unsigned values are carried as 64-bit patterns */
    if (sgn) return x >= -(1LL << (8 * sz - 1)) && x < (1LL << (8 * sz - 1));
    return x >= 0 && x < (1LL << (8 * sz));
}
static _Bool fact(const struct VValue *v, bigint x) {
    if (v->kind == K_KNOWN) return x == v->intvalue;
    if (v->kind == K_POSSIBLE) return 1;
    return v->bound == BOUND_Point ? x != v->intvalue : v->bound == BOUND_Upper ? x > v->intvalue : x < v->intvalue;
}
static void h_run(_Bool dec) {
    struct VValue v; v.kind = (enum VKind)nondet_int(); v.bound = (enum VBound)nondet_int(); v.intvalue = nondet_bigint();
    __CPROVER_assume(v.kind >= K_KNOWN && v.kind <= K_IMPOSSIBLE && v.bound >= BOUND_Upper && v.bound <= BOUND_Point);
    __CPROVER_assume(v.kind != K_KNOWN || v.bound == BOUND_Point);           /* a known value is a point */
    struct ValueType dst; dst.sign = (enum Sign)nondet_int(); dst.pointer = nondet_bool() ? 1 : 0; dst.type = VType_INT; dst.bits = 0; dst.constness = 0;
    __CPROVER_assume(dst.sign == Sign_UNKNOWN_SIGN || dst.sign == Sign_SIGNED || dst.sign == Sign_UNSIGNED);
    _Bool has_dst = nondet_bool(); size_t sz = nondet_size_t(); __CPROVER_assume(sz == 0 || sz == 1 || sz == 2 || sz == 4 || sz == 8);
    /* this harness decides integer operands of known size and signedness; pointers, plain char of unknown sign and unknown types are run for safety only */
    _Bool decided = has_dst && dst.pointer == 0 && dst.sign != Sign_UNKNOWN_SIGN && sz != 0;
    _Bool sgn = dst.sign == Sign_SIGNED;
    bigint x = nondet_bigint();
    if (decided) {
        __CPROVER_assume(in_type(x, sz, sgn) && in_type(v.intvalue, sz, sgn));
        __CPROVER_assume(fact(&v, x));
        /* executions free of undefined behaviour: a signed operand does not overflow */
        if (sgn) __CPROVER_assume(dec ? (sz == 8 ? x != LLONG_MIN : x > -(1LL << (8 * sz - 1))) : (sz == 8 ? x != LLONG_MAX : x < (1LL << (8 * sz - 1)) - 1));
    }
    g_in_v = v.intvalue; g_in_x = x; g_in_kind = v.kind; g_in_bound = v.bound; g_in_sz = (int)sz; g_in_sign = dst.sign; g_in_ptr = dst.pointer; g_in_hasdst = has_dst; g_in_dec = dec;
    _Bool skipped = 0;
    if (dec) dec_block(&v, has_dst ? &dst : NULL, sz, &skipped); else inc_block(&v, has_dst ? &dst : NULL, sz, &skipped);
    if (skipped || !decided) return;
    /* the result of ++x / --x in the operand's type */
    bigint y;
    if (sgn || sz == 8) y = dec ? (bigint)((biguint)x - 1) : (bigint)((biguint)x + 1);
    else { biguint m = (1ULL << (8 * sz)) - 1; y = (bigint)(((biguint)x + (dec ? m : 1ULL)) & m); }
    if (sz == 8 && !sgn) return;          /* 64-bit unsigned: ordering facts are about bit patterns above LLONG_MAX, not decided */
    __CPROVER_assert(fact(&v, y), "the value handed on for ++x / --x is a true fact about the result for every operand value the input fact allows");
}
void h_inc(void) { h_run(0); }
void h_dec(void) { h_run(1); }
void h_cover(void) {
    struct VValue v; v.kind = K_IMPOSSIBLE; v.bound = BOUND_Lower; v.intvalue = 10; struct ValueType dst; dst.sign = Sign_UNSIGNED; dst.pointer = 0; dst.type = VType_INT; _Bool sk = 0;
    inc_block(&v, &dst, 4, &sk);
    __CPROVER_assert(!(!sk && v.intvalue == 11 && v.bound == BOUND_Lower), "COVER: x < 10 gives ++x < 11 for an unsigned operand");
    v.kind = K_IMPOSSIBLE; v.bound = BOUND_Upper; v.intvalue = 5; sk = 0;
    inc_block(&v, &dst, 4, &sk);
    __CPROVER_assert(!sk, "COVER: x > 5 on an unsigned operand says nothing about ++x (skipped)");
    v.kind = K_KNOWN; v.bound = BOUND_Point; v.intvalue = 255; sk = 0;
    inc_block(&v, &dst, 1, &sk);
    __CPROVER_assert(!(!sk && v.intvalue == 0), "COVER: unsigned char 255 is incremented to 0");
}
'''

HARNESS_WRITE = r'''
/* ValueFlowAnalyzer::writeValue: the tracked variable after the statement ++x / --x (forward direction) */
void h_write(void) {
    struct VValue v; v.kind = (enum VKind)nondet_int(); v.bound = (enum VBound)nondet_int(); v.intvalue = nondet_bigint();
    __CPROVER_assume(v.kind >= K_KNOWN && v.kind <= K_IMPOSSIBLE && v.bound >= BOUND_Upper && v.bound <= BOUND_Point);
    __CPROVER_assume(v.kind != K_KNOWN || v.bound == BOUND_Point);
    struct ValueType dst; dst.sign = (enum Sign)nondet_int(); dst.pointer = nondet_bool() ? 1 : 0; dst.type = nondet_bool() ? VType_BOOL : VType_INT; dst.bits = 0; dst.constness = 0;
    __CPROVER_assume(dst.sign == Sign_UNKNOWN_SIGN || dst.sign == Sign_SIGNED || dst.sign == Sign_UNSIGNED);
    _Bool has_dst = nondet_bool(), dec = nondet_bool(), reverse = nondet_bool(); size_t sz = nondet_size_t(); __CPROVER_assume(sz == 0 || sz == 1 || sz == 2 || sz == 4 || sz == 8);
    if (dst.type == VType_BOOL) {
        /* ++b / --b on a _Bool (C11 6.5.3.1, 6.3.1.2): the new value is (b + 1) != 0, i.e. 1, and (b - 1) != 0, i.e. !b */
        __CPROVER_assume(dst.sign == Sign_UNKNOWN_SIGN && sz == 1);
        bigint xb = nondet_bigint(); __CPROVER_assume(xb == 0 || xb == 1);
#if defined(CLASS_WRAP)
        __CPROVER_assume(0);
#endif
        if (reverse || !has_dst || dst.pointer != 0 || v.kind == K_POSSIBLE) { write_block(&v, !dec, reverse, has_dst ? &dst : NULL, sz); return; }
        __CPROVER_assume(fact(&v, xb));
        g_in_v = v.intvalue; g_in_x = xb; g_in_kind = v.kind; g_in_bound = v.bound; g_in_sz = 1; g_in_sign = 0; g_in_ptr = 0; g_in_hasdst = 1; g_in_dec = dec;
        write_block(&v, !dec, reverse, &dst, sz);
        __CPROVER_assert(fact(&v, dec ? (xb == 0) : 1), "the value of a _Bool variable after ++b / --b is a true fact for every value the input fact allows");
        return;
    }
    _Bool decided = !reverse && has_dst && dst.pointer == 0 && dst.sign != Sign_UNKNOWN_SIGN && sz != 0 && sz != 8;
    _Bool sgn = dst.sign == Sign_SIGNED;
    bigint x = nondet_bigint();
    if (decided) {
        __CPROVER_assume(in_type(x, sz, sgn) && in_type(v.intvalue, sz, sgn));
        __CPROVER_assume(fact(&v, x));
        if (sgn) __CPROVER_assume(dec ? x > -(1LL << (8 * sz - 1)) : x < (1LL << (8 * sz - 1)) - 1);
    }
    _Bool wrap_class = decided && !sgn && v.kind == K_IMPOSSIBLE && v.bound == (dec ? BOUND_Lower : BOUND_Upper);
#if defined(CLASS_WRAP)
    __CPROVER_assume(wrap_class);
#elif defined(CLASS_REST)
    __CPROVER_assume(!wrap_class);
#endif
    g_in_v = v.intvalue; g_in_x = x; g_in_kind = v.kind; g_in_bound = v.bound; g_in_sz = (int)sz; g_in_sign = dst.sign; g_in_ptr = dst.pointer; g_in_hasdst = has_dst; g_in_dec = dec;
    write_block(&v, !dec, reverse, has_dst ? &dst : NULL, sz);
    if (!decided) return;
    bigint y;
    if (sgn) y = dec ? x - 1 : x + 1;
    else { biguint m = (1ULL << (8 * sz)) - 1; y = (bigint)(((biguint)x + (dec ? m : 1ULL)) & m); }
    __CPROVER_assert(fact(&v, y), "the value of the variable after ++x / --x is a true fact for every value the input fact allows");
}
'''

REPLAY_CPP = r'''
#include "settings.h"
#include "tokenize.h"
#include "tokenlist.h"
#include "token.h"
#include "errorlogger.h"
#include "color.h"
#include <cstdio>
#include <cstdlib>
#include <string>
struct Log : ErrorLogger {
    void reportOut(const std::string &, Color) override {}
    void reportErr(const ErrorMessage &) override {}
    void reportMetric(const std::string &) override {}
};
/* argv: type-name  guard-operator  bound  op(++/--)  result-of-the-operation-for-a-witness : `if (x GUARD bound) { if (OPx == result) ...` must not be "always false" */
int main(int argc, char **argv) {
    const std::string ty = argv[1], guard = argv[2], bound = argv[3], op = argv[4], res = argv[5];
    const bool stmt = argc > 6 && std::string(argv[6]) == "stmt";
    const std::string code = stmt ? "void g(void); void f(" + ty + " x) { if (x " + guard + " " + bound + ") { " + op + "x; if (x == " + res + ") { g(); } } }"
                                  : "void g(void); void f(" + ty + " x) { if (x " + guard + " " + bound + ") { if (" + op + "x == " + res + ") { g(); } } }";
    Settings settings; Log log;
    Tokenizer tokenizer(TokenList(settings, Standards::Language::C), log);
    tokenizer.list.appendFileIfNew("t.c");
    if (!tokenizer.list.createTokensFromBuffer(code.data(), code.size()) || !tokenizer.simplifyTokens1("")) { printf("tokenizing failed\n"); return 2; }
    printf("%s\n", code.c_str());
    for (const Token *tok = tokenizer.tokens(); tok; tok = tok->next()) {
        if (tok->str() != "==") continue;
        if (!tok->hasKnownIntValue()) { printf("the comparison has no known value\n"); return 0; }
        printf("the comparison has the known value %lld although a witness value of x makes it true\n", (long long)tok->getKnownIntValue());
        return tok->getKnownIntValue() == 0 ? 1 : 0;
    }
    printf("no comparison token\n"); return 2;
}
'''


def build(ctx):
    kb = KernelBuild(ID, TITLE)
    enums, _ = _common.valuetype_enums()
    vts, vtloc = _common.valuetype_struct()
    trunc, n = k01_truncate.truncate_with_contract(kb, ID)
    csign, kcs = _common.conversion_sign(kb, ID); n += kcs
    # Value::invertBound
    vh = extract.strip_comments(extract.read("lib/vfvalue.h"))
    mi = re.search(r'void invertBound\(\)\s*\{(.*?)\n        \}', vh, re.S)
    if not mi:
        raise extract.ExtractError("vfvalue.h: invertBound not found")
    ib, k = extract.apply_rules(mi.group(1), [(r'\bBound::(Upper|Lower|Point)\b', r'BOUND_\1', 4), (r'(?<![\w>])bound\b', 'self->bound', 4)], ID + ".invertBound"); n += sum(c for _, c in k)
    kb.functions.append({"name": "ValueFlow::Value::invertBound", "where": "lib/vfvalue.h", "sha": "", "kind": "function"})
    inv = "static void Value_invertBound(struct VValue *self) {%s\n}\n" % ib
    f = extract.locate_function("lib/vf_settokenvalue.cpp", r'^\s*void\s+setTokenValue\s*\(\s*Token\s*\*\s*tok\s*,')
    m = extract.mask(f.text)
    src = extract.read("lib/vf_settokenvalue.cpp")
    blocks = {}
    for op, name in (("++", "inc_block"), ("--", "dec_block")):
        hs = list(re.finditer(r'else if \(parent->str\(\) == "%s"\)\s*\{' % re.escape(op), extract.mask(f.text, keep_strings=True)))
        if len(hs) != 1:
            raise extract.ExtractError("setTokenValue: branch for %s found %d times" % (op, len(hs)))
        ob = hs[0].end() - 1
        cb = extract.match_brace(f.text, ob, m)
        branch = f.text[ob:cb + 1]
        bm = extract.mask(branch)
        # the branch must be: loop over the operand's values, copy, prefix test, the block, float alternative, hand-over
        inner = list(re.finditer(r'if \(v\.isIntValue\(\) \|\| v\.isSymbolicValue\(\)\)\s*\{', bm))
        if len(inner) != 1 or not re.search(r'if \(parent == tok->previous\(\)\)\s*\{', bm) or len(re.findall(r'setTokenValue\(parent, std::move\(v\), settings\);', bm)) != 1:
            raise extract.ExtractError("setTokenValue %s branch: unexpected shape" % op)
        io = inner[0].end() - 1
        ic = extract.match_brace(branch, io, bm)
        reg = extract.Located("lib/vf_settokenvalue.cpp", branch[io + 1:ic], f.start + ob + io + 1, f.start + ob + ic, src)
        kb.add_located("ValueFlow::setTokenValue [%s block: integer / symbolic value]" % op, reg, "region")
        t, k = located_rules(reg, _common.VT_RULES + [
            (r'\bconst ValueType \*dst = tok->valueType\(\)\s*;', 'const struct ValueType *dst = dst_in;', 1, 1),
            (r'\bdst->getSizeOf\(settings,\s*ValueType::Accuracy::ExactOrZero,\s*ValueType::SizeOf::Pointer\)', 'sz_in', 1, 1),
            (r'\bValueFlow::truncateIntValue\(', 'truncateIntValue(', 1, 1),
        _common.CONVERSION_SIGN_CALL,
            (r'\bv\.isImpossible\(\)', '(v->kind == K_IMPOSSIBLE)', 0),
            (r'\bValueFlow::Value::Bound::(Upper|Lower|Point)\b', r'BOUND_\1', 1),
            (r'\bv\.invertBound\(\)', 'Value_invertBound(v)', 1, 1),
            (r'\bv\.(bound|intvalue)\b', r'v->\1', 3),
            (r'\bcontinue\s*;', '{ *skipped = 1; return; }', 0),
        ], ID + "." + name); n += k
        if re.search(r'\bv\.|tok->|ValueFlow|settings|std::', extract.mask(t)):
            raise extract.ExtractError("K44 %s: not fully lowered: %r" % (name, re.findall(r'[^\n]*(?:\bv\.|tok->|ValueFlow|settings|std::)[^\n]*', extract.mask(t))[:3]))
        blocks[name] = "static void %s(struct VValue *v, const struct ValueType *dst_in, size_t sz_in, _Bool *skipped)\n{\n%s\n}\n" % (name, extract.strip_comments(t))
    # the statement-level twin: ValueFlowAnalyzer::writeValue (lib/vf_analyzers.cpp), the block for ++ / -- on the tracked variable
    fa = extract.locate_function("lib/vf_analyzers.cpp", r'^\s*virtual void writeValue\(ValueFlow::Value\* value, const Token\* tok, Direction d\) const')
    ma = extract.mask(fa.text)
    s = list(re.finditer(r'bool inc = tok->astParent\(\)->str\(\) == "\+\+"\s*;', extract.mask(fa.text, keep_strings=True)))
    e = list(re.finditer(r'value->errorPath\.emplace_back\(tok, tok->str\(\) \+', extract.mask(fa.text, keep_strings=True)))
    if len(s) != 1 or len(e) != 1 or e[0].start() < s[0].end():
        raise extract.ExtractError("writeValue: inc/dec block anchors not found")
    if not re.search(r'else if \(tok->astParent\(\)->tokType\(\) == Token::eIncDecOp\)\s*\{\s*$', extract.strip_comments(fa.text[:s[0].start()]).rstrip() + "\n"):
        raise extract.ExtractError("writeValue: the inc/dec block is no longer guarded by `tokType() == Token::eIncDecOp`")
    rega = extract.Located("lib/vf_analyzers.cpp", fa.text[s[0].start():e[0].start()], fa.start + s[0].start(), fa.start + e[0].start(), extract.read("lib/vf_analyzers.cpp"))
    kb.add_located("ValueFlowAnalyzer::writeValue [++ / -- block]", rega, "region")
    ta, k = located_rules(rega, _common.VT_RULES + [
        (r'bool inc = tok->astParent\(\)->str\(\) == "\+\+"\s*;', '_Bool inc = inc_in;', 1, 1),
        (r'const std::string opName\([^;]*\)\s*;', '', 1, 1),
        (r'\bd == Direction::Reverse\b', 'reverse', 1, 1),
        (r'\bd == Direction::Forward\b', '!reverse', 0, 1),
        (r'\bvalue->isIntValue\(\)', '1 /* an integer value */', 0, 1),
        (r'\bvalue->isImpossible\(\)', '(v->kind == K_IMPOSSIBLE)', 0, 1),
        (r'\bconst ValueType \*dst = tok->valueType\(\)\s*;', 'const struct ValueType *dst = dst_in;', 1, 1),
        (r'\bdst->getSizeOf\(settings,\s*ValueType::Accuracy::ExactOrZero,\s*ValueType::SizeOf::Pointer\)', 'sz_in', 1, 1),
        (r'\bValueFlow::truncateIntValue\(', 'truncateIntValue(', 1, 1),
        _common.CONVERSION_SIGN_CALL,
        (r'\bValueFlow::Value::Bound::(Upper|Lower|Point)\b', r'BOUND_\1', 1),
        (r'\bvalue->invertBound\(\)', 'Value_invertBound(v)', 1, 1),
        (r'\bvalue->(bound|intvalue)\b', r'v->\1', 3),
    ], ID + ".writeValue"); n += k
    # the region ends inside `if (dst) {` (before the error-path note): close that brace
    ta = extract.strip_comments(ta).rstrip()
    if re.search(r'\bvalue->|tok->|ValueFlow|settings|std::|Direction', extract.mask(ta)):
        raise extract.ExtractError("K44 writeValue: not fully lowered: %r" % re.findall(r'[^\n]*(?:\bvalue->|tok->|ValueFlow|settings|std::|Direction)[^\n]*', extract.mask(ta))[:3])
    opens = extract.mask(ta).count('{') - extract.mask(ta).count('}')
    if opens != 1:
        raise extract.ExtractError("K44 writeValue: expected the region to end inside one open block (if (dst)), found %d" % opens)
    blocks["write_block"] = "static void write_block(struct VValue *v, _Bool inc_in, _Bool reverse, const struct ValueType *dst_in, size_t sz_in)\n{\n%s\n}\n}\n" % ta
    kb.rules_fired = n
    text = _common.BASE + enums + vts + PRELUDE + trunc + csign + inv + blocks["inc_block"] + blocks["dec_block"] + blocks["write_block"]
    extract.residue_scan(text, ID)
    kb.ctext = text + HARNESS + HARNESS_WRITE
    kb.job("stmt.rest", "h_write", replace=["truncateIntValue"], defines=["CLASS_REST"], replay="stmt",
           note="statement-level ++x / x++ / --x in the forward analysis: every fact except the recorded class")
    kb.job("stmt.wrap", "h_write", kind="known", finding="K44.stmt-unsigned-wrap", props=["C01"], replace=["truncateIntValue"], defines=["CLASS_WRAP"], expect_fail=["h_write.assertion"], replay="stmt",
           note="recorded finding class: unsigned operand, impossible values below (++) / above (--) a bound")
    kb.job("inc", "h_inc", replace=["truncateIntValue"], replay="incdec", note="loop-free region; every value kind, bound, operand size (1/2/4/8) and signedness, every operand value")
    kb.job("dec", "h_dec", replace=["truncateIntValue"], replay="incdec", note="loop-free region; as inc")
    kb.job("cover", "h_cover", kind="cover", replace=["truncateIntValue"])
    kb.assumptions += ["region interface: a copy of one value of the operand (kind, bound, intvalue), the operand's ValueType (sign, pointer) and its size (oracle for ValueType::getSizeOf)",
                       "decided for integer operands of known signedness and size; pointers, plain char of unknown sign, unknown types and possible values are checked for undefined arithmetic only; symbolic values are treated like integer offsets",
                       "64-bit unsigned operands: ordering facts above LLONG_MAX are not decided"]

    def rp(inputs, ctx, mode="expr"):
        sz, sign, kind, bound, dec = (int(inputs.get(k, 0) or 0) for k in ("g_in_sz", "g_in_sign", "g_in_kind", "g_in_bound", "g_in_dec"))
        names = {(1, 2): "unsigned char", (2, 2): "unsigned short", (4, 2): "unsigned int", (1, 1): "signed char", (2, 1): "short", (4, 1): "int", (8, 1): "long long", (8, 2): "unsigned long long"}
        # enum Sign: UNKNOWN_SIGN 0, SIGNED 1, UNSIGNED 2; kind 2 = impossible; bound 0 Upper (x > v), 1 Lower (x < v)
        if kind != 2 or bound not in (0, 1) or (sz, sign) not in names:
            return "none", "counterexample is not an impossible-bound fact on a plain integer type: no source-level replay", ""
        v, x = int(inputs.get("g_in_v", 0)), int(inputs.get("g_in_x", 0))
        bits = 8 * sz
        y = (x + (-1 if dec else 1)) & ((1 << bits) - 1) if sign == 2 else x + (-1 if dec else 1)
        suffix = "U" if sign == 2 else ""
        rc, o, cmd = native.compile_run("replay_K44", REPLAY_CPP, [names[(sz, sign)], ">" if bound == 0 else "<", "%d%s" % (v, suffix), "--" if dec else "++", "%d%s" % (y, suffix), mode])
        return native.verdict_from_rc(rc, o), o, cmd
    kb.replayers["incdec"] = rp
    kb.replayers["stmt"] = lambda inputs, ctx: rp(inputs, ctx, "stmt")
    return kb
