"""K58  size of a string literal: Tokenizer::simplifyString (lib/tokenize.cpp) followed by Token::getStrArraySize
(lib/token.cpp, with getStringCharLiteral of lib/utils.h and MathLib::isOctalDigit of lib/mathlib.cpp).

The tokenizer rewrites octal and hexadecimal escape sequences of every string literal to the character they denote;
`sizeof("...")`, the dimension of `char a[] = "..."` and the buffer-overrun checks then count the characters of the rewritten
spelling.  Contract (C10, C11 6.4.4.4 / 6.4.5): for a well-formed literal the count is the number of characters of the
string (every escape sequence is ONE character, a hexadecimal escape takes all following hexadecimal digits) plus the
terminating null character.

`std::string` is a buffer with an explicit length; `str.replace(pos, n, <one char | "a">)`, `substr` + `istringstream >> std::hex/oct`
and `find` are prelude models (listed below).  Bounded: every literal spelling of up to N characters between the quotes.
"""
import re

from vlib import extract, native
from vlib.kernel import KernelBuild, located_rules
from . import _common

ID = "K58"
SERVES = ["C10", "C13"]
TITLE = "array size of a string literal == number of its characters + 1, escape sequences by C11 6.4.4.4"

PRELUDE = r'''
#define SCAP (@N@ + 4)
/* std::string::replace(pos, n, <count characters>): the buffer keeps its capacity SCAP, the terminator is maintained */
static void vstr_replace(char *s, size_t *len, size_t pos, size_t n, const char *with, size_t count)
{
    __CPROVER_assert(pos <= *len, "std::string::replace: pos <= size() (else std::out_of_range)");
    if (n > *len - pos) n = *len - pos;
    char tmp[SCAP + 1]; size_t k = 0;
    for (size_t i = 0; i < SCAP; i++) if (i < pos) tmp[k++] = s[i];
    for (size_t i = 0; i < 2; i++) if (i < count && k < SCAP) tmp[k++] = with[i];
    for (size_t i = 0; i < SCAP; i++) if (i >= pos + n && i < *len && k < SCAP) tmp[k++] = s[i];
    for (size_t i = 0; i < SCAP; i++) s[i] = i < k ? tmp[i] : 0;
    s[SCAP] = 0;
    *len = k;
}
static void vstr_replace1(char *s, size_t *len, size_t pos, size_t n, char c) { char w[2]; w[0] = c; w[1] = 0; vstr_replace(s, len, pos, n, w, 1); }
/* `std::istringstream istr(str.substr(pos, n)); istr >> std::hex|std::oct >> c;` on a run of digits of that base:
   the number; INT_MAX when it does not fit an int (C++11 num_get); c is left alone when there is no digit */
static int vstr_stream_int(const char *s, size_t len, size_t pos, size_t n, int base, int c)
{
    __CPROVER_assert(pos <= len, "std::string::substr: pos <= size() (else std::out_of_range)");
    if (n > len - pos) n = len - pos;
    long long v = 0; _Bool any = 0, over = 0;
    for (size_t i = 0; i < SCAP; i++) if (i < n) {
        unsigned char ch = (unsigned char)s[pos + i];
        int d = (ch >= '0' && ch <= '9') ? ch - '0' : (ch >= 'a' && ch <= 'f') ? ch - 'a' + 10 : (ch >= 'A' && ch <= 'F') ? ch - 'A' + 10 : 99;
        if (d >= base) break;
        any = 1; v = v * base + d; if (v > INT_MAX) { over = 1; v = INT_MAX; }
    }
    if (!any) return c;
    return over ? INT_MAX : (int)v;
}
static size_t vstr_find(const char *s, size_t len, char q)
{
    for (size_t i = 0; i < SCAP; i++) if (i < len && s[i] == q) return i;
    return (size_t)-1;
}
'''

HARNESS = r'''
#define N @N@
unsigned char g_in_s[N + 3]; size_t g_in_len;
/* reference: number of characters of a well-formed narrow string literal "..." + 1; 0 when outside the subset */
static int strsize_ref(const char *s, size_t n)
{
    if (n < 2 || s[0] != '"' || s[n - 1] != '"') return 0;
    size_t pos = 1; int count = 0;
    for (int it = 0; it < N + 1; it++) {
        if (pos >= n - 1) break;
        unsigned char c = (unsigned char)s[pos];
        if (c == '"' || c == '\n' || c == 0) return 0;
        if (c != '\\') { pos++; count++; continue; }
        pos++;
        if (pos >= n - 1) return 0;
        unsigned char e = (unsigned char)s[pos]; pos++;
        if (e == '\'' || e == '"' || e == '?' || e == '\\' || e == 'a' || e == 'b' || e == 'f' || e == 'n' || e == 'r' || e == 't' || e == 'v') { count++; continue; }
        if (e >= '0' && e <= '7') {
            int v = e - '0';
            for (int k = 0; k < 2; k++) if (pos < n - 1 && s[pos] >= '0' && s[pos] <= '7') { v = v * 8 + (s[pos] - '0'); pos++; } else break;
            if (v > 255) return 0;        /* out of range for char: constraint violation */
            count++; continue;
        }
        if (e == 'x') {
            unsigned v = 0; int nd = 0;
            for (int k = 0; k < N; k++) {
                if (pos >= n - 1) break;
                unsigned char h = (unsigned char)s[pos];
                int d = (h >= '0' && h <= '9') ? h - '0' : (h >= 'a' && h <= 'f') ? h - 'a' + 10 : (h >= 'A' && h <= 'F') ? h - 'A' + 10 : 99;
                if (d > 15) break;
                if (v < 4096) v = v * 16 + (unsigned)d;
                nd++; pos++;
            }
            if (nd == 0 || v > 255) return 0;
#ifdef CLASS_HEX_LONG
            if (nd <= 2) return 0;
#else
            if (nd > 2) return 0;      /* recorded finding K58.hex-escape-long: see the job of that name */
#endif
            count++; continue;
        }
        return 0;      /* universal character names and unknown escapes: not part of the subset */
    }
    if (pos != n - 1) return 0;
    return count + 1;
}
static size_t mk_literal(char *buf) {
    size_t n = nondet_size_t(); __CPROVER_assume(n >= 2 && n <= N + 2);
    for (int i = 0; i < N + 2; i++) { char c = nondet_char(); buf[i] = (size_t)i < n ? c : 0; }
    buf[N + 2] = 0;
    for (int i = 0; i < N + 3; i++) g_in_s[i] = (unsigned char)buf[i];
    g_in_len = n;
    return n;
}
void h_strsize(void) {
    char src[SCAP + 1]; for (int i = 0; i <= SCAP; i++) src[i] = 0;
    size_t n = mk_literal(src);
    int want = strsize_ref(src, n);
    char out[SCAP + 1]; size_t out_len = 0;
    simplifyString(src, n, out, &out_len);
    __CPROVER_assert(out_len <= n, "simplifyString never makes the spelling longer");
    if (want == 0) return;
    __CPROVER_assert(out_len >= 2 && out[0] == '"' && out[out_len - 1] == '"', "the rewritten spelling is still a quoted literal");
    int got = getStrArraySize(out, out_len);
    __CPROVER_assert(got == want, "array size of the literal == number of characters (each escape sequence is one character) + 1");
}
void h_cover(void) {
    char src[SCAP + 1]; for (int i = 0; i <= SCAP; i++) src[i] = 0;
    size_t n = mk_literal(src);
    int want = strsize_ref(src, n);
    char out[SCAP + 1]; size_t out_len = 0;
    simplifyString(src, n, out, &out_len);
    __CPROVER_assert(!(want == 2 && n == 6 && src[2] == 'x'), "COVER: \"\\xHH\"");
    __CPROVER_assert(!(want == 3 && n == 7 && src[1] == '\\' && src[2] == '1'), "COVER: an octal escape followed by a character");
    __CPROVER_assert(!(want == N + 1), "COVER: a literal of N plain characters");
    __CPROVER_assert(!(want != 0 && out_len < n), "COVER: a spelling is rewritten");
}
'''

REPLAY_CPP = r'''
#include "tokenize.h"
#include "token.h"
#include "tokenlist.h"
#include "settings.h"
#include "errorlogger.h"
#include "color.h"
#include <cstdio>
#include <cstdlib>
#include <string>
struct Log : ErrorLogger {
    void reportOut(const std::string &, Color) override {}
    void reportErr(const ErrorMessage &) override {}
    void reportMetric(const std::string &) override {}
};
int main(int argc, char **argv) {
    const int want = atoi(argv[1]);
    std::string lit; for (int i = 2; i < argc; i++) lit += (char)atoi(argv[i]);
    const std::string code = "int f(void) { return sizeof(" + lit + "); }";
    printf("%s\n", code.c_str());
    Settings settings; settings.platform.set(Platform::Type::Unix64); Log log;
    Tokenizer tokenizer(TokenList(settings, Standards::Language::C), log);
    tokenizer.list.appendFileIfNew("t.c");
    if (!tokenizer.list.createTokensFromBuffer(code.data(), code.size()) || !tokenizer.simplifyTokens1("")) { printf("not tokenized\n"); return 0; }
    for (const Token *tok = tokenizer.tokens(); tok; tok = tok->next()) {
        if (tok->str() != "sizeof") continue;
        const Token *par = tok->next();
        if (!par->hasKnownIntValue()) { printf("sizeof has no known value\n"); return 0; }
        printf("cppcheck: sizeof is always %lld; a compiler: %d\n", (long long)par->getKnownIntValue(), want);
        return par->getKnownIntValue() == want ? 0 : 1;
    }
    return 0;
}
'''


def build(ctx):
    kb = KernelBuild(ID, TITLE)
    N = 6 if ctx.tier == "thorough" else 5
    n = 0
    # MathLib::isOctalDigit
    fo = extract.locate_function("lib/mathlib.cpp", r'^bool MathLib::isOctalDigit\(char c\)')
    kb.add_located("MathLib::isOctalDigit", fo)
    to, k = located_rules(fo, [(r'^bool MathLib::isOctalDigit\(char c\)', 'static _Bool isOctalDigit(char c)', 1, 1)], ID + ".isOctalDigit"); n += k
    # getStringCharLiteral
    fg = extract.locate_function("lib/utils.h", r'^inline static std::string getStringCharLiteral\(const std::string &str, char q\)')
    kb.add_located("getStringCharLiteral", fg)
    tg, k = located_rules(fg, [
        (r'^inline static std::string getStringCharLiteral\(const std::string &str, char q\)', 'static const char *getStringCharLiteral(const char *str, size_t str_len, char q, size_t *res_len)', 1, 1),
        (r'\bstr\.find\(q\)', 'vstr_find(str, str_len, q)', 1, 1),
        (r'return str\.substr\(quotePos \+ 1U, str\.size\(\) - quotePos - 2U\)\s*;',
         '{ size_t sp = quotePos + 1U, sn = str_len - quotePos - 2U; __CPROVER_assert(sp <= str_len, "std::string::substr: pos <= size()"); if (sn > str_len - sp) sn = str_len - sp; *res_len = sn; return str + sp; }', 1, 1),
    ], ID + ".getStringCharLiteral"); n += k
    # Token::getStrArraySize
    fa = extract.locate_function("lib/token.cpp", r'^nonneg int Token::getStrArraySize\(const Token \*tok\)')
    kb.add_located("Token::getStrArraySize", fa)
    ta, k = located_rules(fa, [
        (r'^\s*int Token::getStrArraySize\(const Token \*tok\)', 'static int getStrArraySize(const char *tok_str, size_t tok_str_len)', 1, 1),
        (r'\bassert\(tok != NULL\)\s*;', '', 1, 1),
        (r'\bassert\(tok->tokType\(\) == eString\)\s*;', '', 1, 1),
        (r'const std::string str\(getStringLiteral\(tok->str\(\)\)\)\s*;', 'size_t str_len; const char *str = getStringCharLiteral(tok_str, tok_str_len, \'"\', &str_len);   /* getStringLiteral: isStringLiteral(str) holds for a string token */', 1, 1),
        (r'\bstr\.size\(\)', 'str_len', 1, 1),
    ], ID + ".getStrArraySize"); n += k
    # Tokenizer::simplifyString
    fs = extract.locate_function("lib/tokenize.cpp", r'^std::string Tokenizer::simplifyString\(const std::string &source\)')
    kb.add_located("Tokenizer::simplifyString", fs)
    ts, k = located_rules(fs, [
        (r'^std::string Tokenizer::simplifyString\(const std::string &source\)', 'static void simplifyString(const char *source, size_t source_len, char *str, size_t *res_len)', 1, 1),
        (r'std::string str = source\s*;', 'size_t str_len = source_len; for (size_t q = 0; q <= SCAP; q++) str[q] = q < source_len ? source[q] : 0;', 1, 1),
        (r'std::string::size_type', 'size_t', 1),
        (r'\bstr\.size\(\)', 'str_len', 2),
        (r'\bMathLib::isOctalDigit\b', 'isOctalDigit', 2),
        (r'std::istringstream istr\(str\.substr\(([^,]+),\s*([^)]+)\)\)\s*;\s*istr >> std::hex >> c\s*;', r'c = vstr_stream_int(str, str_len, \1, \2, 16, c);', 1, 1),
        (r'std::istringstream istr\(str\.substr\(([^,]+),\s*([^)]+)\)\)\s*;\s*istr >> std::oct >> c\s*;', r'c = vstr_stream_int(str, str_len, \1, \2, 8, c);', 1, 1),
        (r'\breplaceEscapeSequence\(str,\s*i,\s*sz,', 'replaceEscapeSequence(str, &str_len, i, sz,', 2, 2),
        (r'\bstr\.replace\(i,\s*str_len - i - 1U,\s*"a"\)\s*;', 'vstr_replace1(str, &str_len, i, str_len - i - 1U, \'a\');', 1, 1),
        (r'\breturn str\s*;', '*res_len = str_len; return;', 1, 1),
    ], ID + ".simplifyString"); n += k
    # replaceEscapeSequence
    fr = extract.locate_function("lib/tokenize.cpp", r'^static std::size_t replaceEscapeSequence\(std::string &str, std::size_t pos, std::size_t len, char c\)')
    kb.add_located("replaceEscapeSequence", fr)
    tr, k = located_rules(fr, [
        (r'^static size_t replaceEscapeSequence\(std::string &str, size_t pos, size_t len, char c\)', 'static size_t replaceEscapeSequence(char *str, size_t *str_len, size_t pos, size_t len, char c)', 1, 1),
        (r'const std::string repl = (\([^?]*\)) \? std::string\(("(?:[^"\\]|\\.)*")\) : std::string\(1U, c\)\s*;',
         r'char repl[3] = { 0, 0, 0 }; size_t repl_len; if \1 { repl_len = sizeof(\2) - 1; __CPROVER_assert(repl_len <= 2, "replacement fits the model buffer"); for (size_t k = 0; k < 2; k++) if (k < repl_len) repl[k] = \2[k]; } else { repl[0] = c; repl_len = 1; }', 1, 1),
        (r'\bstr\.replace\(pos,\s*len,\s*repl\)\s*;', 'vstr_replace(str, str_len, pos, len, repl, repl_len);', 1, 1),
        (r'\breturn repl\.size\(\)\s*;', 'return repl_len;', 1, 1),
    ], ID + ".replaceEscapeSequence"); n += k
    ts = tr + "\n" + ts
    for nm, t in (("simplifyString", ts), ("getStrArraySize", ta), ("getStringCharLiteral", tg)):
        if re.search(r'std::|\.replace|\.substr|istr|tok->', extract.mask(t)):
            raise extract.ExtractError("K58: %s not fully lowered: %r" % (nm, re.findall(r'[^\n]*(?:std::|\.replace|\.substr|istr|tok->)[^\n]*', extract.mask(t))[:3]))
    kb.rules_fired = n
    body = "\n".join(extract.strip_comments(x) for x in (to, tg, ta, ts)) + "\n"
    extract.residue_scan(body, ID)
    kb.ctext = _common.BASE + PRELUDE.replace("@N@", str(N)) + body + HARNESS.replace("@N@", str(N))
    kb.job("strsize", "h_strsize", kind="bounded", unwind=N + 7, timeout=900, replay="lit", mem_kb=12000000,
           note="every spelling of up to %d bytes between the quotes (all byte values); obligation for the well-formed narrow literals without universal character names" % N)
    kb.job("hexlong", "h_strsize", kind="known", finding="K58.hex-escape-long", props=["C10"], defines=["CLASS_HEX_LONG"], expect_fail=["h_strsize.assertion"],
           unwind=N + 7, timeout=900, replay="lit", mem_kb=12000000,
           note="recorded finding class: literals with a hexadecimal escape sequence of more than two digits")
    kb.job("cover", "h_cover", kind="cover", unwind=N + 7, timeout=900, mem_kb=12000000)
    kb.assumptions += ["std::string is a buffer with explicit length (embedded NUL characters allowed); replace / substr+istringstream / find are hand-written prelude models",
                       "the token is a string token (isStringLiteral holds), narrow literal without prefix; a prefix only shifts the first quote",
                       "the multiplication by the element size (Token::getStrSize) and the callers are not part of the obligation"]

    def rp(inputs, ctx):
        buf = inputs.get("g_in_s") or []
        ln = int(inputs.get("g_in_len", 0) or 0)
        bs = [int(b) & 0xff for b in buf[:ln]]
        want = ref_py(bytes(bs))
        if want == 0:
            return "undecided", "counterexample is outside the reference subset", ""
        rc, o, cmd = native.compile_run("replay_K58", REPLAY_CPP, [str(want)] + [str(b) for b in bs])
        return native.verdict_from_rc(rc, o), o, cmd
    kb.replayers["lit"] = rp
    return kb


def ref_py(s):
    n = len(s)
    if n < 2 or s[0:1] != b'"' or s[n - 1:n] != b'"':
        return 0
    pos, count = 1, 0
    while pos < n - 1:
        c = s[pos]
        if c in (34, 10, 0):
            return 0
        if c != 92:
            pos += 1; count += 1; continue
        pos += 1
        if pos >= n - 1:
            return 0
        e = s[pos]; pos += 1
        if e in b"'\"?\\abfnrtv":
            count += 1; continue
        if 48 <= e <= 55:
            v = e - 48; k = 0
            while k < 2 and pos < n - 1 and 48 <= s[pos] <= 55:
                v = v * 8 + s[pos] - 48; pos += 1; k += 1
            if v > 255:
                return 0
            count += 1; continue
        if e == ord('x'):
            v, nd = 0, 0
            while pos < n - 1 and s[pos] in b"0123456789abcdefABCDEF":
                v = v * 16 + int(chr(s[pos]), 16); nd += 1; pos += 1
            if nd == 0 or v > 255:
                return 0
            count += 1; continue
        return 0
    return count + 1
