"""K39  getExpressionRange and the verdict of valueFlowRightShift (lib/valueflow.cpp).

getExpressionRange(expr, &min, &max) computes a range for `&` and `%` expression trees; valueFlowRightShift gives `lhs >> N`
the KNOWN value 0 when the range of lhs is below 2^N.  Property C01: a definite value holds in every UB-free execution.

Ghost state: every token carries `ghost`, its value in an arbitrary UB-free execution.  The node under test is well formed
(harness assumption = the C semantics of the node): a known value equals the ghost; a binary `&` node's ghost is the bitwise
and of its operands' ghosts; a `%` node's ghost is the remainder (divisor non-zero); an operand of unsigned type has a
non-negative ghost.

Contract of getExpressionRange (the induction hypothesis for its recursive calls, which are replaced by it):
    returns true  ==>  (min given ==> *min <= expr->ghost)  and  (max given ==> expr->ghost <= *max and (*max >= 0 ==> expr->ghost >= 0))
The verdict region of valueFlowRightShift, with its call replaced by the same contract:
    known value 0 is set  ==>  0 <= lhs->ghost  and  (lhs->ghost >> rhs) == 0   (rhs in 0..63)
"""
import re

from vlib import extract, native
from vlib.kernel import KernelBuild, located_rules
from . import _common

ID = "K39"
SERVES = ["C01", "C13"]
TITLE = "getExpressionRange bounds every execution; valueFlowRightShift's known 0 follows from it"

PRELUDE = r'''
#include "vstr.h"
struct Value { bigint intvalue; };
struct Tok { const char *mStr; size_t mStrLen; const struct Tok *op1, *op2; _Bool hasKnown; struct Value known; const struct ValueType *vt; bigint ghost; };
static inline bigint BIG_MIN(bigint a, bigint b) { return b < a ? b : a; }   /* std::min on MathLib::bigint */
static inline const struct Value *Tok_getKnownInt(const struct Tok *t) { return t->hasKnown ? &t->known : NULL; }
#define RANGE_POST(expr, minvalue, maxvalue, ret) (!(ret) || (((minvalue) == NULL || *(minvalue) <= (expr)->ghost) && \
        ((maxvalue) == NULL || ((expr)->ghost <= *(maxvalue) && (*(maxvalue) < 0 || (expr)->ghost >= 0)))))
#ifdef TWIN
#undef RANGE_POST
#define RANGE_POST(expr, minvalue, maxvalue, ret) (!(ret) || ((maxvalue) == NULL || (expr)->ghost < *(maxvalue)))
#endif
'''

CONTRACT = r'''
__CPROVER_requires(__CPROVER_r_ok(expr, sizeof(*expr)))
__CPROVER_requires(minvalue == NULL || __CPROVER_w_ok(minvalue, sizeof(bigint)))
__CPROVER_requires(maxvalue == NULL || __CPROVER_w_ok(maxvalue, sizeof(bigint)))
__CPROVER_assigns(minvalue != NULL: *minvalue; maxvalue != NULL: *maxvalue)
__CPROVER_ensures(RANGE_POST(expr, minvalue, maxvalue, __CPROVER_return_value))
'''

HARNESS = r'''
bigint g_in_kind, g_in_g1, g_in_g2, g_in_known, g_in_hasKnown, g_in_rhs, g_in_lhsmax, g_in_type, g_in_c1known, g_in_c2known, g_in_c1has, g_in_c2has, g_in_c1uns, g_in_c2uns, g_in_wantmin, g_in_wantmax;
static char s_and[2] = "&", s_mod[2] = "%", s_other[2] = "x";
/* the node under test: arbitrary, and well formed (C semantics of the node in a UB-free execution) */
/* contract instrumentation (--dfcc) treats statics as arbitrary at the start of the checked function: set the spellings explicitly */
static void mk_strings(void) { s_and[0] = '&'; s_and[1] = 0; s_mod[0] = '%'; s_mod[1] = 0; s_other[0] = 'x'; s_other[1] = 0; }
static void mk_child(struct Tok *c, struct ValueType *vt) {
    c->mStr = s_other; c->mStrLen = 1; c->op1 = NULL; c->op2 = NULL; c->hasKnown = nondet_bool(); c->known.intvalue = nondet_bigint(); c->ghost = nondet_bigint();
    vt->sign = (enum Sign)nondet_int(); vt->type = (enum VType)nondet_int(); vt->pointer = 0; vt->bits = 0; vt->constness = 0;
    __CPROVER_assume(vt->sign >= Sign_UNKNOWN_SIGN && vt->sign <= Sign_UNSIGNED);
    c->vt = nondet_bool() ? vt : NULL;
    if (c->hasKnown) __CPROVER_assume(c->ghost == c->known.intvalue);
    if (c->vt && vt->sign == Sign_UNSIGNED) __CPROVER_assume(c->ghost >= 0);
}
static void mk_node(struct Tok *n, struct Tok *c1, struct Tok *c2, struct ValueType *v1, struct ValueType *v2) {
    mk_strings(); mk_child(c1, v1); mk_child(c2, v2);
    int kind = nondet_int(); __CPROVER_assume(kind >= 0 && kind <= 3);
    n->mStr = kind == 0 ? s_and : kind == 1 ? s_mod : s_other; n->mStrLen = 1;
    n->op1 = nondet_bool() ? c1 : NULL; n->op2 = nondet_bool() ? c2 : NULL;
    n->hasKnown = nondet_bool(); n->known.intvalue = nondet_bigint(); n->ghost = nondet_bigint(); n->vt = NULL;
    if (n->hasKnown) __CPROVER_assume(n->ghost == n->known.intvalue);
    if (kind == 0 && n->op1 && n->op2) __CPROVER_assume(n->ghost == (c1->ghost & c2->ghost));
    if (kind == 1 && n->op1 && n->op2) { __CPROVER_assume(c2->ghost != 0 && !(c1->ghost == LLONG_MIN && c2->ghost == -1)); __CPROVER_assume(n->ghost == c1->ghost % c2->ghost); }
    g_in_kind = kind; g_in_g1 = c1->ghost; g_in_g2 = c2->ghost; g_in_hasKnown = n->hasKnown; g_in_known = n->known.intvalue;
    g_in_c1has = c1->hasKnown; g_in_c1known = c1->known.intvalue; g_in_c2has = c2->hasKnown; g_in_c2known = c2->known.intvalue;
    g_in_c1uns = c1->vt && v1->sign == Sign_UNSIGNED; g_in_c2uns = c2->vt && v2->sign == Sign_UNSIGNED;
}
void h_range(void) {
    struct Tok n, c1, c2; struct ValueType v1, v2; mk_node(&n, &c1, &c2, &v1, &v2);
    bigint mn, mx; _Bool wmin = nondet_bool(), wmax = nondet_bool(); g_in_wantmin = wmin; g_in_wantmax = wmax;
    (void)getExpressionRange(&n, wmin ? &mn : NULL, wmax ? &mx : NULL);
}
void h_range_cover(void) {
    struct Tok n, c1, c2; struct ValueType v1, v2; mk_node(&n, &c1, &c2, &v1, &v2);
    bigint mn = 0, mx = 0; __CPROVER_assume(!n.hasKnown);
    _Bool r = getExpressionRange(&n, &mn, &mx);
    __CPROVER_assert(!(r && n.mStr == s_and), "COVER: a range is derived for an & node");
    __CPROVER_assert(!(r && n.mStr == s_mod), "COVER: a range is derived for a % node");
    __CPROVER_assert(!(r && n.mStr == s_and && mx == 7 && c1.ghost == 100), "COVER: mask 7 bounds an unknown operand");
}
/* verdict of valueFlowRightShift */
void h_rshift(void) {
    struct Tok lhs; struct ValueType vt; struct Platform pl; mk_strings();
    lhs.mStr = s_other; lhs.mStrLen = 1; lhs.op1 = lhs.op2 = NULL; lhs.hasKnown = nondet_bool(); lhs.known.intvalue = nondet_bigint(); lhs.ghost = nondet_bigint(); lhs.vt = &vt;
    vt.sign = (enum Sign)nondet_int(); vt.type = (enum VType)nondet_int(); vt.pointer = 0; vt.bits = 0; vt.constness = 0;
    __CPROVER_assume(vt.sign >= Sign_UNKNOWN_SIGN && vt.sign <= Sign_UNSIGNED && vt.type >= VType_UNKNOWN_TYPE && vt.type <= VType_UNKNOWN_INT);
    pl.char_bit = 8; pl.short_bit = 16; pl.int_bit = nondet_uchar(); pl.long_bit = nondet_uchar(); pl.long_long_bit = 64;
    __CPROVER_assume((pl.int_bit == 16 || pl.int_bit == 32) && (pl.long_bit == 32 || pl.long_bit == 64));
    bigint rhs = nondet_bigint(); __CPROVER_assume(rhs >= 0);
    g_in_rhs = rhs; g_in_g1 = lhs.ghost; g_in_type = vt.type;
    _Bool zero = rshift_known_zero(&lhs, rhs, &pl);
    if (zero) {
        __CPROVER_assert(rhs < 64, "known 0 only for a shift count the analysis can evaluate");
        __CPROVER_assert(lhs.ghost >= 0 && (lhs.ghost >> rhs) == 0, "lhs >> rhs gets the known value 0 only when every execution's lhs is in [0, 2^rhs)");
    }
}
void h_rshift_cover(void) {
    struct Tok lhs; struct ValueType vt; struct Platform pl; mk_strings();
    lhs.mStr = s_other; lhs.mStrLen = 1; lhs.op1 = lhs.op2 = NULL; lhs.hasKnown = 0; lhs.ghost = nondet_bigint(); lhs.vt = &vt;
    vt.sign = Sign_SIGNED; vt.type = VType_INT; vt.pointer = 0; pl.char_bit = 8; pl.short_bit = 16; pl.int_bit = 32; pl.long_bit = 64; pl.long_long_bit = 64;
    _Bool zero = rshift_known_zero(&lhs, 4, &pl);
    __CPROVER_assert(!zero, "COVER: a right shift by 4 gets the known value 0");
    __CPROVER_assert(!(zero && lhs.ghost == 15), "COVER: ... with lhs == 15 in some execution");
}
'''

REPLAY_RSHIFT = r'''
#include "settings.h"
#include "tokenize.h"
#include "tokenlist.h"
#include "token.h"
#include "errorlogger.h"
#include "color.h"
#include <cstdio>
#include <cstdlib>
#include <string>
struct Log : ErrorLogger {
    void reportOut(const std::string &, Color) override {}
    void reportErr(const ErrorMessage &) override {}
    void reportMetric(const std::string &) override {}
};
int main(int argc, char **argv) {
    /* an execution value x of the left operand and a shift count: analyse `(a % (x+1)) >> count` (a unsigned long long), whose left operand is x for a == x */
    const unsigned long long x = strtoull(argv[1], nullptr, 10); const int count = atoi(argv[2]);
    const std::string code = "unsigned long long f(unsigned long long a) { return (a % " + std::to_string(x + 1) + "ULL) >> " + std::to_string(count) + "; }";
    Settings settings; Log log;
    Tokenizer tokenizer(TokenList(settings, Standards::Language::C), log);
    tokenizer.list.appendFileIfNew("t.c");
    if (!tokenizer.list.createTokensFromBuffer(code.data(), code.size()) || !tokenizer.simplifyTokens1("")) { printf("tokenizing failed\n"); return 2; }
    printf("%s\n", code.c_str());
    for (const Token *tok = tokenizer.tokens(); tok; tok = tok->next()) {
        if (tok->str() != ">>") continue;
        if (!tok->hasKnownIntValue()) { printf(">> has no known value\n"); return 0; }
        const long long v = tok->getKnownIntValue();
        printf(">> has the known value %lld; for a == %llu the program computes %llu\n", v, x, x >> count);
        return (unsigned long long)v == (x >> count) ? 0 : 1;
    }
    printf("no >> token\n"); return 2;
}
'''

REPLAY_CPP = r'''
#include <cstdio>
int main() { printf("K39: the verifier's counterexample is a one-node tree (kind 0: &, 1: %%) with the operands' execution values g1, g2; compare `cppcheck --debug` on e.g. `unsigned f(unsigned a){ return ((a %% 5) & 3) >> 1; }`\n"); return 0; }
'''


def build(ctx):
    kb = KernelBuild(ID, TITLE)
    enums, _ = _common.valuetype_enums()
    pstruct, fields, _ = _common.platform_struct()
    vts, vtloc = _common.valuetype_struct()
    kb.add_located("ValueType::isIntegral", vtloc)
    mb = re.search(r'const\s+int\s+MathLib::bigint_bits\s*=\s*(\d+)\s*;', extract.read("lib/mathlib.cpp"))
    if not mb:
        raise extract.ExtractError("MathLib::bigint_bits definition not found")
    n = 0
    TOK = [
        (r'\b(\w+)->getKnownValue\(ValueFlow::Value::ValueType::INT\)', r'Tok_getKnownInt(\1)', 0),
        (r'\b(\w+)->str\(\)\s*==\s*("(?:[^"\\]|\\.)*")', r'vstr_eq(\1->mStr, \1->mStrLen, \2)', 0),
        (r'\b(\w+)->astOperand([12])\(\)->valueType\(\)', r'\1->op\2->vt', 0),
        (r'\b(\w+)->astOperand([12])\(\)', r'\1->op\2', 0),
        (r'\bconst ValueFlow::Value\s*\*', 'const struct Value *', 0),
        (r'\bconst Token\s*\*', 'const struct Tok *', 0),
    ]
    f = extract.locate_function("lib/valueflow.cpp", r'^static bool getExpressionRange\s*\(')
    kb.add_located("getExpressionRange", f)
    t, k = located_rules(f, TOK + _common.VT_RULES + [
        (r'^static bool getExpressionRange\s*\(\s*const struct Tok \*\s*expr\s*,\s*bigint\s*\*\s*minvalue\s*,\s*bigint\s*\*\s*maxvalue\s*\)', 'static _Bool getExpressionRange(const struct Tok *expr, bigint *minvalue, bigint *maxvalue)', 1, 1),
        (r'\bstd::min\(', 'BIG_MIN(', 0),
        # C has no declaration in an if-condition: `if (const T *v = E) {` -> `const T *v = E; if (v) {` (v is not used after the block)
        (r'\bif\s*\(\s*(const struct Value \*\s*)(\w+)\s*=\s*(Tok_getKnownInt\(\w+\))\s*\)\s*\{', r'\1\2 = \3; if (\2) {', 1, 1),
        # recursive calls are instances of the contract (induction hypothesis): same signature, same contract, no body
        (r'(?<!static _Bool )\bgetExpressionRange\(', 'getExpressionRange_rec(', 3),
    ], ID + ".getExpressionRange"); n += k
    sig, body = extract.body_of(t)
    if re.search(r'ValueFlow|Token|MathLib|->ast|->str\(', extract.mask(t)):
        raise extract.ExtractError("K39: getExpressionRange not fully lowered: %r" % t[:300])
    rng = ("_Bool getExpressionRange_rec(const struct Tok *expr, bigint *minvalue, bigint *maxvalue)\n%s;\n" % CONTRACT +
           "%s\n%s%s\n" % (sig, CONTRACT, body))
    # verdict region of valueFlowRightShift
    g = extract.locate_function("lib/valueflow.cpp", r'^static void valueFlowRightShift\s*\(')
    m = extract.mask(g.text)
    s = list(re.finditer(r'MathLib::bigint\s+lhsmax\s*=\s*0\s*;', m))
    e = list(re.finditer(r'ValueFlow::Value\s+val\(0\)\s*;\s*val\.setKnown\(\)\s*;\s*setTokenValue\(tok,\s*std::move\(val\),\s*settings\)\s*;', m))
    if len(s) != 1 or len(e) != 1 or e[0].start() < s[0].end():
        raise extract.ExtractError("valueFlowRightShift: verdict block anchors (`MathLib::bigint lhsmax = 0;` ... `ValueFlow::Value val(0); val.setKnown(); setTokenValue(...)`) not found")
    # between the end of the region and the end of the loop body nothing but the known-0 assignment may follow
    tail = extract.strip_comments(g.text[e[0].end():]).strip()
    if not re.match(r'^\}\s*\}$', tail):
        raise extract.ExtractError("valueFlowRightShift: unexpected code after the known-0 assignment: %r" % tail[:200])
    # the operands of the region: tok->astOperand1() (lhs) and rhsvalue = known value of operand 2, rhsvalue >= 0
    head = extract.strip_comments(g.text[:s[0].start()])
    if not re.search(r'const MathLib::bigint rhsvalue = tok->astOperand2\(\)->getKnownIntValue\(\);\s*if \(rhsvalue < 0\)\s*continue;', head):
        raise extract.ExtractError("valueFlowRightShift: `rhsvalue` is no longer the known value of operand 2 guarded by `rhsvalue < 0`")
    if not re.search(r'if \(!tok->astOperand1\(\)->valueType\(\) \|\| !tok->astOperand1\(\)->valueType\(\)->isIntegral\(\)\)\s*continue;', head):
        raise extract.ExtractError("valueFlowRightShift: the guard on the lhs value type changed")
    reg = extract.Located("lib/valueflow.cpp", g.text[s[0].start():e[0].start()], g.start + s[0].start(), g.start + e[0].start(), extract.read("lib/valueflow.cpp"))
    kb.add_located("valueFlowRightShift [verdict block]", reg, "region")
    t, k = located_rules(reg, [
        (r'\btok->astOperand1\(\)->valueType\(\)->type\b', 'lhs->vt->type', 1),
        (r'\btok->astOperand1\(\)', 'lhs', 1),
        (r'\bsettings\.platform\.(\w+)', r'platform->\1', 1),
        (r'\bMathLib::bigint_bits\b', 'BIGINT_BITS', 1),
        (r'\bcontinue\s*;', 'return 0;', 3),
        (r'\bstd::uint8_t\b', 'uint8_t', 0),
    ] + _common.VT_RULES, ID + ".rshift"); n += k
    if re.search(r'tok->|settings\.|MathLib::|std::', extract.mask(t)):
        raise extract.ExtractError("K39: verdict block not fully lowered: %r" % t[:300])
    rs = "static _Bool rshift_known_zero(const struct Tok *lhs, const bigint rhsvalue, const struct Platform *platform)\n{\n%s\n    return 1;\n}\n" % extract.strip_comments(t)
    kb.rules_fired = n
    text = _common.BASE + enums + pstruct + vts + "#define BIGINT_BITS %s\n" % mb.group(1) + PRELUDE + rng + rs
    extract.residue_scan(text, ID)
    kb.ctext = text + HARNESS
    kb.job("range", "h_range", enforce="getExpressionRange", replace=["getExpressionRange_rec"], replay="note",
           note="induction step for every node shape (known value, &, %, other), operands arbitrary; recursive calls replaced by the contract")
    kb.job("range.twin", "h_range", kind="twin", enforce="getExpressionRange", replace=["getExpressionRange_rec"], defines=["TWIN"])
    kb.job("range.cover", "h_range_cover", kind="cover", replace=["getExpressionRange_rec"])
    kb.job("rshift", "h_rshift", replace=["getExpressionRange"], replay="rshift", note="loop-free region; all lhs values, shift counts, types, int 16/32, long 32/64")
    kb.job("rshift.cover", "h_rshift_cover", kind="cover", replace=["getExpressionRange"])
    kb.assumptions += ["ghost semantics (harness): known value == execution value; `&` / `%` nodes evaluate as in C on 64-bit two's complement (C's conversions of the operands do not change the low bits; the remainder case has a non-negative dividend and a positive divisor in the code's accepted cases); an operand with unsigned value type is non-negative (unsigned long long values above LLONG_MAX are not modelled)",
                       "induction over the expression tree: recursive calls are replaced by the function's own contract; every node of a real AST is assumed well formed in the above sense",
                       "valueFlowRightShift: only the verdict block (range -> known 0); the guards before it (operand 2 known and >= 0, integral types) are pinned by text; setTokenValue is not verified"]

    def rnote(inputs, ctx):
        rc, o, cmd = native.compile_run("replay_K39", REPLAY_CPP, [], need_core=False)
        return "none", o, cmd
    kb.replayers["note"] = rnote

    def rshift(inputs, ctx):
        x, c = int(inputs.get("g_in_g1", 0)), int(inputs.get("g_in_rhs", 0))
        if x < 0 or x >= (1 << 63) or c < 0 or c > 63:
            return "none", "counterexample outside the replayable shape (x=%d, count=%d)" % (x, c), ""
        rc, o, cmd = native.compile_run("replay_K39_rshift", REPLAY_RSHIFT, [str(x), str(c)])
        return native.verdict_from_rc(rc, o), o, cmd
    kb.replayers["rshift"] = rshift
    return kb
