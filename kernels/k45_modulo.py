"""K45  two small facts about `x % N` with a constant N:

A. valueFlowImpossibleValues (lib/valueflow.cpp), the branch for `%`: the impossible value it attaches ("x % N is never >= N")
   must be true for every x (ghost) in executions free of undefined behaviour.
B. CheckCondition::checkModuloAlwaysTrueFalse (lib/checkcondition.cpp), the reporting condition: when moduloAlwaysTrueFalse is
   reported for `(x % N) op M` or `M op (x % N)`, the comparison has the same value for every x.
Both are loop-free regions; N, M and x range over all 64-bit values (B: magnitudes below 2^53, where the checker's
comparison through double is exact).
"""
import re

from vlib import extract, native
from vlib.kernel import KernelBuild, located_rules
from . import _common

ID = "K45"
SERVES = ["C01", "C03", "C13"]
TITLE = "x % N: the impossible values attached to it and the moduloAlwaysTrueFalse verdict hold for every x"

PRELUDE = r'''
enum VKind { K_KNOWN, K_POSSIBLE, K_IMPOSSIBLE };
enum VBound { BOUND_Upper, BOUND_Lower, BOUND_Point };
struct VValue { enum VKind kind; enum VBound bound; bigint intvalue; };
int g_reported;
'''

HARNESS = r'''
bigint g_in_n, g_in_m, g_in_x, g_in_x2; int g_in_op, g_in_side;
static _Bool fact(const struct VValue *v, bigint x) {
    if (v->kind == K_KNOWN) return x == v->intvalue;
    if (v->kind == K_POSSIBLE) return 1;
    return v->bound == BOUND_Point ? x != v->intvalue : v->bound == BOUND_Upper ? x > v->intvalue : x < v->intvalue;
}
/* x % n, axiomatised by its range (C11 6.5.5p6: (x/n)*n + x%n == x with truncation toward zero, hence |x % n| < |n| and the sign of x, every
   such remainder being reached for some x): the solvers here do not finish 64-bit remainder facts, and only the range matters */
static bigint nondet_rem(bigint x, bigint n) {
    bigint r = nondet_bigint();
    __CPROVER_assume(n != 0);
    if (n > 0) __CPROVER_assume(r > -n && r < n); else if (n != LLONG_MIN) __CPROVER_assume(r > n && r < -n);
    if (x >= 0) __CPROVER_assume(r >= 0);
    if (x <= 0) __CPROVER_assume(r <= 0);
    if (x >= 0 && (n == LLONG_MIN || x < (n > 0 ? n : -n))) __CPROVER_assume(r == x);       /* small non-negative x: x % n == x */
    return r;
}
void h_impossible(void) {
    _Bool is_mod = nondet_bool(), has_op2 = nondet_bool(), op2_known = nondet_bool(); bigint n = nondet_bigint(), x = nondet_bigint();
    struct VValue out; _Bool set = 0; g_in_n = n; g_in_x = x;
    mod_impossible_block(is_mod, has_op2, op2_known, n, &out, &set);
    if (!set) return;
    __CPROVER_assert(is_mod && has_op2 && op2_known, "a value is attached only to a % expression with a known right operand");
    /* executions free of undefined behaviour */
    __CPROVER_assume(n != 0 && !(x == LLONG_MIN && n == -1));
    __CPROVER_assert(fact(&out, nondet_rem(x, n)), "the value attached to x % N is a true fact about the remainder for every x");
}
static _Bool c_cmp(int op, bigint a, bigint b) { return op == 0 ? a == b : op == 1 ? a != b : op == 2 ? a < b : op == 3 ? a <= b : op == 4 ? a > b : a >= b; }
void h_verdict(void) {
    bigint n = nondet_bigint(), m = nondet_bigint(), x1 = nondet_bigint(), x2 = nondet_bigint(); int op = nondet_int(); _Bool side = nondet_bool();
    _Bool n_is_num = nondet_bool(), n_negative = nondet_bool();
    __CPROVER_assume(op >= 0 && op <= 5);
    __CPROVER_assume(n > -(1LL << 53) && n < (1LL << 53) && m > -(1LL << 53) && m < (1LL << 53));   /* MathLib::isLessEqual compares through double */
    __CPROVER_assume((n >= 0 || n_negative) && (!n_negative || n <= 0));      /* a negative number token is spelled with a leading '-' */
    g_in_n = n; g_in_m = m; g_in_x = x1; g_in_x2 = x2; g_in_op = op; g_in_side = side;
    g_reported = 0;
    modulo_verdict_block(n_is_num, n_negative, n <= m);
    if (!g_reported) return;
    __CPROVER_assume(n != 0 && !(x1 == LLONG_MIN && n == -1) && !(x2 == LLONG_MIN && n == -1));
    bigint rem1 = nondet_rem(x1, n), rem2 = nondet_rem(x2, n);
    _Bool r1 = side ? c_cmp(op, m, rem1) : c_cmp(op, rem1, m);
    _Bool r2 = side ? c_cmp(op, m, rem2) : c_cmp(op, rem2, m);
    __CPROVER_assert(r1 == r2, "when moduloAlwaysTrueFalse is reported the comparison has the same value for every x");
}
void h_cover(void) {
    struct VValue out; _Bool set = 0;
    mod_impossible_block(1, 1, 1, 8, &out, &set);
    __CPROVER_assert(!(set && out.kind == K_IMPOSSIBLE && out.bound == BOUND_Lower && out.intvalue == 8), "COVER: x % 8 is never >= 8");
    g_reported = 0; modulo_verdict_block(1, 0, 1);
    __CPROVER_assert(!(g_reported == 1), "COVER: (x % 5) == 7 is reported");
}
'''

REPLAY_CPP = r'''
#include "settings.h"
#include "tokenize.h"
#include "tokenlist.h"
#include "token.h"
#include "errorlogger.h"
#include "color.h"
#include <cstdio>
#include <cstdlib>
#include <string>
struct Log : ErrorLogger {
    void reportOut(const std::string &, Color) override {}
    void reportErr(const ErrorMessage &) override {}
    void reportMetric(const std::string &) override {}
};
/* argv: N x : is `(x % N) == (x % N for the witness)` given the known value 0 by the value flow? */
int main(int argc, char **argv) {
    const long long n = atoll(argv[1]), x = atoll(argv[2]);
    if (n == 0) return 2;
    const long long r = x % n;
    const std::string code = "void g(void); void f(long long x) { long long r = x % (" + std::to_string(n) + "); if (r == (" + std::to_string(r) + ")) { g(); } }";
    Settings settings; Log log;
    Tokenizer tokenizer(TokenList(settings, Standards::Language::C), log);
    tokenizer.list.appendFileIfNew("t.c");
    if (!tokenizer.list.createTokensFromBuffer(code.data(), code.size()) || !tokenizer.simplifyTokens1("")) { printf("tokenizing failed\n"); return 2; }
    printf("%s\n", code.c_str());
    for (const Token *tok = tokenizer.tokens(); tok; tok = tok->next()) {
        if (tok->str() != "==") continue;
        if (!tok->hasKnownIntValue()) { printf("the comparison has no known value\n"); return 0; }
        printf("the comparison has the known value %lld although x = %lld makes it true\n", (long long)tok->getKnownIntValue(), x);
        return tok->getKnownIntValue() == 0 ? 1 : 0;
    }
    return 2;
}
'''


def build(ctx):
    kb = KernelBuild(ID, TITLE)
    n = 0
    # ---- A
    f = extract.locate_function("lib/valueflow.cpp", r'^static void valueFlowImpossibleValues\s*\(')
    mk = extract.mask(f.text, keep_strings=True)
    m = extract.mask(f.text)
    hs = list(re.finditer(r'else if \(Token::simpleMatch\(tok, "%"\)', mk))
    if len(hs) != 1:
        raise extract.ExtractError("valueFlowImpossibleValues: branch for %% found %d times" % len(hs))
    po = f.text.index('(', hs[0].start())
    depth, i = 0, po
    while True:
        c = m[i]
        if c == '(':
            depth += 1
        elif c == ')':
            depth -= 1
            if depth == 0:
                break
        i += 1
    pc = i
    ob = m.index('{', pc)
    cb = extract.match_brace(f.text, ob, m)
    reg = extract.Located("lib/valueflow.cpp", f.text[hs[0].start() + len("else "):cb + 1], f.start + hs[0].start() + len("else "), f.start + cb + 1, extract.read("lib/valueflow.cpp"))
    kb.add_located("valueFlowImpossibleValues [branch for x % N]", reg, "region")
    t, k = located_rules(reg, [
        (r'Token::simpleMatch\(tok, "%"\)', 'is_mod', 1, 1),
        (r'\btok->astOperand2\(\)->hasKnownIntValue\(\)', 'op2_known', 1, 1),
        (r'\btok->astOperand2\(\)->getKnownIntValue\(\)', 'op2_value', 1),
        (r'\btok->astOperand2\(\)', 'has_op2', 1, 1),
        (r'std::numeric_limits<bigint>::max\(\)', 'LLONG_MAX', 0),
        (r'std::numeric_limits<bigint>::min\(\)', 'LLONG_MIN', 0),
        (r'ValueFlow::Value value\{([^;]*)\}\s*;', r'struct VValue value; value.kind = K_POSSIBLE; value.bound = BOUND_Point; value.intvalue = \1;', 1, 1),
        (r'\bvalue\.bound = ValueFlow::Value::Bound::(Upper|Lower|Point)\s*;', r'value.bound = BOUND_\1;', 1, 1),
        (r'\bvalue\.setImpossible\(\)\s*;', 'value.kind = K_IMPOSSIBLE;', 0, 1),
        (r'\bvalue\.setKnown\(\)\s*;', 'value.kind = K_KNOWN;', 0, 1),
        (r'\bsetTokenValue\(tok, std::move\(value\), settings\)\s*;', '*out = value; *set = 1;', 1, 1),
    ], ID + ".impossible"); n += k
    if re.search(r'tok->|Token::|ValueFlow|settings|std::', extract.mask(t)):
        raise extract.ExtractError("K45 A: not fully lowered: %r" % t[:300])
    fa = "static void mod_impossible_block(_Bool is_mod, _Bool has_op2, _Bool op2_known, bigint op2_value, struct VValue *out, _Bool *set)\n{\n%s\n}\n" % extract.strip_comments(t)
    # ---- B
    g = extract.locate_function("lib/checkcondition.cpp", r'^void CheckCondition::checkModuloAlwaysTrueFalse\s*\(\s*\)')
    gk = extract.mask(g.text, keep_strings=True)
    gs = list(re.finditer(r'if \(Token::Match\(modulo->astOperand2\(\), "%num%"\)', gk))
    ge = list(re.finditer(r'moduloAlwaysTrueFalseError\(tok, modulo->astOperand2\(\)->str\(\)\)\s*;', gk))
    if len(gs) != 1 or len(ge) != 1 or ge[0].start() < gs[0].end():
        raise extract.ExtractError("checkModuloAlwaysTrueFalse: reporting condition not found")
    # what selects `modulo` and `num` before the condition: the two operand orders of a comparison with a number token
    head = " ".join(extract.strip_comments(g.text[:gs[0].start()]).split())
    if ('if (Token::simpleMatch(tok->astOperand1(), "%") && Token::Match(tok->astOperand2(), "%num%")) { modulo = tok->astOperand1(); num = tok->astOperand2(); } '
        'else if (Token::Match(tok->astOperand1(), "%num%") && Token::simpleMatch(tok->astOperand2(), "%")) { num = tok->astOperand1(); modulo = tok->astOperand2(); } else { continue; }').replace(" ", "") not in head.replace(" ", ""):
        raise extract.ExtractError("checkModuloAlwaysTrueFalse: operand selection changed")
    regb = extract.Located("lib/checkcondition.cpp", g.text[gs[0].start():ge[0].end()], g.start + gs[0].start(), g.start + ge[0].end(), extract.read("lib/checkcondition.cpp"))
    kb.add_located("CheckCondition::checkModuloAlwaysTrueFalse [reporting condition]", regb, "region")
    tb, k = located_rules(regb, [
        (r'Token::Match\(modulo->astOperand2\(\), "%num%"\)', 'n_is_num', 1, 1),
        (r'MathLib::isNegative\(modulo->astOperand2\(\)->str\(\)\)', 'n_negative', 0, 1),
        (r'MathLib::isLessEqual\(modulo->astOperand2\(\)->str\(\), num->str\(\)\)', 'n_le_m', 1, 1),
        (r'moduloAlwaysTrueFalseError\(tok, modulo->astOperand2\(\)->str\(\)\)\s*;', 'g_reported++;', 1, 1),
    ], ID + ".verdict"); n += k
    if re.search(r'modulo|num->|MathLib|Token::', extract.mask(tb)):
        raise extract.ExtractError("K45 B: not fully lowered: %r" % tb[:300])
    fb = "static void modulo_verdict_block(_Bool n_is_num, _Bool n_negative, _Bool n_le_m)\n{\n%s\n}\n" % extract.strip_comments(tb)
    kb.rules_fired = n
    text = _common.BASE + PRELUDE + fa + fb
    extract.residue_scan(text, ID)
    kb.ctext = text + HARNESS
    kb.job("impossible", "h_impossible", replay="mod", note="loop-free region; every N and every x; the remainder is axiomatised by its range")
    kb.job("verdict", "h_verdict", note="loop-free region; every N, M below 2^53 in magnitude, every operator, both operand orders, every pair of x")
    kb.job("cover", "h_cover", kind="cover")
    kb.assumptions += ["the remainder x % N is axiomatised by its range and sign (C11 6.5.5p6), not computed: |x % N| < |N|, sign of x, and x % N == x for 0 <= x < |N|; the C conversions of the operands are not modelled",
                       "B: MathLib::isLessEqual compares through double: N and M are below 2^53 in magnitude; MathLib::isNegative(str) is the sign of the number token (a leading '-')",
                       "the selection of `modulo` and `num` in B is pinned by text"]

    def rp(inputs, ctx):
        rc, o, cmd = native.compile_run("replay_K45", REPLAY_CPP, [str(inputs.get("g_in_n", 1)), str(inputs.get("g_in_x", 0))])
        return native.verdict_from_rc(rc, o), o, cmd
    kb.replayers["mod"] = rp
    return kb
