"""K54  the integer branches of MathLib::add, MathLib::subtract and MathLib::multiply (lib/mathlib.cpp) - the string arithmetic
TemplateSimplifier::simplifyNumericCalculations uses to fold template arguments such as `A<9223372036854775807 + 1>`.

Region: the `if (MathLib::isInt(first) && MathLib::isInt(second)) { return MathLib::toString(EXPR) + intsuffix(...); }` statement
of each function; toBigNumber(first) / toBigNumber(second) are the two operands (any 64-bit values), the value of EXPR is
captured.  Contract (C13): no undefined arithmetic for any pair of operands; (C10) the captured value is the sum / difference
/ product modulo 2^64.
"""
import re

from vlib import extract, native
from vlib.kernel import KernelBuild, located_rules
from . import _common

ID = "K54"
SERVES = ["C13", "C10"]
TITLE = "MathLib::add / subtract / multiply on integer spellings: defined for every pair of operands"

HARNESS = r'''
bigint g_in_a, g_in_b; int g_in_op;
void h_arith(void) {
    bigint a = nondet_bigint(), b = nondet_bigint(); g_in_a = a; g_in_b = b;
    g_in_op = 0; __CPROVER_assert((biguint)mathlib_add(a, b) == (biguint)a + (biguint)b, "MathLib::add: sum modulo 2^64");
    g_in_op = 1; __CPROVER_assert((biguint)mathlib_subtract(a, b) == (biguint)a - (biguint)b, "MathLib::subtract: difference modulo 2^64");
}
void h_mul(void) {
    bigint a = nondet_bigint(), b = nondet_bigint(); g_in_a = a; g_in_b = b; g_in_op = 2;
    bigint r = mathlib_multiply(a, b);      /* undefined-behaviour checks for every pair; the product is compared for the factors 0, 1 and 2 only (general 64-bit multiplication does not finish on the back ends here) */
    __CPROVER_assert(!(b == 0) || r == 0, "MathLib::multiply: x * 0 == 0");
    __CPROVER_assert(!(b == 1) || r == a, "MathLib::multiply: x * 1 == x");
    __CPROVER_assert(!(b == 2) || (biguint)r == ((biguint)a << 1), "MathLib::multiply: x * 2 == x + x modulo 2^64");
}
void h_cover(void) {
    __CPROVER_assert(!(mathlib_add(9223372036854775807LL, 1) == (-9223372036854775807LL - 1)), "COVER: 9223372036854775807 + 1 wraps around");
}
'''

REPLAY_CPP = r'''
#include "@REPO@/lib/mathlib.cpp"
#include <cstdio>
int main(int argc, char **argv) {
    const std::string a = argv[1], b = argv[2]; const int op = atoi(argv[3]);
    const std::string r = op == 0 ? MathLib::add(a, b) : op == 1 ? MathLib::subtract(a, b) : MathLib::multiply(a, b);
    printf("MathLib %s(%s, %s) = %s\n", op == 0 ? "add" : op == 1 ? "subtract" : "multiply", a.c_str(), b.c_str(), r.c_str());
    return 0;
}
'''


def build(ctx):
    kb = KernelBuild(ID, TITLE)
    n = 0
    fns = []
    for name in ("add", "subtract", "multiply"):
        f = extract.locate_function("lib/mathlib.cpp", r'^std::string MathLib::%s\s*\(\s*const std::string\s*&\s*first\s*,\s*const std::string\s*&\s*second\s*\)' % name)
        t0 = extract.strip_comments(f.text)
        # the active branch is the #else part of `#ifdef TEST_MATHLIB_VALUE`
        ms = re.search(r'if \(MathLib::isInt\(first\) && MathLib::isInt\(second\)\)\s*\{\s*return MathLib::toString\((.*?)\) \+ intsuffix\(first, second\);\s*\}', t0, re.S)
        if not ms:
            raise extract.ExtractError("MathLib::%s: integer branch not found" % name)
        off = f.text.find("if (MathLib::isInt(first)")
        reg = extract.Located("lib/mathlib.cpp", f.text[off:f.text.index('}', off) + 1], f.start + off, f.start + f.text.index('}', off) + 1, extract.read("lib/mathlib.cpp"))
        kb.add_located("MathLib::%s [integer branch]" % name, reg, "region")
        e, k = extract.apply_rules(ms.group(1), extract.GENERIC + [
            (r'\btoBigNumber\(first\)', 'a', 1, 1),
            (r'\btoBigNumber\(second\)', 'b', 1, 1),
        ], ID + "." + name); n += sum(c for _, c in k)
        if re.search(r'[A-Za-z_]\w*\s*\(', e.replace('(bigint)(', '').replace('(biguint)(', '')) or 'std::' in e:
            raise extract.ExtractError("MathLib::%s: the integer expression calls something unexpected: %r" % (name, e))
        fns.append("static bigint mathlib_%s(bigint a, bigint b) { return %s; }\n" % (name, e))
    kb.rules_fired = n
    text = _common.BASE + "".join(fns)
    extract.residue_scan(text, ID)
    kb.ctext = text + HARNESS
    kb.job("addsub", "h_arith", replay="arith", note="loop-free; every pair of 64-bit operands")
    kb.job("mul", "h_mul", replay="arith", note="loop-free; every pair of 64-bit operands (undefined-behaviour checks only)")
    kb.job("cover", "h_cover", kind="cover")
    kb.assumptions += ["region interface: the two operands are MathLib::toBigNumber of the two spellings (any 64-bit values); MathLib::toString and intsuffix (rendering) are not verified",
                       "the floating branches and MathLib::divide / mod / calculate are not covered"]

    def rp(inputs, ctx):
        rc, o, cmd = native.compile_run("replay_K54", REPLAY_CPP.replace("@REPO@", extract.REPO), [str(inputs.get("g_in_a", 0)), str(inputs.get("g_in_b", 0)), str(inputs.get("g_in_op", 0))], exclude_objs=("mathlib.cpp.o",), sanitize=True)
        return native.verdict_from_rc(rc, o), o, cmd
    kb.replayers["arith"] = rp
    return kb
