"""K60  truncateImplicitConversion (lib/vf_settokenvalue.cpp): the conversion of an operand's value to the common type of a
binary operator, applied by ValueFlow::setTokenValue to every non-impossible integer value before it is stored on an operand.

Contract (C10 / C01, C11 6.3.1.1 + 6.3.1.8): for `a op b` with integer operands and op one of + - * / % & | ^ < <= > >= == !=
the value of either operand is converted to the common type of the usual arithmetic conversions: both operands are
promoted (everything narrower than int becomes int), then an unsigned type wins unless the signed type is wider; a value
converted to an unsigned type of w < 64 bits is reduced modulo 2^w, every other value is unchanged.  The operands of a shift
are promoted separately: their values are unchanged.  Assignments are run for safety only.
castValue's integer block is extracted with it (its own contract is K04's).
"""
import re

from vlib import extract, native
from vlib.kernel import KernelBuild, located_rules
from . import _common

ID = "K60"
SERVES = ["C10", "C01", "C03", "C13"]
TITLE = "truncateImplicitConversion: operand value converted to the common type of the usual arithmetic conversions"

PRELUDE = r'''
struct VT { enum VType type; enum Sign sign; };
/* ValueType::getSizeOf for the integer types (first lines of the real function; not verified here) */
static size_t vt_sizeof(const struct VT *vt, const struct Platform *pl)
{
    switch (vt->type) {
    case VType_BOOL: case VType_CHAR: return 1;
    case VType_SHORT: return pl->sizeof_short;
    case VType_INT: return pl->sizeof_int;
    case VType_LONG: return pl->sizeof_long;
    case VType_LONGLONG: return pl->sizeof_long_long;
    default: return 0;
    }
}
static size_t vmax(size_t a, size_t b) { return a > b ? a : b; }
'''

HARNESS = r'''
int g_in_t1, g_in_s1, g_in_t2, g_in_s2, g_in_side, g_in_op, g_in_int, g_in_long; bigint g_in_v;
static void mk_platform(struct Platform *pl) {
    pl->char_bit = 8; pl->sizeof_bool = 1; pl->sizeof_short = 2; pl->sizeof_long_long = 8;
    pl->sizeof_int = nondet_bool() ? 2 : 4; pl->sizeof_long = nondet_bool() ? 4 : 8;
    __CPROVER_assume(pl->sizeof_long > pl->sizeof_int || pl->sizeof_int == 4);
    pl->short_bit = 16; pl->int_bit = 8 * pl->sizeof_int; pl->long_bit = 8 * pl->sizeof_long; pl->long_long_bit = 64;
}
static void mk_type(struct VT *vt) {
    vt->type = (enum VType)nondet_int(); vt->sign = (enum Sign)nondet_int();
    __CPROVER_assume(vt->type == VType_BOOL || vt->type == VType_CHAR || vt->type == VType_SHORT || vt->type == VType_INT || vt->type == VType_LONG || vt->type == VType_LONGLONG);
    if (vt->type == VType_BOOL) __CPROVER_assume(vt->sign == Sign_UNKNOWN_SIGN);
    else if (vt->type == VType_CHAR) __CPROVER_assume(vt->sign == Sign_UNKNOWN_SIGN || vt->sign == Sign_SIGNED || vt->sign == Sign_UNSIGNED);
    else __CPROVER_assume(vt->sign == Sign_SIGNED || vt->sign == Sign_UNSIGNED);
}
/* the value is a value of the operand's type (unsigned 64-bit values are kept as bit patterns) */
static _Bool in_type(bigint v, const struct VT *vt, const struct Platform *pl) {
    size_t n = vt_sizeof(vt, pl);
    if (vt->type == VType_BOOL) return v == 0 || v == 1;
    if (n >= 8) return 1;
    bigint lim = (bigint)1 << (8 * n);
    if (vt->sign == Sign_UNSIGNED) return v >= 0 && v < lim;
    if (vt->sign == Sign_SIGNED) return v >= -(lim / 2) && v < lim / 2;
    return v >= -(lim / 2) && v < lim;          /* plain char: either signedness */
}
void h_conv(void) {
    struct Platform pl; mk_platform(&pl);
    struct VT t1, t2; mk_type(&t1); mk_type(&t2);
    int side = nondet_bool();              /* the value belongs to operand 1 or 2 */
    int op = nondet_int(); __CPROVER_assume(op >= 0 && op <= 1);      /* 0: + - * / % & | ^ and comparisons, 1: shift */
    bigint v = nondet_bigint();
    __CPROVER_assume(in_type(v, side ? &t2 : &t1, &pl));
    g_in_t1 = t1.type; g_in_s1 = t1.sign; g_in_t2 = t2.type; g_in_s2 = t2.sign; g_in_side = side; g_in_op = op; g_in_int = pl.sizeof_int; g_in_long = pl.sizeof_long; g_in_v = v;
    bigint r = truncate_conv(1, 1, 1, 0, op == 1, &t1, &t2, 1, 1, 1, v, &pl);
    if (op == 1) { __CPROVER_assert(r == v, "the operands of a shift are promoted separately: the value is unchanged"); return; }
    /* integer promotions */
    size_t n1 = vt_sizeof(&t1, &pl), n2 = vt_sizeof(&t2, &pl);
    _Bool u1 = t1.sign == Sign_UNSIGNED, u2 = t2.sign == Sign_UNSIGNED;
    if (n1 < pl.sizeof_int) { n1 = pl.sizeof_int; u1 = 0; }
    if (n2 < pl.sizeof_int) { n2 = pl.sizeof_int; u2 = 0; }
    if (t1.sign == Sign_UNKNOWN_SIGN && n1 == vt_sizeof(&t1, &pl)) return;     /* plain char as wide as int: not decided */
    if (t2.sign == Sign_UNKNOWN_SIGN && n2 == vt_sizeof(&t2, &pl)) return;
    /* usual arithmetic conversions */
    size_t n = n1 > n2 ? n1 : n2;
    _Bool u = n1 == n2 ? (u1 || u2) : (n1 > n2 ? u1 : u2);
    bigint want = v;
    if (u && n < 8) want = (bigint)((biguint)v & (((biguint)1 << (8 * n)) - 1));
    __CPROVER_assert(r == want, "the operand's value is converted to the common type of the usual arithmetic conversions");
}
void h_assign(void) {
    struct Platform pl; mk_platform(&pl);
    struct VT t1, t2; mk_type(&t1); mk_type(&t2);
    bigint v = nondet_bigint();
    (void)truncate_conv(1, 1, 0, 1, nondet_bool(), &t1, &t2, 1, 1, 1, v, &pl);      /* safety obligations only */
}
void h_cover(void) {
    struct Platform pl; pl.char_bit = 8; pl.sizeof_bool = 1; pl.sizeof_short = 2; pl.sizeof_int = 4; pl.sizeof_long = 8; pl.sizeof_long_long = 8;
    struct VT si = { VType_INT, Sign_SIGNED }, ui = { VType_INT, Sign_UNSIGNED }, sl = { VType_LONG, Sign_SIGNED };
    __CPROVER_assert(!(truncate_conv(1, 1, 1, 0, 0, &si, &ui, 1, 1, 1, -1, &pl) == 4294967295LL), "COVER: -1 < 1u: -1 becomes UINT_MAX");
    __CPROVER_assert(!(truncate_conv(1, 1, 1, 0, 0, &sl, &ui, 1, 1, 1, -1, &pl) == -1), "COVER: -1L < 1u: long wins");
    __CPROVER_assert(!(truncate_conv(1, 1, 1, 0, 0, &si, &si, 1, 1, 1, -1, &pl) == -1), "COVER: same sign");
}
'''

REPLAY_CPP = r'''
#include "settings.h"
#include "tokenize.h"
#include "tokenlist.h"
#include "token.h"
#include "errorlogger.h"
#include "color.h"
#include "platform.h"
#include <cstdio>
#include <cstdlib>
#include <string>
struct Log : ErrorLogger {
    void reportOut(const std::string &, Color) override {}
    void reportErr(const ErrorMessage &) override {}
    void reportMetric(const std::string &) override {}
};
/* argv: expression text (`A < B` with casts), expected value of the comparison */
int main(int argc, char **argv) {
    const std::string code = std::string("long long f(void) { long long x = ") + argv[1] + "; return x; }";
    const long long want = atoll(argv[2]);
    Settings settings; settings.platform.set(Platform::Type::Unix64); Log log;
    Tokenizer tokenizer(TokenList(settings, Standards::Language::C), log);
    tokenizer.list.appendFileIfNew("t.c");
    if (!tokenizer.list.createTokensFromBuffer(code.data(), code.size()) || !tokenizer.simplifyTokens1("")) return 2;
    for (const Token *tok = tokenizer.tokens(); tok; tok = tok->next()) {
        if (tok->str() != "=" || !tok->astOperand2()) continue;
        const Token *e = tok->astOperand2();
        if (!e->hasKnownIntValue()) { printf("%s: no known value\n", code.c_str()); return 0; }
        printf("%s on unix64: known value %lld; a compiler: %lld\n", code.c_str(), (long long)e->getKnownIntValue(), want);
        return e->getKnownIntValue() == want ? 0 : 1;
    }
    return 2;
}
'''


def build(ctx):
    kb = KernelBuild(ID, TITLE)
    enums, _ = _common.valuetype_enums()
    pstruct, fields, _ = _common.platform_struct()
    n = 0
    mb = re.search(r'const\s+int\s+MathLib::bigint_bits\s*=\s*(\d+)\s*;', extract.read("lib/mathlib.cpp"))
    if not mb:
        raise extract.ExtractError("MathLib::bigint_bits definition not found")
    reg = extract.locate_region("lib/vf_common.cpp", r'^\s*Value\s+castValue\s*\(', r'if\s*\(\s*bit\s*<\s*MathLib::bigint_bits\s*\)', r'return\s+value\s*;', include_end=False)
    kb.add_located("ValueFlow::castValue [integer truncation region]", reg, "region")
    tc, k = located_rules(reg, _common.VT_RULES + [
        (r'\bvalue\.intvalue\b', '(*intvalue_p)', 3, 3),
        (r'\bMathLib::bigint_bits\b', 'BIGINT_BITS', 1, 1),
    ], ID + ".castValue"); n += k
    cast = "#define BIGINT_BITS %s\nstatic bigint castValue_int(bigint v_in, const enum Sign sign, int bit)\n{\n    bigint v_store = v_in; bigint *intvalue_p = &v_store;\n    __CPROVER_assert(bit >= 1, \"castValue: bit >= 1 (shift by bit - 1)\");\n%s\n    return v_store;\n}\n" % (mb.group(1), extract.strip_comments(tc))
    f = extract.locate_function("lib/vf_settokenvalue.cpp", r'^\s*static Value truncateImplicitConversion\(Token\* parent, const Value& value, const Settings& settings\)')
    kb.add_located("truncateImplicitConversion", f)
    t, k = located_rules(f, _common.VT_RULES + [
        (r'^\s*static Value truncateImplicitConversion\(Token\* parent, const Value& value, const Settings& settings\)',
         'static bigint truncate_conv(_Bool has_parent, _Bool is_binary, _Bool is_constop, _Bool is_assignop, _Bool is_shift, const struct VT *op1_vt, const struct VT *op2_vt, _Bool integral1, _Bool integral2, _Bool v_isnum, bigint v_intvalue, const struct Platform *platform)', 1, 1),
        (r'!value\.isIntValue\(\) && !value\.isFloatValue\(\)', '!v_isnum', 1, 1),
        (r'\breturn value\s*;', 'return v_intvalue;', 5),
        (r'!parent\)', '!has_parent)', 1, 1),
        (r'\bparent->isBinaryOp\(\)', 'is_binary', 1, 1),
        (r'\bparent->isConstOp\(\)', 'is_constop', 1, 1),
        (r'\bparent->isAssignmentOp\(\)', 'is_assignop', 1),
        (r'\bToken::Match\(parent,\s*"<<\|>>(?:\|<<=\|>>=)?"\)', 'is_shift', 0, 1),
        (r'\bastIsIntegral\(parent->astOperand([12])\(\), false\)', r'integral\1', 2, 2),
        (r'const ValueType\s*\*\s*vt([12]) = parent->astOperand[12]\(\)->valueType\(\)\s*;', r'const struct VT *vt\1 = op\1_vt;', 2, 2),
        (r'\bvt([12])->getSizeOf\(settings,\s*ValueType::Accuracy::ExactOrZero,\s*ValueType::SizeOf::Pointer\)', r'vt_sizeof(vt\1, platform)', 2, 2),
        (r'\bsettings\.platform\.(\w+)', r'platform->\1', 0),
        (r'Value v = castValue\(value,\s*sign,\s*std::max\((\w+),\s*(\w+)\) \* 8\)\s*;\s*v\.wideintvalue = value\.intvalue\s*;\s*return v\s*;',
         r'return castValue_int(v_intvalue, sign, (int)(vmax(\1, \2) * 8));', 1, 1),
        (r'\bstd::max\b', 'vmax', 0),
    ], ID); n += k
    if re.search(r'\bparent\b|value\.|settings|std::|\bValue\b', extract.mask(t)):
        raise extract.ExtractError("K60: truncateImplicitConversion not fully lowered: %r" % re.findall(r'[^\n]*(?:\bparent\b|value\.|settings|std::|\bValue\b)[^\n]*', extract.mask(t))[:3])
    kb.rules_fired = n
    text = _common.BASE + enums + pstruct + PRELUDE + cast + extract.strip_comments(t) + "\n"
    extract.residue_scan(text, ID)
    kb.ctext = text + HARNESS
    kb.job("conv", "h_conv", replay="conv", note="loop-free function: every pair of integer operand types (bool, plain / signed / unsigned char ... long long), int 16/32, long 32/64, every operand value of its type, arithmetic / comparison / bit operators and shifts")
    kb.job("assign", "h_assign", note="assignment operators: absence of undefined operations only")
    kb.job("cover", "h_cover", kind="cover")
    kb.assumptions += ["interface: operand types as (type, sign); ValueType::getSizeOf is the table of its first lines (prelude vt_sizeof), astIsIntegral / isBinaryOp / isConstOp / isAssignmentOp are flags",
                       "the value is a value of its operand's type; unsigned 64-bit values are compared as bit patterns; plain char as wide as int is not decided",
                       "float values (converted by castValue's prefix) are not part of the obligation"]

    def rp(inputs, ctx):
        names = {1: "char", 2: "short", 4: "int"}
        try:
            tn = _type_names()
            t1, s1, t2, s2 = (int(inputs.get(k, 0)) for k in ("g_in_t1", "g_in_s1", "g_in_t2", "g_in_s2"))
            side, op, v = int(inputs.get("g_in_side", 0)), int(inputs.get("g_in_op", 0)), int(inputs.get("g_in_v", 0))
            if int(inputs.get("g_in_int", 4)) != 4 or int(inputs.get("g_in_long", 8)) != 8 or op != 0:
                return "undecided", "counterexample is not on unix64 / not a comparison-able operator; not replayed", ""
            c1, c2 = _ctype(tn, t1, s1), _ctype(tn, t2, s2)
            if c1 is None or c2 is None:
                return "undecided", "type without a C spelling", ""
            a, b = ("(%s)1" % c1, "(%s)(%dLL)" % (c2, v)) if side else ("(%s)(%dLL)" % (c1, v), "(%s)1" % c2)
            expr = "%s < %s" % (a, b)
            import subprocess, tempfile, os
            d = tempfile.mkdtemp(prefix="k60_")
            try:
                with open(os.path.join(d, "t.c"), "w") as fh:
                    fh.write('#include <stdio.h>\nint main(void){ printf("%%d\\n", (int)(%s)); return 0; }\n' % expr)
                subprocess.run(["gcc", "-w", "-o", os.path.join(d, "t"), os.path.join(d, "t.c")], check=True)
                want = subprocess.run([os.path.join(d, "t")], capture_output=True, text=True).stdout.strip()
            finally:
                import shutil
                shutil.rmtree(d, ignore_errors=True)
            rc, o, cmd = native.compile_run("replay_K60", REPLAY_CPP, [expr, want])
            return native.verdict_from_rc(rc, o), o, cmd
        except Exception as e:      # replay is best effort
            return "undecided", "replay not built: %s" % e, ""
    kb.replayers["conv"] = rp
    return kb


def _type_names():
    _, snames = extract.enum_list("lib/symboldatabase.h", r'enum\s+Sign\s*:\s*std::uint8_t\s*\{', "Sign_")
    _, tnames = extract.enum_list("lib/symboldatabase.h", r'enum\s+Type\s*:\s*std::uint8_t\s*\{\s*UNKNOWN_TYPE', "VType_")
    strip = lambda xs, p: [x[len(p):] if x.startswith(p) else x for x in xs]
    return {"type": strip(list(tnames), "VType_"), "sign": strip(list(snames), "Sign_")}


def _ctype(names, t, s):
    try:
        tn = names["type"][t] if isinstance(names, dict) else None
    except Exception:
        tn = None
    base = {"BOOL": "_Bool", "CHAR": "char", "SHORT": "short", "INT": "int", "LONG": "long", "LONGLONG": "long long"}.get(tn)
    if base is None:
        return None
    if base == "_Bool":
        return base
    sign = {"SIGNED": "signed ", "UNSIGNED": "unsigned ", "UNKNOWN_SIGN": ""}.get(names["sign"][s] if isinstance(names, dict) else "", None)
    if sign is None:
        return None
    return sign + base
