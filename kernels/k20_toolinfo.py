"""K20  toolinfo composition in CppCheck::calculateHash (lib/cppcheck.cpp).

Cached results in a --cppcheck-build-dir are reused iff the hash is unchanged, so every
option family that property C19 lists must reach the hashed `toolinfo` string.  Region =
the statements between `std::ostringstream toolinfo;` and the final `return`.

Obligation per option family F (2-safety, non-interference turned around):
    two Settings that differ in F only  ==>  different toolinfo bytes.
A family that the region never reads fails at once (the counterexample does not depend on sizes).
Strings are symbolic with length <= 2, containers hold <= 2 strings; integers are complete.
"""
import re

from vlib import extract, native
from vlib.kernel import KernelBuild, located_rules
from . import _common

ID = "K20"
SERVES = ["C19", "C13"]
TITLE = "CppCheck::calculateHash: every listed option family reaches the cache key"

# Settings members the region may read: name -> kind
STR_FIELDS = ["cppcheckCfgProductName", "userDefines", "premiumArgs"]
STRLIST_FIELDS = ["userUndefs", "includePaths", "libraries"]
BOOL_FIELDS = ["checkConfiguration", "force"]
INT_FIELDS = ["maxConfigsOption", "checkLevel", "standards_c", "standards_cpp", "enforcedLang"]
PLATFORM_NUM = ["type", "char_bit", "sizeof_bool", "sizeof_short", "sizeof_int", "sizeof_long", "sizeof_long_long", "sizeof_float", "sizeof_double",
                "sizeof_long_double", "sizeof_wchar_t", "sizeof_size_t", "sizeof_pointer"]

# option family of property C19 -> C expression (over settings a, b) saying "a and b differ in this family only" is built from these field groups
FAMILIES = {
    "severity": ["severity"], "inconclusive": ["certainty"], "D": ["userDefines"], "U": ["userUndefs"], "I": ["includePaths"],
    # --language is not a Settings member: it reaches the hash through Preprocessor::mLang (kernel K19, job lang)
    "std": ["standards_c", "standards_cpp"], "platform": ["platform"], "library": ["libraries"],
    "suppressions": ["suppressions"], "max-configs": ["maxConfigsOption"], "check-level": ["checkLevel"], "force": ["force"],
}

PRELUDE = r'''
#define SL 2
struct vs { char s[SL + 1]; size_t n; };
struct vsl { struct vs e[2]; size_t n; };
struct EG { uint32_t mFlags; };
struct PlatformK { unsigned type, char_bit; size_t sizeof_bool, sizeof_short, sizeof_int, sizeof_long, sizeof_long_long, sizeof_float, sizeof_double, sizeof_long_double, sizeof_wchar_t, sizeof_size_t, sizeof_pointer; char defaultSign; };
struct AddonInfoK { struct vs name, args; };
struct SettingsK {
    struct vs cppcheckCfgProductName, userDefines, premiumArgs;
    struct vsl userUndefs, includePaths, libraries;
    _Bool checkConfiguration, force;
    int maxConfigsOption, maxConfigsProject; unsigned checkLevel, standards_c, standards_cpp, enforcedLang;
    struct EG severity, certainty;
    struct PlatformK platform;
    struct AddonInfoK addonInfos[1]; size_t addonInfos_n;
    struct vs suppressions;   /* what mSuppressions.nomsg.dump(...) writes: opaque, arbitrary */
};
static inline _Bool EG_isEnabled(const struct EG *g, int flag) { return (g->mFlags & (1U << (uint32_t)flag)) != 0; }
static inline void vout_vs(struct vout *o, const struct vs *s) { for (size_t i = 0; i < SL; i++) if (i < s->n) vout_ch(o, s->s[i]); }
static inline void vout_int(struct vout *o, long long v) { if (v < 0) { vout_ch(o, '-'); vout_dec(o, (unsigned long long)(-v)); } else vout_dec(o, (unsigned long long)v); }
'''

HARNESS = r'''
static _Bool vs_eq(const struct vs *a, const struct vs *b) { if (a->n != b->n) return 0; for (size_t i = 0; i < SL; i++) if (i < a->n && a->s[i] != b->s[i]) return 0; return 1; }
static _Bool vsl_eq(const struct vsl *a, const struct vsl *b) { if (a->n != b->n) return 0; for (size_t i = 0; i < 2; i++) if (i < a->n && !vs_eq(&a->e[i], &b->e[i])) return 0; return 1; }
static void mk_vs_n(struct vs *s, size_t maxn) { s->n = nondet_size_t(); __CPROVER_assume(s->n <= maxn); for (int i = 0; i <= SL; i++) s->s[i] = nondet_char(); }
static void mk_vs(struct vs *s) { mk_vs_n(s, SL); }
/* option values are NUL-free text without the list separators used by the key (paths, names, defines) */
static void mk_item_n(struct vs *s, size_t maxn) { mk_vs_n(s, maxn); for (int i = 0; i < SL; i++) __CPROVER_assume(!(i < s->n) || (s->s[i] != ';' && s->s[i] != '|' && s->s[i] != 0)); }
static void mk_vsl(struct vsl *l) { l->n = nondet_size_t(); __CPROVER_assume(l->n <= 2); mk_item_n(&l->e[0], SL); mk_item_n(&l->e[1], SL); }
static void mk_vsl_small(struct vsl *l) { l->n = nondet_size_t(); __CPROVER_assume(l->n <= 1); mk_item_n(&l->e[0], 1); mk_item_n(&l->e[1], 1); }
static unsigned mk_digit(void) { unsigned v = nondet_unsigned(); __CPROVER_assume(v < 10); return v; }
static unsigned mk_u8(void) { unsigned v = nondet_unsigned(); __CPROVER_assume(v < 256); return v; }
/* the context shared by the two settings: every member arbitrary but small (strings <= 1 byte, lists <= 1 item,
   numbers one digit); the option family under test is then widened to its full domain in both settings */
static void mk_settings_small(struct SettingsK *s) {
    mk_vs_n(&s->cppcheckCfgProductName, 1); mk_vs_n(&s->userDefines, 1); mk_vs_n(&s->premiumArgs, 1); mk_vs_n(&s->suppressions, 1);
    mk_vsl_small(&s->userUndefs); mk_vsl_small(&s->includePaths); mk_vsl_small(&s->libraries);
    s->checkConfiguration = nondet_bool(); s->force = nondet_bool(); s->maxConfigsOption = (int)mk_digit();
    s->checkLevel = mk_digit(); s->standards_c = mk_digit(); s->standards_cpp = mk_digit(); s->enforcedLang = mk_digit();
    s->severity.mFlags = nondet_unsigned(); s->certainty.mFlags = nondet_unsigned();
    s->platform.type = mk_digit(); s->platform.char_bit = mk_digit();
    s->platform.sizeof_bool = mk_digit(); s->platform.sizeof_short = mk_digit(); s->platform.sizeof_int = mk_digit(); s->platform.sizeof_long = mk_digit();
    s->platform.sizeof_long_long = mk_digit(); s->platform.sizeof_float = mk_digit(); s->platform.sizeof_double = mk_digit(); s->platform.sizeof_long_double = mk_digit();
    s->platform.sizeof_wchar_t = mk_digit(); s->platform.sizeof_size_t = mk_digit(); s->platform.sizeof_pointer = mk_digit();
    s->platform.defaultSign = nondet_char(); __CPROVER_assume(s->platform.defaultSign == 'u' || s->platform.defaultSign == 's' || s->platform.defaultSign == 0);
    s->addonInfos_n = nondet_size_t(); __CPROVER_assume(s->addonInfos_n <= 1); mk_vs_n(&s->addonInfos[0].name, 1); mk_vs_n(&s->addonInfos[0].args, 1);
}
static void mk_wide_platform(struct PlatformK *p) {
    p->type = mk_u8(); p->char_bit = mk_u8(); p->sizeof_bool = mk_u8(); p->sizeof_short = mk_u8(); p->sizeof_int = mk_u8(); p->sizeof_long = mk_u8(); p->sizeof_long_long = mk_u8();
    p->sizeof_float = mk_u8(); p->sizeof_double = mk_u8(); p->sizeof_long_double = mk_u8(); p->sizeof_wchar_t = mk_u8(); p->sizeof_size_t = mk_u8(); p->sizeof_pointer = mk_u8();
    p->defaultSign = nondet_char(); __CPROVER_assume(p->defaultSign == 'u' || p->defaultSign == 's' || p->defaultSign == 0);
}
/* b := a with exactly one platform member changed (which one is nondeterministic).  "Differ in one member"
   keeps the alignment argument local; differing in several members at once is the unique-decodability
   of the whole concatenation, which SAT did not decide within 5 minutes and is not claimed. */
static void mk_change_one_platform_member(struct PlatformK *p) {
    unsigned k = nondet_unsigned(); __CPROVER_assume(k < 14);
    unsigned v = mk_u8(); char ds = nondet_char(); __CPROVER_assume(ds == 'u' || ds == 's' || ds == 0);
    if (k == 0) p->type = v; else if (k == 1) p->char_bit = v; else if (k == 2) p->sizeof_bool = v; else if (k == 3) p->sizeof_short = v;
    else if (k == 4) p->sizeof_int = v; else if (k == 5) p->sizeof_long = v; else if (k == 6) p->sizeof_long_long = v; else if (k == 7) p->sizeof_float = v;
    else if (k == 8) p->sizeof_double = v; else if (k == 9) p->sizeof_long_double = v; else if (k == 10) p->sizeof_wchar_t = v; else if (k == 11) p->sizeof_size_t = v;
    else if (k == 12) p->sizeof_pointer = v; else p->defaultSign = ds;
}
/* quick tier: the context (all members outside the family under test) is one of two concrete valuations -
   everything empty/zero, or everything non-empty - chosen nondeterministically; the symbolic-context
   variant (mk_settings_small) did not finish within 15 minutes per family and is not used */
static void mk_cs(struct vs *s, _Bool c, char ch) { s->n = c ? 1 : 0; s->s[0] = ch; s->s[1] = 0; s->s[2] = 0; }
static void mk_settings(struct SettingsK *s) {
    _Bool c = nondet_bool();
    mk_cs(&s->cppcheckCfgProductName, c, 'P'); mk_cs(&s->userDefines, c, 'D'); mk_cs(&s->premiumArgs, c, 'M'); mk_cs(&s->suppressions, c, 'S');
    s->userUndefs.n = c ? 1 : 0; mk_cs(&s->userUndefs.e[0], 1, 'U'); mk_cs(&s->userUndefs.e[1], 1, 'u');
    s->includePaths.n = c ? 1 : 0; mk_cs(&s->includePaths.e[0], 1, 'I'); mk_cs(&s->includePaths.e[1], 1, 'i');
    s->libraries.n = c ? 1 : 0; mk_cs(&s->libraries.e[0], 1, 'L'); mk_cs(&s->libraries.e[1], 1, 'l');
    s->checkConfiguration = c; s->force = c; s->maxConfigsOption = c ? 7 : 0;
    s->checkLevel = c ? 1 : 0; s->standards_c = c ? 3 : 0; s->standards_cpp = c ? 4 : 0; s->enforcedLang = c ? 2 : 0;
    s->severity.mFlags = c ? 0xFFFFFFFFu : 0; s->certainty.mFlags = c ? 0xFFFFFFFFu : 0;
    s->platform.type = c ? 6 : 0; s->platform.char_bit = 8;
    s->platform.sizeof_bool = 1; s->platform.sizeof_short = 2; s->platform.sizeof_int = 4; s->platform.sizeof_long = c ? 8 : 4; s->platform.sizeof_long_long = 8;
    s->platform.sizeof_float = 4; s->platform.sizeof_double = 8; s->platform.sizeof_long_double = c ? 16 : 8; s->platform.sizeof_wchar_t = c ? 4 : 2;
    s->platform.sizeof_size_t = c ? 8 : 4; s->platform.sizeof_pointer = c ? 8 : 4; s->platform.defaultSign = c ? 's' : 0;
    s->addonInfos_n = c ? 1 : 0; mk_cs(&s->addonInfos[0].name, 1, 'A'); mk_cs(&s->addonInfos[0].args, 1, 'a');
}
#define SEVMASK ((1u << Severity_warning) | (1u << Severity_style) | (1u << Severity_performance) | (1u << Severity_portability) | (1u << Severity_information))
static _Bool same_severity(const struct SettingsK *a, const struct SettingsK *b) { return (a->severity.mFlags & SEVMASK) == (b->severity.mFlags & SEVMASK); }
static _Bool same_certainty(const struct SettingsK *a, const struct SettingsK *b) { return ((a->certainty.mFlags >> Certainty_inconclusive) & 1u) == ((b->certainty.mFlags >> Certainty_inconclusive) & 1u); }
static _Bool same_platform(const struct SettingsK *a, const struct SettingsK *b) {
    const struct PlatformK *p = &a->platform, *q = &b->platform;
    return p->type == q->type && p->char_bit == q->char_bit && p->sizeof_bool == q->sizeof_bool && p->sizeof_short == q->sizeof_short && p->sizeof_int == q->sizeof_int && p->sizeof_long == q->sizeof_long &&
           p->sizeof_long_long == q->sizeof_long_long && p->sizeof_float == q->sizeof_float && p->sizeof_double == q->sizeof_double && p->sizeof_long_double == q->sizeof_long_double &&
           p->sizeof_wchar_t == q->sizeof_wchar_t && p->sizeof_size_t == q->sizeof_size_t && p->sizeof_pointer == q->sizeof_pointer && p->defaultSign == q->defaultSign; }
int g_in_family; unsigned g_in_a_platform_type, g_in_b_platform_type, g_in_a_sizeof_long, g_in_b_sizeof_long, g_in_a_cert, g_in_b_cert, g_in_a_std_c, g_in_b_std_c, g_in_a_std_cpp, g_in_b_std_cpp, g_in_a_lang, g_in_b_lang;
@FAMILY_HARNESSES@
void h_cover(void) {
    struct SettingsK a, b; mk_settings(&a); mk_settings(&b);
    struct vout oa, ob; vout_init(&oa); vout_init(&ob); toolinfo_region(&oa, &a); toolinfo_region(&ob, &b);
    __CPROVER_assert(!(vout_equal(&oa, &ob)), "COVER: two settings can give equal keys");
    __CPROVER_assert(!(!vout_equal(&oa, &ob) && a.force != b.force), "COVER: keys can differ");
    __CPROVER_assert(!(oa.len > 20), "COVER: long key");
}
'''

REPLAY_CPP = r'''
#include <sstream>
#include <string>
#include <vector>
#include <map>
#include <set>
#include <list>
#include <memory>
#include <functional>
#include <unordered_set>
#include <unordered_map>
#define private public   /* replay only: CppCheck::calculateHash is a private member */
#include "cppcheck.h"
#undef private
#include "settings.h"
#include "suppressions.h"
#include "errorlogger.h"
#include "preprocessor.h"
#include "platform.h"
#include <simplecpp.h>
#include <cstdio>
#include <cstring>
#include <sstream>
struct NullLogger : ErrorLogger {
    void reportOut(const std::string&, Color) override {}
    void reportErr(const ErrorMessage&) override {}
    void reportMetric(const std::string&) override {}
};
static std::size_t key(const Settings &s) {
    NullLogger log; Suppressions supprs;
    CppCheck cc(s, supprs, log, nullptr, false, nullptr);
    std::vector<std::string> files; std::istringstream in("int x;\n"); simplecpp::TokenList tokens(in, files, "t.c");
    Preprocessor pp(tokens, s, log, Standards::Language::C);
    return cc.calculateHash(pp, "t.c");
}
int main(int argc, char **argv) {
    std::string fam = argv[1]; Settings a, b; std::string err;
    if (fam == "platform") { a.platform.set(Platform::Unix64); b.platform.set(Platform::Unix32); }
    else if (fam == "inconclusive") { b.certainty.enable(Certainty::inconclusive); }
    else if (fam == "U") { b.userUndefs.insert("FOO"); }
    else if (fam == "I") { b.includePaths.push_back("inc/"); }
    else if (fam == "std") { a.standards.c = Standards::C89; b.standards.c = Standards::C11; }
    else if (fam == "library") { b.libraries.push_back("posix"); }
    else if (fam == "D") { b.userDefines = "A=1"; }
    else if (fam == "force") { b.force = true; }
    else if (fam == "max-configs") { b.maxConfigsOption = 3; }
    else if (fam == "check-level") { a.checkLevel = Settings::CheckLevel::normal; b.checkLevel = Settings::CheckLevel::exhaustive; }
    else if (fam == "severity") { b.severity.enable(Severity::style); }
    else { printf("family %s: no native witness\n", fam.c_str()); return 0; }
    std::size_t ka = key(a), kb = key(b);
    printf("option family %s: two settings that differ only there give cache keys %zx and %zx\n", fam.c_str(), ka, kb);
    return ka == kb ? 1 : 0;
}
'''


def split_chain(stmt):
    """split `toolinfo << A << B` at top-level `<<`."""
    parts, depth, cur, i = [], 0, [], 0
    inq = None
    while i < len(stmt):
        c = stmt[i]
        if inq:
            cur.append(c)
            if c == '\\':
                cur.append(stmt[i + 1]); i += 1
            elif c == inq:
                inq = None
        elif c in '"\'':
            inq = c; cur.append(c)
        elif c in '([{':
            depth += 1; cur.append(c)
        elif c in ')]}':
            depth -= 1; cur.append(c)
        elif c == '<' and depth == 0 and stmt[i:i + 2] == '<<':
            parts.append(''.join(cur).strip()); cur = []; i += 1
        else:
            cur.append(c)
        i += 1
    parts.append(''.join(cur).strip())
    return parts


SETTINGS_METHODS = set()


def extract_settings_method(kb, name):
    """inline `int NAME() const` of class Settings (lib/settings.h) as `static int Settings_NAME(const struct SettingsK *S)`"""
    loc = extract.locate_function("lib/settings.h", r'^\s*int\s+%s\s*\(\s*\)\s*const' % re.escape(name))
    kb.add_located("Settings::%s" % name, loc)
    sig, body = extract.body_of(loc.text)
    consts = dict(re.findall(r'const\s+int\s+Settings::(\w+)\s*=\s*(-?\d+)\s*;', extract.read("lib/settings.cpp")))
    body = extract.strip_comments(body)
    body = re.sub(r'\b(%s)\.empty\(\)' % "|".join(STR_FIELDS), r'(S->\1.n == 0)', body)
    body = re.sub(r'(?<![\w>.])(%s)\b' % "|".join(INT_FIELDS + BOOL_FIELDS + ["maxConfigsProject"]), r'S->\1', body)
    for k, v in consts.items():
        body = re.sub(r'(?<![\w>.])%s\b' % k, "(%s)" % v, body)
    return "static int Settings_%s(const struct SettingsK *S) %s\n" % (name, body)


def lower_operand(e, loopvars):
    """one operand of `toolinfo << e` -> C statement appending it to the sink."""
    e = e.strip()
    m = re.match(r"^'(?:\\.|[^'\\])'$", e)
    if m:
        return "vout_ch(toolinfo, %s);" % e
    if re.match(r'^\(.*\?.*:.*\)$', e, re.S) and "'" in e:
        return "vout_ch(toolinfo, %s);" % e
    m = re.match(r'^std::to_string\((.*)\)$', e, re.S)
    if m:
        def fld(mo):
            if mo.group(1) not in INT_FIELDS + BOOL_FIELDS:
                raise extract.ExtractError("K20: std::to_string(... mSettings.%s ...): member not in the kernel's Settings model" % mo.group(1))
            return "S->" + mo.group(1)
        inner = re.sub(r'\bmSettings\.(\w+)', fld, m.group(1))
        if re.match(r'^\(uint8_t\)\(.*\)$', inner.strip(), re.S) or re.match(r'^S->platform\.(?:sizeof_\w+|char_bit)$', inner.strip()):
            # uint8_t values, and the sizes of the basic types (the harness keeps them below 256; vout_dec_small asserts < 1000)
            return "vout_dec_small(toolinfo, (unsigned long long)(%s));" % inner   # a uint8_t has at most three digits
        return "vout_int(toolinfo, (long long)(%s));" % inner
    m = re.match(r'^mSettings\.(\w+)$', e)
    if m:
        f = m.group(1)
        if f in STR_FIELDS:
            return "vout_vs(toolinfo, &S->%s);" % f
        if f in INT_FIELDS:
            return "vout_int(toolinfo, (long long)S->%s);" % f
        raise extract.ExtractError("K20: toolinfo << mSettings.%s: member not in the kernel's Settings model" % f)
    m = re.match(r'^mSettings\.(\w+)\(\)$', e)
    if m:
        # an int-valued inline const member function of Settings: extracted from lib/settings.h and called
        SETTINGS_METHODS.add(m.group(1))
        return "vout_int(toolinfo, (long long)Settings_%s(S));" % m.group(1)
    m = re.match(r'^(\w+)\.(name|args)$', e)
    if m and loopvars.get(m.group(1)) == "addonInfos":
        return "vout_vs(toolinfo, &S->addonInfos[%s_i].%s);" % (m.group(1), m.group(2))
    m = re.match(r'^(\w+)$', e)
    if m and loopvars.get(e) in STRLIST_FIELDS:
        return "vout_vs(toolinfo, &S->%s.e[%s_i]);" % (loopvars[e], e)
    raise extract.ExtractError("K20: cannot lower operand %r of toolinfo <<" % e)


def lower_region(text):
    loopvars = {}
    # range-for over containers of Settings
    def forrep(mo):
        var, cont = mo.group(1), mo.group(2)
        if cont not in STRLIST_FIELDS + ["addonInfos"]:
            raise extract.ExtractError("K20: range-for over mSettings.%s: container not in the kernel's Settings model" % cont)
        loopvars[var] = cont
        n = "S->%s_n" % cont if cont == "addonInfos" else "S->%s.n" % cont
        cap = 1 if cont == "addonInfos" else 2   # capacity of the container in the kernel's Settings model: constant loop bound
        return "for (size_t %s_i = 0; %s_i < %d; %s_i++) if (%s_i < %s)" % (var, var, cap, var, var, n)
    text, nfor = re.subn(r'for\s*\(\s*const\s+(?:auto|std::string)\s*&\s*(\w+)\s*:\s*mSettings\.(\w+)\s*\)', forrep, text)
    # member spellings
    text = re.sub(r'\bmSettings\.standards\.(c|cpp)\b', r'mSettings.standards_\1', text)
    text = re.sub(r'\bmSettings\.(severity|certainty)\.isEnabled\((Severity|Certainty)::(\w+)\)', r'EG_isEnabled(&S->\1, \2_\3)', text)
    text = re.sub(r'\bmSettings\.platform\.(\w+)', r'S->platform.\1', text)
    text = re.sub(r'\bmSettings\.(%s)\b(?!\s*\.)' % "|".join(BOOL_FIELDS), r'S->\1', text)
    text = re.sub(r'\bmSettings\.cppcheckCfgProductName\.empty\(\)', r'(S->cppcheckCfgProductName.n == 0)', text)
    # statements
    out = []
    nchain = 0
    m = extract.mask(text)
    pos = 0
    for mo in re.finditer(r'toolinfo\s*<<([^;]*);', m):
        out.append(text[pos:mo.start()])
        ops = split_chain(text[mo.start():mo.end() - 1])[1:]
        out.append("{ ")   # one C++ statement stays one C statement (it may be the unbraced body of a loop)
        for e in ops:
            e2 = e.strip()
            if re.match(r'^\(\s*\(S->cppcheckCfgProductName\.n == 0\)\s*\?\s*CPPCHECK_VERSION_STRING\s*:\s*mSettings\.cppcheckCfgProductName\s*\)$', e2):
                out.append('if (S->cppcheckCfgProductName.n == 0) vout_lit(toolinfo, CPPCHECK_VERSION_STRING); else vout_vs(toolinfo, &S->cppcheckCfgProductName); ')
            else:
                out.append(lower_operand(e2.replace("S->", "S->") if not e2.startswith("mSettings") else e2, loopvars) + " ")
            nchain += 1
        out.append("}")
        pos = mo.end()
    out.append(text[pos:])
    text = "".join(out)
    text, nd = re.subn(r'mSuppressions\.nomsg\.dump\(\s*toolinfo\s*,\s*filePath\s*\)\s*;', 'vout_vs(toolinfo, &S->suppressions);', text)
    if nd != 1:
        raise extract.ExtractError("K20: the suppression dump into toolinfo was not found (%d)" % nd)
    text, ns = re.subn(r'std::ostringstream\s+toolinfo\s*;', '', text)
    if ns != 1:
        raise extract.ExtractError("K20: `std::ostringstream toolinfo;` not found")
    return text, nfor + nchain + nd + ns


def build(ctx):
    kb = KernelBuild(ID, TITLE)
    sev, sev_names = extract.enum_list("lib/errortypes.h", r'enum\s+class\s+Severity\s*:\s*std::uint8_t\s*\{', "Severity_")
    cer, cer_names = extract.enum_list("lib/errortypes.h", r'enum\s+class\s+Certainty\s*:\s*std::uint8_t\s*\{', "Certainty_")
    reg = extract.locate_region("lib/cppcheck.cpp", r'^std::size_t CppCheck::calculateHash\s*\(', r'std::ostringstream\s+toolinfo\s*;',
                                r'return\s+preprocessor\.calculateHash\(\s*toolinfo\.str\(\)\s*\)\s*;', include_end=False)
    kb.add_located("CppCheck::calculateHash [toolinfo composition]", reg, "region")
    t, k = located_rules(reg, [], ID)
    t = extract.strip_comments(t)
    SETTINGS_METHODS.clear()
    t, n = lower_region(t)
    kb.rules_fired = k + n
    methods = "".join(extract_settings_method(kb, nm) for nm in sorted(SETTINGS_METHODS))
    text = (_common.BASE + '#include "vout.h"\n#define CPPCHECK_VERSION_STRING "2.x"\n' + "enum Severity %s;\nenum Certainty %s;\n" % (sev, cer) + PRELUDE + methods +
            "void toolinfo_region(struct vout *toolinfo, const struct SettingsK *S)\n{\n%s\n}\n" % t)
    extract.residue_scan(text, ID)
    # family harnesses
    allgroups = ["severity", "certainty", "userDefines", "userUndefs", "includePaths", "standards_c", "standards_cpp", "enforcedLang", "platform", "libraries",
                 "suppressions", "maxConfigsOption", "checkLevel", "force", "checkConfiguration", "cppcheckCfgProductName", "premiumArgs", "addons"]

    def same(g):
        if g in ("severity", "certainty", "platform"):
            return "same_%s(&a, &b)" % g
        if g in STRLIST_FIELDS:
            return "vsl_eq(&a.%s, &b.%s)" % (g, g)
        if g in STR_FIELDS + ["suppressions"]:
            return "vs_eq(&a.%s, &b.%s)" % (g, g)
        if g == "addons":
            return "(a.addonInfos_n == b.addonInfos_n && vs_eq(&a.addonInfos[0].name, &b.addonInfos[0].name) && vs_eq(&a.addonInfos[0].args, &b.addonInfos[0].args))"
        return "a.%s == b.%s" % (g, g)
    hs = []
    widen = {
        "severity": "b.severity.mFlags = (nondet_unsigned() & SEVMASK) | (a.severity.mFlags & ~SEVMASK);",
        "certainty": "b.certainty.mFlags = (nondet_unsigned() & (1u << Certainty_inconclusive)) | (a.certainty.mFlags & ~(1u << Certainty_inconclusive));",
        "platform": "mk_wide_platform(&a.platform); b.platform = a.platform; mk_change_one_platform_member(&b.platform);",
        "standards_c": "a.standards_c = mk_u8(); b.standards_c = mk_u8(); a.standards_cpp = mk_u8(); b.standards_cpp = a.standards_cpp; if (nondet_bool()) { b.standards_cpp = b.standards_c; b.standards_c = a.standards_c; }",
        "standards_cpp": "",
        "maxConfigsOption": "a.maxConfigsOption = nondet_int(); b.maxConfigsOption = nondet_int();",
        "force": "b.force = nondet_bool();",
    }
    for g in STRLIST_FIELDS:
        widen[g] = "mk_vsl(&a.%s); mk_vsl(&b.%s);" % (g, g)
    for g in STR_FIELDS + ["suppressions"]:
        widen[g] = "mk_vs(&a.%s); mk_vs(&b.%s);" % (g, g)
    for g in ("checkLevel",):
        widen[g] = "a.%s = mk_u8(); b.%s = mk_u8();" % (g, g)
    for i, (fam, groups) in enumerate(FAMILIES.items()):
        differ = " || ".join("!(%s)" % same(g) for g in groups)
        hs.append("void h_fam_%d(void) {\n    struct SettingsK a, b; mk_settings(&a); b = a; g_in_family = %d;\n"
                  "    %s\n    __CPROVER_assume(%s);\n"
                  "    g_in_a_platform_type = a.platform.type; g_in_b_platform_type = b.platform.type; g_in_a_sizeof_long = a.platform.sizeof_long; g_in_b_sizeof_long = b.platform.sizeof_long;\n"
                  "    struct vout oa, ob; vout_init(&oa); vout_init(&ob); toolinfo_region(&oa, &a); toolinfo_region(&ob, &b);\n"
                  "    __CPROVER_assert(!oa.overflow && !ob.overflow, \"sink capacity suffices\");\n"
                  "    __CPROVER_assert(!vout_equal(&oa, &ob), \"settings that differ in option family '%s' give different cache keys\");\n}\n"
                  % (i, i, " ".join(widen[g] for g in groups), differ, fam))
    kb.ctext = text + HARNESS.replace("@FAMILY_HARNESSES@", "\n".join(hs))
    for i, fam in enumerate(FAMILIES):
        kb.job("family." + fam, "h_fam_%d" % i, kind="bounded", unwind=24, flags=["--sat-solver", "cadical"], defines=["VOUT_ACC", "VOUT_CAP=96", "VDEC_MAX=4"], replay="fam:" + fam, timeout=300,
               note="family under test: strings <= 2 bytes, lists <= 2 items, integers complete (platform members < 256); context (all other members): strings <= 1 byte, lists <= 1 item, one-digit numbers, flag words complete")
    kb.job("cover", "h_cover", kind="cover", unwind=24, flags=["--sat-solver", "cadical"], defines=["VOUT_ACC", "VOUT_CAP=96", "VDEC_MAX=4"], timeout=300)
    kb.assumptions += ["region interface: Settings members named in the kernel's model (unknown members stop the extraction); std::ostringstream lowered to a recording sink",
                       "mSuppressions.nomsg.dump(toolinfo, filePath) is an opaque string that differs whenever the suppression set differs (SuppressionList::dump is not verified here)",
                       "option values (paths, names, library names) contain no ';' '|' or NUL (the list separators of the key)",
                       "std::to_string / operator<<(int) modelled by prelude/vout.h vout_dec (see K19 dec.lemma)"]

    def mk(fam):
        def rp(inputs, ctx):
            rc, o, cmd = native.compile_run("replay_K20", REPLAY_CPP, [fam])
            return native.verdict_from_rc(rc, o), o, cmd
        return rp
    for fam in FAMILIES:
        kb.replayers["fam:" + fam] = mk(fam)
    return kb
