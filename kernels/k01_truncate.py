"""K01  ValueFlow::truncateIntValue  (lib/vf_common.cpp) — loop-free, full 2^64 domain.

Oracle: C11 6.3.1.3 (conversion to an N-byte integer type), written with masks
independent of the code's formulation.
"""
from vlib import extract, native
from vlib.kernel import KernelBuild, located_rules
from . import _common

ID = "K01"
SERVES = ["C01", "C10", "C13"]
TITLE = "ValueFlow::truncateIntValue == C integer conversion"

CONTRACT = r'''
__CPROVER_requires(value_size <= 8)
__CPROVER_requires(dst_sign == Sign_UNKNOWN_SIGN || dst_sign == Sign_SIGNED || dst_sign == Sign_UNSIGNED)
#ifndef TWIN
__CPROVER_ensures((value_size == 0 || value_size == 8) ==> __CPROVER_return_value == value)
__CPROVER_ensures((value_size >= 1 && value_size <= 7 && dst_sign != Sign_SIGNED) ==>
    (biguint)__CPROVER_return_value == ((biguint)value & ((1ULL << (8*value_size)) - 1)))
__CPROVER_ensures((value_size >= 1 && value_size <= 7 && dst_sign == Sign_SIGNED) ==>
    ((((biguint)__CPROVER_return_value ^ (biguint)value) & ((1ULL << (8*value_size)) - 1)) == 0 &&
     __CPROVER_return_value >= -(1LL << (8*value_size - 1)) && __CPROVER_return_value < (1LL << (8*value_size - 1))))
#else
/* must-fail twin: sign extension claimed for unsigned targets too */
__CPROVER_ensures((value_size >= 1 && value_size <= 7) ==>
     (__CPROVER_return_value >= -(1LL << (8*value_size - 1)) && __CPROVER_return_value < (1LL << (8*value_size - 1))))
#endif
__CPROVER_assigns()
'''

HARNESS = r'''
bigint g_in_value; size_t g_in_value_size; int g_in_dst_sign;
void h_K01(void) {
    bigint value = nondet_bigint(); size_t value_size = nondet_size_t(); enum Sign s = (enum Sign)nondet_int();
    g_in_value = value; g_in_value_size = value_size; g_in_dst_sign = (int)s;
    (void)truncateIntValue(value, value_size, s);
}
void h_K01_cover(void) {
    bigint value = nondet_bigint(); size_t value_size = nondet_size_t(); enum Sign s = (enum Sign)nondet_int();
    __CPROVER_assume(value_size <= 8);
    bigint r = truncateIntValue(value, value_size, s);
    __CPROVER_assert(!(s == Sign_SIGNED && value_size == 2 && r < 0 && value > 0), "COVER: signed 2-byte wrap to negative");
    __CPROVER_assert(!(s == Sign_UNSIGNED && value_size == 4 && r != value), "COVER: unsigned 4-byte truncation changes value");
    __CPROVER_assert(!(value_size == 8), "COVER: size 8");
}
'''

REPLAY_CPP = r'''
#include "vf_common.h"
#include "mathlib.h"
#include "symboldatabase.h"
#include <cstdio>
#include <cstdlib>
#include <cstdint>
int main(int argc, char **argv) {
    long long value = strtoll(argv[1], nullptr, 10); size_t n = strtoull(argv[2], nullptr, 10); int s = atoi(argv[3]);
    long long r = ValueFlow::truncateIntValue(value, n, static_cast<ValueType::Sign>(s));
    long long want;
    if (n == 0 || n >= 8) want = value;
    else {
        unsigned long long m = (1ULL << (8*n)) - 1, u = (unsigned long long)value & m;
        if (s == ValueType::Sign::SIGNED && (u >> (8*n-1))) want = (long long)(u | ~m); else want = (long long)u;
    }
    printf("truncateIntValue(%lld, %zu, %d) = %lld, C conversion gives %lld\n", value, n, s, r, want);
    return r == want ? 0 : 1;
}
'''


def build(ctx):
    kb = KernelBuild(ID, TITLE)
    loc = extract.locate_function("lib/vf_common.cpp", r'^\s*MathLib::bigint\s+truncateIntValue\s*\(')
    kb.add_located("ValueFlow::truncateIntValue", loc)
    enums, _ = _common.valuetype_enums()
    text, n = located_rules(loc, _common.VT_RULES + [
        (r'std::numeric_limits<\s*biguint\s*>::max\(\)', 'ULLONG_MAX', 1, 1),
    ], ID)
    kb.rules_fired = n
    sig, body = extract.body_of(text)
    extract.residue_scan(text, ID)
    kb.ctext = _common.BASE + enums + sig + CONTRACT + body + "\n" + HARNESS
    kb.job("contract", "h_K01", enforce="truncateIntValue", replay="native")
    kb.job("cover", "h_K01_cover", kind="cover")
    kb.job("twin", "h_K01", kind="twin", enforce="truncateIntValue", defines=["TWIN"])
    kb.assumptions += ["requires value_size <= 8: established at the call sites (K01c); sizes > 8 make the shift amount negative"]

    def replay(inputs, ctx):
        rc, out, cmd = native.compile_run("replay_K01", REPLAY_CPP,
                                          [inputs.get("g_in_value", 0), inputs.get("g_in_value_size", 0), inputs.get("g_in_dst_sign", 0)], sanitize=True)
        return native.verdict_from_rc(rc, out), out, cmd
    kb.replayers["native"] = replay
    return kb
