"""K01  ValueFlow::truncateIntValue  (lib/vf_common.cpp) — loop-free, full 2^64 domain.

Oracle: C11 6.3.1.3 (conversion to an N-byte integer type), written with masks
independent of the code's formulation.
"""
from vlib import extract, native
from vlib.kernel import KernelBuild, located_rules
from . import _common

ID = "K01"
SERVES = ["C01", "C03", "C10", "C13"]
TITLE = "ValueFlow::truncateIntValue == C integer conversion"

CONTRACT = r'''
__CPROVER_requires(value_size <= 8)
__CPROVER_requires(dst_sign == Sign_UNKNOWN_SIGN || dst_sign == Sign_SIGNED || dst_sign == Sign_UNSIGNED)
#ifndef TWIN
__CPROVER_ensures((value_size == 0 || value_size == 8) ==> __CPROVER_return_value == value)
__CPROVER_ensures((value_size >= 1 && value_size <= 7 && dst_sign != Sign_SIGNED) ==>
    (biguint)__CPROVER_return_value == ((biguint)value & ((1ULL << (8*value_size)) - 1)))
__CPROVER_ensures((value_size >= 1 && value_size <= 7 && dst_sign == Sign_SIGNED) ==>
    ((((biguint)__CPROVER_return_value ^ (biguint)value) & ((1ULL << (8*value_size)) - 1)) == 0 &&
     __CPROVER_return_value >= -(1LL << (8*value_size - 1)) && __CPROVER_return_value < (1LL << (8*value_size - 1))))
#else
/* must-fail twin: sign extension claimed for unsigned targets too */
__CPROVER_ensures((value_size >= 1 && value_size <= 7) ==>
     (__CPROVER_return_value >= -(1LL << (8*value_size - 1)) && __CPROVER_return_value < (1LL << (8*value_size - 1))))
#endif
__CPROVER_assigns()
'''

HARNESS = r'''
bigint g_in_value; size_t g_in_value_size; int g_in_dst_sign;
void h_K01(void) {
    bigint value = nondet_bigint(); size_t value_size = nondet_size_t(); enum Sign s = (enum Sign)nondet_int();
    g_in_value = value; g_in_value_size = value_size; g_in_dst_sign = (int)s;
    (void)truncateIntValue(value, value_size, s);
}
void h_K01_cover(void) {
    bigint value = nondet_bigint(); size_t value_size = nondet_size_t(); enum Sign s = (enum Sign)nondet_int();
    __CPROVER_assume(value_size <= 8);
    bigint r = truncateIntValue(value, value_size, s);
    __CPROVER_assert(!(s == Sign_SIGNED && value_size == 2 && r < 0 && value > 0), "COVER: signed 2-byte wrap to negative");
    __CPROVER_assert(!(s == Sign_UNSIGNED && value_size == 4 && r != value), "COVER: unsigned 4-byte truncation changes value");
    __CPROVER_assert(!(value_size == 8), "COVER: size 8");
}
'''

HARNESS_CALLSITE = r'''
bigint g_in_cs_value; size_t g_in_cs_sz; int g_in_cs_sign, g_in_cs_impossible, g_in_cs_bool, g_in_cs_dsign, g_in_cs_bits;
void h_callsite(void) {
    struct VValue v; v.vtype = VV_INT; v.impossible = nondet_bool(); v.intvalue = nondet_bigint(); v.floatValue = 0.0;
    size_t sz = nondet_size_t(); enum Sign s = (enum Sign)nondet_int();
    /* sizes of integral destination types (ValueType::getSizeOf: 0 = unknown, else 1..8 bytes on the supported platforms) */
    __CPROVER_assume(sz <= 8 && (s == Sign_UNKNOWN_SIGN || s == Sign_SIGNED || s == Sign_UNSIGNED));
    bigint old = v.intvalue; g_in_cs_value = old; g_in_cs_sz = sz; g_in_cs_sign = s; g_in_cs_impossible = v.impossible;
    dst_is_bool = nondet_bool(); if (dst_is_bool) __CPROVER_assume(sz == 1 && s == Sign_UNKNOWN_SIGN);
    /* only plain char (and bool) has an unknown sign; plain char is converted with the platform's default sign */
    dst_is_char = !dst_is_bool && sz == 1; if (!dst_is_bool) __CPROVER_assume(s != Sign_UNKNOWN_SIGN || dst_is_char);
    g_default_sign = nondet_char(); __CPROVER_assume(g_default_sign == 's' || g_default_sign == 'S' || g_default_sign == 'u' || g_default_sign == 'U' || g_default_sign == 0);
    g_in_cs_dsign = g_default_sign;
    if (s == Sign_UNKNOWN_SIGN && !dst_is_bool) { if (g_default_sign == 's' || g_default_sign == 'S') s = Sign_SIGNED; else if (g_default_sign == 'u' || g_default_sign == 'U') s = Sign_UNSIGNED; else return; }
    g_in_cs_bool = dst_is_bool;
    dst_bits = nondet_int(); __CPROVER_assume(dst_bits >= 0 && dst_bits < 64 && (dst_bits == 0 || (!dst_is_bool && (size_t)dst_bits <= 8 * sz)));
    g_in_cs_bits = dst_bits;
    truncateValues_block(&v, sz, (enum Sign)g_in_cs_sign);
    __CPROVER_assert(v.vtype == VV_INT && v.impossible == g_in_cs_impossible, "kind and impossibility of the value are kept");
    if (dst_is_bool && !v.impossible) __CPROVER_assert(v.intvalue == (old != 0), "a value stored in a bool is 0 for 0 and 1 for everything else (C11 6.3.1.2)");
    else if (!v.impossible && dst_bits > 0) {
        biguint bm = (1ULL << dst_bits) - 1, bu = (biguint)old & bm;
        bigint bw = (s == Sign_SIGNED && (bu >> (dst_bits - 1))) ? (bigint)(bu | ~bm) : (bigint)bu;
        __CPROVER_assert(v.intvalue == bw, "a value stored in a bit-field of N bits is the value reduced to N bits (C11 6.3.1.3 for the bit-field's width)");
    }
    else if (v.impossible || sz == 0 || sz == 8) __CPROVER_assert(v.intvalue == old, "impossible values and full-width / unknown-size destinations keep the value");
    else if (s == Sign_SIGNED) __CPROVER_assert(v.intvalue >= -(1LL << (8 * sz - 1)) && v.intvalue < (1LL << (8 * sz - 1)) && (((biguint)v.intvalue ^ (biguint)old) & ((1ULL << (8 * sz)) - 1)) == 0,
                                                "a value stored in a signed destination of sz bytes is the C conversion of the assigned value (C11 6.3.1.3)");
    else __CPROVER_assert((biguint)v.intvalue == ((biguint)old & ((1ULL << (8 * sz)) - 1)), "a value stored in an unsigned destination of sz bytes is the assigned value modulo 2^(8 sz)");
}
void h_callsite_cover(void) {
    struct VValue v; v.vtype = VV_INT; v.impossible = 0; v.intvalue = -1; v.floatValue = 0.0;
    dst_is_bool = 0; dst_is_char = 0; g_default_sign = 's'; dst_bits = 0;
    truncateValues_block(&v, 4, Sign_UNSIGNED);
    __CPROVER_assert(!(v.intvalue == 4294967295LL), "COVER: -1 stored in a 4-byte unsigned destination becomes 4294967295");
}
'''

REPLAY_CPP = r'''
#include "vf_common.h"
#include "mathlib.h"
#include "symboldatabase.h"
#include <cstdio>
#include <cstdlib>
#include <cstdint>
int main(int argc, char **argv) {
    long long value = strtoll(argv[1], nullptr, 10); size_t n = strtoull(argv[2], nullptr, 10); int s = atoi(argv[3]);
    long long r = ValueFlow::truncateIntValue(value, n, static_cast<ValueType::Sign>(s));
    long long want;
    if (n == 0 || n >= 8) want = value;
    else {
        unsigned long long m = (1ULL << (8*n)) - 1, u = (unsigned long long)value & m;
        if (s == ValueType::Sign::SIGNED && (u >> (8*n-1))) want = (long long)(u | ~m); else want = (long long)u;
    }
    printf("truncateIntValue(%lld, %zu, %d) = %lld, C conversion gives %lld\n", value, n, s, r, want);
    return r == want ? 0 : 1;
}
'''


def truncate_with_contract(kb, what=ID):
    """C text of ValueFlow::truncateIntValue with its contract (used by K01 and, as a replaced callee, by K44); returns (text, rules fired)"""
    loc = extract.locate_function("lib/vf_common.cpp", r'^\s*MathLib::bigint\s+truncateIntValue\s*\(')
    kb.add_located("ValueFlow::truncateIntValue", loc)
    text, n = located_rules(loc, _common.VT_RULES + [
        (r'std::numeric_limits<\s*biguint\s*>::max\(\)', 'ULLONG_MAX', 1, 1),
    ], what)
    sig, body = extract.body_of(text)
    extract.residue_scan(text, what)
    return sig + CONTRACT + body + "\n", n


def build(ctx):
    kb = KernelBuild(ID, TITLE)
    enums, _ = _common.valuetype_enums()
    trunc_text, n = truncate_with_contract(kb)
    kb.rules_fired = n
    # K01c: the call site in truncateValues (lib/valueflow.cpp) - the per-value block of its loop, with the callee replaced by its contract
    import re
    f = extract.locate_function("lib/valueflow.cpp", r'^static std::list<ValueFlow::Value> truncateValues\s*\(')
    mt = extract.mask(f.text)
    hs = list(re.finditer(r'for\s*\(\s*ValueFlow::Value\s*&\s*value\s*:\s*values\s*\)\s*\{', mt))
    if len(hs) != 1:
        raise extract.ExtractError("truncateValues: loop over the values not found")
    ob = hs[0].end() - 1
    cb = extract.match_brace(f.text, ob, mt)
    if not re.match(r'^\s*return values;\s*\}\s*$', extract.strip_comments(f.text[cb + 1:])):
        raise extract.ExtractError("truncateValues: unexpected code after the loop over the values")
    if not re.search(r'const size_t sz = dst->getSizeOf\(settings, ValueType::Accuracy::ExactOrZero, ValueType::SizeOf::Pointer\);', extract.strip_comments(f.text[:hs[0].start()])):
        raise extract.ExtractError("truncateValues: `sz` is no longer the size of the destination type")
    reg = extract.Located("lib/valueflow.cpp", f.text[ob + 1:cb], f.start + ob + 1, f.start + cb, extract.read("lib/valueflow.cpp"))
    kb.add_located("truncateValues [per-value block]", reg, "region")
    tc, k = located_rules(reg, _common.VT_RULES + [
        (r'\bvalue\.isImpossible\(\)', 'v->impossible', 1, 1),
        (r'\bvalue\.isFloatValue\(\)', '(v->vtype == VV_FLOAT)', 1, 3),
        (r'\bvalue\.isIntValue\(\)', '(v->vtype == VV_INT)', 1, 3),
        (r'\bvalue\.valueType\s*=\s*ValueFlow::Value::ValueType::INT\s*;', 'v->vtype = VV_INT;', 1, 2),
        (r'\bvalue\.(intvalue|floatValue)\b', r'v->\1', 3),
        (r'\bValueFlow::truncateIntValue\(', 'truncateIntValue(', 1, 1),
        (r'\bdst->sign\b', 'dst_sign', 0, 1),
        (r'\b(?:ValueFlow::)?getConversionSign\(\*dst, settings\)', 'getConversionSign(dst_is_char ? VType_CHAR : VType_INT, dst_sign, g_default_sign)', 0, 2),
        (r'\bdst->type == VType_BOOL && dst->pointer == 0\b', 'dst_is_bool', 0, 1),
        (r'\bdst->pointer == 0 && dst->bits > 0 && dst->bits < MathLib::bigint_bits\b', 'dst_bits > 0 && dst_bits < 64', 0, 1),
        (r'\bvalue = ValueFlow::castValue\(value, (getConversionSign\([^;]*\)), dst->bits\)\s*;', r'v->intvalue = castValue_int(v->intvalue, \1, dst_bits);', 0, 1),
        (r'\bcontinue\s*;', 'return;', 1, 3),
    ], ID + ".truncateValues"); n += k
    if re.search(r'\bvalue\.|ValueFlow|dst->|settings', extract.mask(tc)):
        raise extract.ExtractError("K01c: per-value block not fully lowered: %r" % tc.strip()[:300])
    # the signedness used for the conversion (plain char: the platform's default)
    tcs_text, k = _common.conversion_sign(kb, ID); n += k
    cvi_text, k = _common.cast_value_int(kb, ID); n += k
    kb.rules_fired = n
    callsite = (tcs_text + cvi_text + "_Bool dst_is_char;   /* the destination is a char type */\nint dst_bits;         /* width of a bit-field destination (ValueType::bits), 0 otherwise */\n" +"enum VVType { VV_INT, VV_FLOAT, VV_OTHER };\nstruct VValue { enum VVType vtype; _Bool impossible; bigint intvalue; double floatValue; };\n"
                "_Bool dst_is_bool;   /* the destination is a (non-pointer) bool: dst->type == BOOL && dst->pointer == 0 */\nvoid truncateValues_block(struct VValue *v, const size_t sz, enum Sign dst_sign)\n{\n%s\n}\n" % extract.strip_comments(tc))
    extract.residue_scan(callsite, ID)
    kb.ctext = _common.BASE + enums + trunc_text + callsite + HARNESS + HARNESS_CALLSITE
    kb.job("callsite.truncateValues", "h_callsite", replace=["truncateIntValue"],
           note="per-value block of truncateValues with truncateIntValue replaced by its contract (its precondition value_size <= 8 is checked at the call)")
    kb.job("callsite.cover", "h_callsite_cover", kind="cover", replace=["truncateIntValue"])
    kb.assumptions += ["truncateValues: only the per-value block; `sz` is the destination type's size (pinned by text, getSizeOf not verified); the removal of impossible values before the loop is not verified; float values are not constrained"]
    kb.job("contract", "h_K01", enforce="truncateIntValue", replay="native")
    kb.job("cover", "h_K01_cover", kind="cover")
    kb.job("twin", "h_K01", kind="twin", enforce="truncateIntValue", defines=["TWIN"])
    kb.assumptions += ["requires value_size <= 8: established at the call sites (K01c); sizes > 8 make the shift amount negative"]

    def replay(inputs, ctx):
        rc, out, cmd = native.compile_run("replay_K01", REPLAY_CPP,
                                          [inputs.get("g_in_value", 0), inputs.get("g_in_value_size", 0), inputs.get("g_in_dst_sign", 0)], sanitize=True)
        return native.verdict_from_rc(rc, out), out, cmd
    kb.replayers["native"] = replay
    return kb
