"""K06  calculate<bigint,bigint> (lib/calculate.h) + isEqual/isZero + MathLib::encodeMultiChar.

The template is instantiated at R = T = MathLib::bigint (the instantiation used by
constant folding in vf_settokenvalue.cpp and programmemory.cpp).  The switch key
MathLib::encodeMultiChar(s) is lowered to an int parameter `op`; encodeMultiChar
itself is extracted and proved to produce GCC's multi-character constants for
every operator spelling the switch knows.  One obligation group per concrete
operator (a symbolic operator mixes 64-bit * / % in one query and does not finish).

Oracle: C11 6.5.5-6.5.14 on `long long`.  `*error` unset => result is the C
result whenever C defines it; C-undefined / % << >> => *error set.
Signed overflow of + - * << inside calculate itself is cppcheck's own UB: C13.
"""
import re

from vlib import extract, native
from vlib.kernel import KernelBuild, located_rules
from . import _common

ID = "K06"
SERVES = ["C01", "C10", "C13"]
TITLE = "calculate<bigint,bigint> == C arithmetic on long long"

OPS = [  # (job name, C char constant, spelling)
    ("add", "'+'", "+"), ("sub", "'-'", "-"), ("mul", "'*'", "*"), ("div", "'/'", "/"), ("mod", "'%'", "%"),
    ("and", "'&'", "&"), ("or", "'|'", "|"), ("xor", "'^'", "^"), ("gt", "'>'", ">"), ("lt", "'<'", "<"),
    ("shl", "'<<'", "<<"), ("shr", "'>>'", ">>"), ("land", "'&&'", "&&"), ("lor", "'||'", "||"),
    ("eq", "'=='", "=="), ("ne", "'!='", "!="), ("ge", "'>='", ">="), ("le", "'<='", "<="), ("cmp3", "'<=>'", "<=>"),
]
# operators whose own evaluation overflowed before the fix 0b25011 (kept as ordinary obligations with all checks on)
WRAP = [("addWrap", "+"), ("subWrap", "-"), ("mulWrap", "*")]

CONTRACT = r'''
__CPROVER_requires(error == NULL || __CPROVER_is_fresh(error, sizeof(*error)))
/* callers that pass no error pointer (vf_settokenvalue.cpp container sizes, infer.cpp) use + and comparisons only */
__CPROVER_requires(error == NULL ==> !(op == '/' || op == '%' || op == '<<' || op == '>>'))
__CPROVER_assigns(verif_thrown; error != NULL: *error)
#define NOERR (error == NULL || *error == __CPROVER_old(*error))
#define ERRSET (error == NULL || *error == 1)
#ifndef TWIN
__CPROVER_ensures(op == '+' ==> (NOERR && (!__CPROVER_overflow_plus(x, y) ==> __CPROVER_return_value == x + y)))
__CPROVER_ensures(op == '-' ==> (NOERR && (!__CPROVER_overflow_minus(x, y) ==> __CPROVER_return_value == x - y)))
__CPROVER_ensures(op == '*' ==> (NOERR && (!__CPROVER_overflow_mult(x, y) ==> __CPROVER_return_value == x * y)))
/* unsigned 64-bit arithmetic is carried in bigint: wrap-around modulo 2^64 (C11 6.2.5p9) */
__CPROVER_ensures(op == '+' ==> __CPROVER_return_value == (bigint)((biguint)x + (biguint)y))
__CPROVER_ensures(op == '-' ==> __CPROVER_return_value == (bigint)((biguint)x - (biguint)y))
__CPROVER_ensures(op == '*' ==> __CPROVER_return_value == (bigint)((biguint)x * (biguint)y))
/* C11 6.5.5p5-6: x/y and x%y undefined iff y == 0 or the quotient is not representable */
__CPROVER_ensures((op == '/' || op == '%') ==> ((y == 0 || (x == LLONG_MIN && y == -1)) ==> (ERRSET && __CPROVER_return_value == 0)))
__CPROVER_ensures(op == '/' ==> (y > 0 ==> (NOERR && __CPROVER_return_value == x / y)))
__CPROVER_ensures(op == '%' ==> (y > 0 ==> (NOERR && __CPROVER_return_value == x % y)))
/* declining (error set) is always allowed; a result without error must be the C result */
__CPROVER_ensures((op == '/' || op == '%') ==> (y < 0 ==> (ERRSET && __CPROVER_return_value == 0)))
__CPROVER_ensures(op == '&' ==> (NOERR && __CPROVER_return_value == (x & y)))
__CPROVER_ensures(op == '|' ==> (NOERR && __CPROVER_return_value == (x | y)))
__CPROVER_ensures(op == '^' ==> (NOERR && __CPROVER_return_value == (x ^ y)))
__CPROVER_ensures(op == '>' ==> (NOERR && __CPROVER_return_value == (x > y)))
__CPROVER_ensures(op == '<' ==> (NOERR && __CPROVER_return_value == (x < y)))
__CPROVER_ensures(op == '>=' ==> (NOERR && __CPROVER_return_value == (x >= y)))
__CPROVER_ensures(op == '<=' ==> (NOERR && __CPROVER_return_value == (x <= y)))
__CPROVER_ensures(op == '==' ==> (NOERR && __CPROVER_return_value == (x == y)))
__CPROVER_ensures(op == '!=' ==> (NOERR && __CPROVER_return_value == (x != y)))
__CPROVER_ensures(op == '&&' ==> (NOERR && __CPROVER_return_value == (x && y)))
__CPROVER_ensures(op == '||' ==> (NOERR && __CPROVER_return_value == (x || y)))
/* C11 6.5.7p3: undefined if the right operand is negative or >= width; p4: x<<y for signed x undefined if x<0 or x*2^y not representable */
__CPROVER_ensures((op == '<<' || op == '>>') ==> ((y < 0 || y >= 64) ==> (ERRSET && __CPROVER_return_value == 0)))
__CPROVER_ensures(op == '<<' ==> (x < 0 ==> (ERRSET && __CPROVER_return_value == 0)))
__CPROVER_ensures(op == '<<' ==> ((x >= 0 && y >= 0 && y < 63 && (((biguint)x << y) >> y) == (biguint)x && (((biguint)x << y) >> 63) == 0) ==>
      (!*error ==> __CPROVER_return_value == (bigint)((biguint)x << y))))
__CPROVER_ensures(op == '>>' ==> ((x >= 0 && y >= 0 && y < 64) ==> (!*error ==> __CPROVER_return_value == (bigint)((biguint)x >> y))))
/* x >> y with x < 0 is implementation-defined (6.5.7p5): every compiler the platforms name shifts arithmetically */
__CPROVER_ensures(op == '>>' ==> ((x < 0 && y >= 0 && y < 64) ==> (!*error ==> __CPROVER_return_value == (x >> y))))
__CPROVER_ensures(op == '<=>' ==> (NOERR &&
      ((__CPROVER_return_value < 0) == (x < y) && (__CPROVER_return_value == 0) == (x == y) && (__CPROVER_return_value > 0) == (x > y))))
__CPROVER_ensures((op=='+'||op=='-'||op=='*'||op=='/'||op=='%'||op=='&'||op=='|'||op=='^'||op=='>'||op=='<'||op=='<<'||op=='>>'||op=='&&'||op=='||'||op=='=='||op=='!='||op=='>='||op=='<='||op=='<=>') == !verif_thrown)
#else
__CPROVER_ensures(op == '/' ==> (NOERR && __CPROVER_return_value == (y ? x / y : 0)))
__CPROVER_ensures(op != '/' ==> (__CPROVER_return_value != x))
#endif
'''

HARNESS = r'''
bigint g_in_x, g_in_y; int g_in_haserr;
#ifndef OP
#define OP nondet_int()
#endif
void h_calc(void) {
    bigint x = nondet_bigint(), y = nondet_bigint(); _Bool *e;
    g_in_x = x; g_in_y = y; verif_thrown = 0;
    (void)calculate(OP, x, y, e);
}
void h_calc_cover(void) {
    bigint x = nondet_bigint(), y = nondet_bigint(); _Bool err = 0; verif_thrown = 0;
    bigint r = calculate('/', x, y, &err);
    __CPROVER_assert(!(err), "COVER: division declines");
    __CPROVER_assert(!(!err && r == 7 && y == 3), "COVER: division computes");
    bigint r2 = calculate('<<', x, y, &err);
    __CPROVER_assert(!(!err && r2 == 1024 && x == 1), "COVER: shift computes");
}
void h_unknown(void) {
    int op = nondet_int(); _Bool err = 0; verif_thrown = 0;
    __CPROVER_assume(!(op=='+'||op=='-'||op=='*'||op=='/'||op=='%'||op=='&'||op=='|'||op=='^'||op=='>'||op=='<'||op=='<<'||op=='>>'||op=='&&'||op=='||'||op=='=='||op=='!='||op=='>='||op=='<='||op=='<=>'));
    (void)calculate(op, nondet_bigint(), nondet_bigint(), &err);
    __CPROVER_assert(verif_thrown, "unknown operator throws");
}
/* encodeMultiChar: every operator spelling maps to GCC's multi-character constant */
void h_encode(void) {
@ENC@
}
'''

REPLAY_CPP = r'''
#include "config.h"
#include "mathlib.h"
#include "errortypes.h"
#include "calculate.h"
#include <cstdio>
#include <cstdlib>
#include <climits>
typedef long long ll; typedef unsigned long long ull;
int main(int argc, char **argv) {
    std::string op = argv[1]; ll x = strtoll(argv[2], nullptr, 10), y = strtoll(argv[3], nullptr, 10);
    bool err = false; ll r = 0; bool thrown = false;
    try { r = calculate<MathLib::bigint, MathLib::bigint>(op, x, y, &err); } catch (const InternalError&) { thrown = true; }
    bool defined = true; ll want = 0; __int128 w;
    if (op == "+") { w = (__int128)x + y; defined = w >= LLONG_MIN && w <= LLONG_MAX; want = (ll)w; }
    else if (op == "-") { w = (__int128)x - y; defined = w >= LLONG_MIN && w <= LLONG_MAX; want = (ll)w; }
    else if (op == "*") { w = (__int128)x * y; defined = w >= LLONG_MIN && w <= LLONG_MAX; want = (ll)w; }
    else if (op == "/") { defined = y != 0 && !(x == LLONG_MIN && y == -1); if (defined) want = x / y; }
    else if (op == "%") { defined = y != 0 && !(x == LLONG_MIN && y == -1); if (defined) want = x % y; }
    else if (op == "<<") { defined = x >= 0 && y >= 0 && y < 64 && (((__int128)x << y) <= LLONG_MAX); if (defined) want = (ll)((ull)x << y); }
    else if (op == ">>") { defined = y >= 0 && y < 64; if (defined) want = x >> y; }
    else if (op == "&") want = x & y; else if (op == "|") want = x | y; else if (op == "^") want = x ^ y;
    else if (op == ">") want = x > y; else if (op == "<") want = x < y; else if (op == ">=") want = x >= y; else if (op == "<=") want = x <= y;
    else if (op == "==") want = x == y; else if (op == "!=") want = x != y; else if (op == "&&") want = x && y; else if (op == "||") want = x || y;
    else if (op == "<=>") { w = (__int128)x - y; defined = w >= LLONG_MIN && w <= LLONG_MAX; if (defined) { printf("calculate(<=>) = %lld for %lld,%lld\n", r, x, y); return ((r<0)==(x<y) && (r==0)==(x==y)) ? 0 : 1; } }
    printf("calculate(\"%s\", %lld, %lld) = %lld error=%d thrown=%d; C: %s %lld\n", op.c_str(), x, y, r, (int)err, (int)thrown, defined ? "defined," : "undefined", want);
    if (thrown) return 1;
    if (!defined) return (err || op == "+" || op == "-" || op == "*" || op == "<=>") ? 0 : 1;   /* UBSan aborts before here on own overflow */
    if (err) return 0;
    return r == want ? 0 : 1;
}
'''


def build(ctx):
    kb = KernelBuild(ID, TITLE)
    out = [_common.BASE]
    # isEqual<T>, isZero<T> at T = bigint
    le = extract.locate_function("lib/calculate.h", r'^bool\s+isEqual\s*\(\s*T\s+x\s*,\s*T\s+y\s*\)')
    lz = extract.locate_function("lib/calculate.h", r'^bool\s+isZero\s*\(\s*T\s+x\s*\)')
    lc = extract.locate_function("lib/calculate.h", r'^R\s+calculate\s*\(\s*const\s+std::string\s*&\s*s')
    kb.add_located("isEqual<bigint>", le)
    kb.add_located("isZero<bigint>", lz)
    kb.add_located("calculate<bigint,bigint>", lc)
    n = 0
    t, k = located_rules(le, [(r'\bT\b', 'bigint', 2, 2)], ID + ".isEqual"); n += k
    out.append(t + "\n")
    t, k = located_rules(lz, [(r'\bT\(0\)', '(bigint)0', 1, 1), (r'\bT\b', 'bigint', 1, 1)], ID + ".isZero"); n += k
    out.append(t + "\n")
    for hname, _ in WRAP:
        lw = extract.locate_function("lib/calculate.h", r'^T\s+%s\s*\(\s*T\s+x\s*,\s*T\s+y\s*,\s*std::true_type' % hname)
        kb.add_located("%s<bigint>(integral)" % hname, lw)
        t, k = located_rules(lw, [
            (r'std::true_type\s*(?:/\*[^*]*\*/)?', 'int integral_', 1, 1),
            (r'using\s+U\s*=\s*typename\s+std::make_unsigned<T>::type\s*;', 'typedef biguint U;', 1, 1),
            (r'\bT\b', 'bigint', 4, 4),
        ], ID + "." + hname); n += k
        out.append(t + "\n")
    t, k = located_rules(lc, [
        (r'^R\s+calculate\s*\(\s*const\s+std::string\s*&\s*s\s*,\s*const\s+T\s*&\s*x\s*,\s*const\s+T\s*&\s*y\s*,\s*bool\s*\*\s*error\s*=\s*NULL\s*\)',
         'bigint calculate(int op, bigint x, bigint y, _Bool *error)', 1, 1),
        (r'auto\s+wrap\s*=\s*\[\]\s*\(\s*T\s+z\s*\)\s*\{\s*return\s+R\s*\{\s*z\s*\}\s*;\s*\}\s*;', '', 1, 1),
        (r'\bwrap\(', '(bigint)(', 19),
        (r'\bR\{\}', '(bigint)0', 4),
        (r'std::is_signed<T>\{\}', '1', 2, 2),
        (r'std::is_integral<T>\{\}', '1', 3, 3),
        (r'MathLib::encodeMultiChar\(s\)', 'op', 1, 1),
        (r'(?<![\w\)])bigint\(([xy])\)', r'((bigint)(\1))', 10),
        (r'throw\s+InternalError\(NULL,\s*"Unknown operator: "\s*\+\s*s\);', 'VERIF_THROW(); return 0;', 1, 1),
    ], ID + ".calculate"); n += k
    sig, body = extract.body_of(t)
    out.append("%s\n%s%s\n" % (sig, CONTRACT, body))
    # encodeMultiChar
    lm = extract.locate_function("lib/mathlib.cpp", r'^unsigned int MathLib::encodeMultiChar\s*\(')
    kb.add_located("MathLib::encodeMultiChar", lm)
    t, k = located_rules(lm, [
        (r'^unsigned int MathLib::encodeMultiChar\s*\(\s*const std::string\s*&\s*str\s*\)', 'unsigned int encodeMultiChar(const char *str, size_t str_len)', 1, 1),
        (r'return\s+std::accumulate\(\s*str\.cbegin\(\)\s*,\s*str\.cend\(\)\s*,\s*(\w+)\(\)\s*,\s*\[\]\s*\(\s*(\w+)\s+(\w+)\s*,\s*char\s+(\w+)\s*\)\s*\{\s*return\s+([^;]+);\s*\}\s*\)\s*;',
         r'\1 \3 = 0; for (size_t i_ = 0; i_ < str_len; i_++) { char \4 = str[i_]; \3 = \5; } return \3;', 1, 1),
    ], ID + ".encodeMultiChar"); n += k
    out.append(t + "\n")
    kb.rules_fired = n
    enc = "\n".join('    __CPROVER_assert(encodeMultiChar("%s", %d) == (unsigned)%s, "encodeMultiChar(\\"%s\\") is the switch key %s");'
                    % (sp, len(sp), cc, sp, cc.replace("'", "")) for _, cc, sp in OPS)
    text = "".join(out)
    extract.residue_scan(text, ID)
    kb.ctext = text + HARNESS.replace('@ENC@', enc)
    for name, cc, sp in OPS:
        # functional obligation (C01/C10): cppcheck's own overflow checks off here, they are decided in the .ub jobs
        kb.job(name, "h_calc", enforce="calculate", defines=["OP=" + cc], replay="op:" + sp,
               solver="z3" if name in ("div", "mod", "mul") else None)
    kb.job("unknown-op", "h_unknown", unwind=None)
    kb.job("encodeMultiChar", "h_encode", kind="bounded", unwind=5, note="operator spellings are concrete strings of length <= 3; loop fully unwound")
    kb.job("cover", "h_calc_cover", kind="cover")
    j = kb.job("twin", "h_calc", kind="twin", enforce="calculate", defines=["TWIN"], timeout=60)
    kb.assumptions += ["template instantiated at R=T=MathLib::bigint only (double and std::vector<bigint> instantiations are not verified)",
                       "switch key: encodeMultiChar(s) replaced by an int parameter; the equality with the multi-character constants is the separate job K06.encodeMultiChar",
                       "error == NULL only with operators that are never declined (+ and comparisons: the call sites in vf_settokenvalue.cpp:284-288 and infer.cpp:230-332)",
                       "x >> y for negative x taken as arithmetic shift (implementation-defined in C, fixed by every ABI the platforms name)"]

    for name, cc, sp in OPS:
        def rp(inputs, ctx, sp=sp):
            rc, o, cmd = native.compile_run("replay_K06", REPLAY_CPP, [sp, inputs.get("g_in_x", 0), inputs.get("g_in_y", 0)], sanitize=True)
            return native.verdict_from_rc(rc, o), o, cmd
        kb.replayers["op:" + sp] = rp
    return kb
