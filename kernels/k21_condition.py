"""K21  verdict block of CheckCondition::comparison   and
K22  verdict block of CheckCondition::checkCompareValueOutOfTypeRange      (lib/checkcondition.cpp)

Both blocks decide "this comparison always has value r".  Postcondition from property C03: whenever the block
reports a verdict, the comparison has that value for EVERY value of the non-constant operand (a ghost value), under
the C semantics of the operators (C11 6.3.1.8 usual arithmetic conversions, 6.5.8/6.5.9, 6.5.10/6.5.12).

K21: region = body of the loop over the constant children of the `&` / `|` expression.
K22: region = from the computation of `bits` to the `error` decision; interface: type and sign of the variable
     operand, type and sign of the constant operand, the platform widths, the constant, the operator, which side.
"""
import re

from vlib import extract, native
from vlib.kernel import KernelBuild, located_rules
from . import _common

ID = "K21"
SERVES = ["C03", "C13"]
TITLE = "always-true/false verdict tables of comparison() and checkCompareValueOutOfTypeRange()"

PRE = r'''
#include "vstr.h"
static _Bool op_in(const char *op, size_t op_len, const char *alts)
{   /* Token::Match(tok, "a|b") for a one-word pattern of plain alternatives */
    size_t i = 0;
    for (int k = 0; k < 4; k++) {
        size_t j = i; while (alts[j] != 0 && alts[j] != '|') j++;
        if (j - i == op_len) { _Bool eq = 1; for (size_t t = 0; t < 3; t++) if (t < op_len && op[t] != alts[i + t]) eq = 0; if (eq) return 1; }
        if (alts[j] == 0) return 0;
        i = j + 1;
    }
    return 0;
}
int g_reported; _Bool g_result; char g_rep_op[4];
#define REPORT(r) do { g_reported++; g_result = (r); for (int i_ = 0; i_ < 4; i_++) g_rep_op[i_] = i_ < (int)op_len ? op[i_] : 0; } while (0)
/* operand selection of comparison(): the two operands are the ids 1 (left) and 2 (right) */
#define KNOWN(e) ((e) == 1 ? known1 : known2)
'''

HARNESS = r'''
bigint g_in_num1, g_in_num2, g_in_x, g_in_kiv, g_in_v; int g_in_op, g_in_bitop, g_in_unsigned, g_in_known1, g_in_known2, g_in_i, g_in_tt, g_in_tsign, g_in_lbits, g_in_lsign, g_in_bits;
static const char *OPS[7] = {"==", "!=", "<", "<=", ">", ">=", "<=>"};
static _Bool c_cmp_s(int op, bigint a, bigint b) { return op == 0 ? a == b : op == 1 ? a != b : op == 2 ? a < b : op == 3 ? a <= b : op == 4 ? a > b : a >= b; }
static _Bool c_cmp_u(int op, biguint a, biguint b) { return op == 0 ? a == b : op == 1 ? a != b : op == 2 ? a < b : op == 3 ? a <= b : op == 4 ? a > b : a >= b; }
static int op_index(const char *s) { for (int k = 0; k < 7; k++) { _Bool eq = 1; for (int i = 0; i < 4; i++) { if (s[i] != OPS[k][i]) { eq = 0; break; } if (s[i] == 0) break; } if (eq) return k; } return -1; }
void h_comparison(void) {
    bigint num1 = nondet_bigint(), num2 = nondet_bigint(), x = nondet_bigint(); int op = nondet_int(), bit = nondet_int(); _Bool uns = nondet_bool();
    _Bool known1 = nondet_bool(), known2 = nondet_bool();      /* which operand of the comparison has a known value */
    __CPROVER_assume(num2 >= 0 && op >= 0 && op <= 6 && (bit == 0 || bit == 1));
    __CPROVER_assume(!uns || x >= 0);                 /* the other operand of | is unsigned */
    g_in_num1 = num1; g_in_num2 = num2; g_in_x = x; g_in_op = op; g_in_bitop = bit; g_in_unsigned = uns; g_in_known1 = known1; g_in_known2 = known2;
    g_reported = 0; int const_side = 0;
    comparison_block(known1, known2, OPS[op], op == 6 ? 3 : (op <= 1 || op == 3 || op == 5) ? 2 : 1, num1, num2, bit ? "|" : "&", 1, uns, &const_side);
    __CPROVER_assert(g_reported <= 1, "at most one verdict per constant");
    bigint e = bit ? (x | num1) : (x & num1);          /* the expression operand; num2 is the value of the constant operand */
    /* for | the checker only reasons about unsigned operands; with a signed operand it must stay silent or be right */
    if (g_reported && op != 6) {
        __CPROVER_assert(const_side == 1 || const_side == 2, "a verdict is reported only after a constant operand was selected");
        __CPROVER_assert(KNOWN(const_side), "the operand taken as the constant has a known value");
        _Bool truth = const_side == 2 ? c_cmp_s(op, e, num2) : c_cmp_s(op, num2, e);
        __CPROVER_assert(truth == g_result, "a reported always-true/false verdict is the value of the comparison as written, for every X");
        int rop = op_index(g_rep_op);
        __CPROVER_assert(rop >= 0 && rop <= 5 && c_cmp_s(rop, e, num2) == g_result, "the reported text `(X bitop num1) OP num2 is always R` is a true statement for every X");
    }
}
/* value set of the variable operand, and the C comparison after the usual arithmetic conversions */
static _Bool in_type(bigint v, int bits, int sgn) { if (bits >= 64) return sgn ? 1 : v >= 0; return sgn ? (v >=-(bigint)(1ULL << (bits - 1)) && v <= (bigint)((1ULL << (bits - 1)) - 1)) : (v >= 0 && (biguint)v <= (bits >= 64 ? ~0ULL : ((1ULL << bits) - 1))); }
void h_range(void) {
    struct Platform pl; pl.char_bit = 8; pl.short_bit = 16; pl.int_bit = nondet_uchar(); pl.long_bit = nondet_uchar(); pl.long_long_bit = 64;
    __CPROVER_assume((pl.int_bit == 16 || pl.int_bit == 32) && (pl.long_bit == 32 || pl.long_bit == 64) && pl.long_bit >= pl.int_bit);
    enum VType tt = (enum VType)nondet_int(); enum Sign ts = (enum Sign)nondet_int();
    __CPROVER_assume(tt == VType_BOOL || tt == VType_CHAR || tt == VType_SHORT || tt == VType_INT || tt == VType_LONG || tt == VType_LONGLONG);
    __CPROVER_assume(ts == Sign_UNKNOWN_SIGN || ts == Sign_SIGNED || ts == Sign_UNSIGNED);
    __CPROVER_assume((tt == VType_BOOL) == (ts == Sign_UNKNOWN_SIGN) || tt == VType_CHAR);     /* ValueType invariant: bool has no sign; only char may have an unknown sign */
    /* the constant operand: an integer literal/constant of type int, long or long long, signed or unsigned (C11 6.4.4.1) */
    int lsel = nondet_int(); __CPROVER_assume(lsel >= 0 && lsel <= 2); int lbits = lsel == 0 ? pl.int_bit : lsel == 1 ? pl.long_bit : 64; _Bool lsigned = nondet_bool();
    bigint kiv = nondet_bigint(); __CPROVER_assume(lsigned ? in_type(kiv, lbits, 1) : (kiv >= 0 && (lbits >= 64 || (biguint)kiv <= ((1ULL << lbits) - 1))));
    int op = nondet_int(), i = nondet_int(); __CPROVER_assume(op >= 0 && op <= 5 && (i == 0 || i == 1));
    _Bool error = 0, result = 0; uint8_t bits_out = 0;
    range_block(tt, ts, 1, lsigned ? Sign_SIGNED : Sign_UNSIGNED, &pl, kiv, OPS[op], (op <= 1 || op == 3 || op == 5) ? 2 : 1, i, &error, &result, &bits_out);
    if (!error) return;
    int bits = bits_out;
    /* ghost value of the variable: any value of its type (plain char: either signedness) */
    bigint v = nondet_bigint(); _Bool vsigned = ts == Sign_SIGNED || (ts == Sign_UNKNOWN_SIGN && tt == VType_CHAR && nondet_bool());
    if (tt == VType_BOOL) __CPROVER_assume(v == 0 || v == 1); else __CPROVER_assume(in_type(v, bits, vsigned));
    g_in_tt = tt; g_in_tsign = ts; g_in_bits = bits; g_in_lbits = lbits; g_in_lsign = lsigned; g_in_kiv = kiv; g_in_v = v; g_in_op = op; g_in_i = i;
    /* usual arithmetic conversions: promote the variable to int if narrower, then find the common type */
    int pb = bits < pl.int_bit ? pl.int_bit : bits; _Bool ps = bits < pl.int_bit ? 1 : vsigned;
    int cb; _Bool cs;
    if (ps == lsigned) { cb = pb > lbits ? pb : lbits; cs = ps; }
    else { int ub = ps ? lbits : pb, sb = ps ? pb : lbits; if (ub >= sb) { cb = ub; cs = 0; } else { cb = sb; cs = 1; } }
    /* value-flow hands over the constant already converted to an unsigned common type (observed: `u > -1` is reported against 4294967295) */
    __CPROVER_assume(cs || kiv >= 0);
    _Bool truth;
    if (cs) truth = i == 0 ? c_cmp_s(op, kiv, v) : c_cmp_s(op, v, kiv);
    else { biguint m = cb >= 64 ? ~0ULL : ((1ULL << cb) - 1); biguint a = (biguint)kiv & m, b = (biguint)v & m; truth = i == 0 ? c_cmp_u(op, a, b) : c_cmp_u(op, b, a); }
#if defined(CLASS_MIXED)
    __CPROVER_assume(vsigned && !lsigned);          /* recorded finding: signed variable against an unsigned constant */
#elif defined(CLASS_REST)
    __CPROVER_assume(!(vsigned && !lsigned));
#endif
    __CPROVER_assert(truth == result, "a reported always-true/false verdict is the value of the comparison for every value of the variable's type");
}
void h_cover(void) {
    g_reported = 0; bigint n1 = nondet_bigint(), n2 = nondet_bigint(); __CPROVER_assume(n2 >= 0);
    int side = 0;
    comparison_block(0, 1, "==", 2, n1, n2, "&", 1, 0, &side);
    __CPROVER_assert(!(g_reported == 1 && g_result == 0), "COVER: (X & n1) == n2 reported always false");
    g_reported = 0; side = 0;
    comparison_block(1, 0, ">", 1, 3, 7, "&", 1, 0, &side);
    __CPROVER_assert(!(g_reported == 1 && side == 1 && g_result == 1), "COVER: 7 > (X & 3) reported always true (constant on the left)");
    struct Platform pl; pl.char_bit = 8; pl.short_bit = 16; pl.int_bit = 32; pl.long_bit = 64; pl.long_long_bit = 64; _Bool e = 0, r = 0; uint8_t b = 0;
    range_block(VType_CHAR, Sign_UNSIGNED, 1, Sign_SIGNED, &pl, nondet_bigint(), "<", 1, 1, &e, &r, &b);
    __CPROVER_assert(!(e && r), "COVER: unsigned char < constant reported always true");
}
'''

REPLAY_CPP = r'''
#include <cstdio>
#include <cstdlib>
#include <string>
#include <sstream>
#include <fstream>
/* end-to-end replay through the real checker: write a tiny C file with the comparison and look at the verdict */
int main(int argc, char **argv) {
    std::string cppcheck = argv[1]; std::string decl = argv[2], expr = argv[3]; std::string want = argv[4];   /* want: "true"/"false" truth for the witness value, witness in argv[5] */
    std::ofstream f("/tmp/verif_k21_replay.c"); f << "void g(void);\nvoid f(" << decl << " x){ if (" << expr << ") g(); }\n"; f.close();
    std::string cmd = cppcheck + " -q --enable=style --platform=unix64 --template='{id}:{message}' /tmp/verif_k21_replay.c 2>&1";
    FILE *p = popen(cmd.c_str(), "r"); std::string out; char buf[512]; while (p && fgets(buf, sizeof buf, p)) out += buf; if (p) pclose(p);
    printf("%s", out.c_str());
    bool saysTrue = out.find("Condition is always true") != std::string::npos, saysFalse = out.find("Condition is always false") != std::string::npos;
    printf("source: void f(%s x){ if (%s) ... }  witness x = %s makes the condition %s\n", decl.c_str(), expr.c_str(), argv[5], want.c_str());
    if ((saysTrue && want == "false") || (saysFalse && want == "true")) return 1;
    return 0;
}
'''


def build(ctx):
    kb = KernelBuild(ID, TITLE)
    enums, _ = _common.valuetype_enums()
    pstruct, pfields, _ = _common.platform_struct()
    out = [_common.BASE, enums, pstruct, PRE]
    n = 0
    # ---- K21
    f = extract.locate_function("lib/checkcondition.cpp", r'^void CheckCondition::comparison\s*\(\s*\)')
    mb = extract.mask(f.text)
    hs = list(re.finditer(r'for\s*\(\s*const\s+MathLib::bigint\s+num1\s*:\s*numbers\s*\)\s*\{', mb))
    if len(hs) != 1:
        raise extract.ExtractError("comparison(): loop over numbers not found")
    ob = hs[0].end() - 1
    cb = extract.match_brace(f.text, ob, mb)
    reg = extract.Located("lib/checkcondition.cpp", f.text[ob + 1:cb], f.start + ob + 1, f.start + cb, extract.read("lib/checkcondition.cpp"))
    kb.add_located("CheckCondition::comparison [verdict block per constant]", reg, "region")
    t, k = located_rules(reg, [
        (r'\bcontinue\s*;', 'return;', 1, 1),
        (r'expr1->str\(\)\s*==\s*("[&|]")', r'vstr_eq(bitop, bitop_len, \1)', 4),
        (r'\(expr1->astOperand1\(\)->valueType\(\)\)\s*&&\s*\(expr1->astOperand1\(\)->valueType\(\)->sign\s*==\s*ValueType::Sign::UNSIGNED\)', 'lhs_unsigned', 1, 1),
        (r'comparisonError\(expr1,\s*expr1->str\(\),\s*num1,\s*op,\s*num2,\s*([^;]*)\)\s*;', r'REPORT(\1);', 5),
        (r'\bop != ("(?:[^"\\]|\\.)*")', r'!vstr_eq(op, op_len, \1)', 1),
        (r'\bop == ("(?:[^"\\]|\\.)*")', r'vstr_eq(op, op_len, \1)', 8),
    ], ID + ".comparison"); n += k
    if re.search(r'\btok\b|Token::', extract.mask(t)):
        raise extract.ExtractError("comparison(): the verdict block reads the operator token directly (expected: the local `op`): %r" % re.findall(r'[^\n]*(?:\btok\b|Token::)[^\n]*', extract.mask(t))[:2])
    verdict = extract.strip_comments(t)
    # operand selection: which operand is the constant, and the operator as seen with the constant on the right
    ms = list(re.finditer(r'const\s+Token\s*\*\s*expr1\s*=\s*tok->astOperand1\(\)\s*;', mb))
    me = list(re.finditer(r'if\s*\(\s*!compareTokenFlags\(', mb))
    if len(ms) != 1 or len(me) != 1 or not ms[0].start() < me[0].start() < hs[0].start():
        raise extract.ExtractError("comparison(): operand selection (`const Token *expr1 = tok->astOperand1();` ... `if (!compareTokenFlags(`) not found")
    sel = extract.Located("lib/checkcondition.cpp", f.text[ms[0].start():me[0].start()], f.start + ms[0].start(), f.start + me[0].start(), extract.read("lib/checkcondition.cpp"))
    kb.add_located("CheckCondition::comparison [operand selection]", sel, "region")
    # between the selection and the verdict loop: only the flag comparison, the constant's value, the `&`/`|` test and the collection of the constants
    mid = " ".join(extract.strip_comments(f.text[me[0].start():hs[0].start()]).split())
    want_mid = ('if (!compareTokenFlags(expr1, expr2, true)) continue; const MathLib::bigint num2 = expr2->getKnownIntValue(); if (num2 < 0) continue; '
                'if (!Token::Match(expr1,"[&|]")) continue; std::list<MathLib::bigint> numbers; getnumchildren(expr1, numbers);')
    if mid.replace(" ", "") != want_mid.replace(" ", ""):
        raise extract.ExtractError("comparison(): the statements between operand selection and verdict loop changed: %r" % mid[:400])
    ts, k = located_rules(sel, [
        (r'const\s+Token\s*\*\s*expr1\s*=\s*tok->astOperand1\(\)\s*;', 'int expr1 = 1;', 1, 1),
        (r'const\s+Token\s*\*\s*expr2\s*=\s*tok->astOperand2\(\)\s*;', 'int expr2 = 2;', 1, 1),
        (r'\bcontinue\s*;', 'return;', 2),
        (r'std::string\s+op\s*=\s*tok->str\(\)\s*;', 'char op[4]; size_t op_len = tokop_len; for (size_t i_ = 0; i_ < 4; i_++) op[i_] = i_ < tokop_len ? tokop[i_] : 0;', 1, 1),
        (r'\bexpr([12])->hasKnownIntValue\(\)', r'KNOWN(expr\1)', 2, 2),
        (r'std::swap\(expr1,\s*expr2\)\s*;', '{ int t_ = expr1; expr1 = expr2; expr2 = t_; }', 1, 1),
        (r'\bop\s*=\s*invertOperatorForOperandSwap\(op\)\s*;', 'invertOperatorForOperandSwap(op);', 0, 1),
    ], ID + ".select"); n += k
    if re.search(r'\btok\b|Token|std::', extract.mask(ts)):
        raise extract.ExtractError("comparison(): operand selection not fully lowered: %r" % ts[:300])
    fi = extract.locate_function("lib/checkcondition.cpp", r'^static std::string invertOperatorForOperandSwap\s*\(\s*std::string s\s*\)')
    kb.add_located("invertOperatorForOperandSwap", fi)
    ti, k = located_rules(fi, [
        (r'^static std::string invertOperatorForOperandSwap\s*\(\s*std::string s\s*\)', 'static void invertOperatorForOperandSwap(char *s)', 1, 1),
        (r'\breturn s\s*;', 'return;', 1, 1),
    ], ID + ".invert"); n += k
    out.append(ti + "\n")
    out.append("void comparison_block(_Bool known1, _Bool known2, const char *tokop, size_t tokop_len, const bigint num1, const bigint num2, const char *bitop, size_t bitop_len, _Bool lhs_unsigned, int *const_side)\n"
               "{\n%s\n    *const_side = expr2;\n%s\n}\n" % (extract.strip_comments(ts), verdict))
    # ---- K22
    reg = extract.locate_region("lib/checkcondition.cpp", r'^void CheckCondition::checkCompareValueOutOfTypeRange\s*\(\s*\)', r'std::uint8_t\s+bits\s*=\s*0\s*;',
                                r'if\s*\(\s*!error\s*\|\|\s*diag\(tok\)\s*\)', include_end=False)
    kb.add_located("CheckCondition::checkCompareValueOutOfTypeRange [range and verdict block]", reg, "region")
    t, k = located_rules(reg, _common.VT_RULES + [
        (r'\btypeTok->valueType\(\)->type\b', 'tt_type', 1, 1),
        (r'\btypeTok->valueType\(\)->sign\b', 'tt_sign', 2),
        (r'\bvalueTok->valueType\(\)->sign\b', 'val_sign', 1),
        (r'!valueTok->valueType\(\)', '!val_has_vt', 1),
        (r'\bmSettings->platform\.(\w+)', r'platform->\1', 6),
        (r'\bvalueTok->getKnownIntValue\(\)', 'kiv_in', 1, 1),
        (r'\btok->str\(\)\s*==\s*("(?:[^"\\]|\\.)*")', r'vstr_eq(op, op_len, \1)', 6),
        (r'\btok->str\(\)\[0\]', 'op[0]', 4, 4),
        (r'\bconst auto (typeMinValue|unsignedTypeMaxValue|kiv)\b', r'const long long \1', 3, 3),
        (r'\bbool result\{\}\s*;', '_Bool result = 0;', 1, 1),
        (r'\bcontinue\s*;', '{ *error_out = 0; return; }', 2),
    ], ID + ".range"); n += k
    out.append("void range_block(enum VType tt_type, enum Sign tt_sign, _Bool val_has_vt, enum Sign val_sign, const struct Platform *platform, const bigint kiv_in,\n"
               "                 const char *op, size_t op_len, const int i, _Bool *error_out, _Bool *result_out, uint8_t *bits_out)\n{\n%s\n    *error_out = error; *result_out = result; *bits_out = bits;\n}\n"
               % extract.strip_comments(t))
    kb.rules_fired = n
    text = "".join(out)
    extract.residue_scan(text, ID)
    kb.ctext = text + HARNESS
    kb.job("comparison", "h_comparison", unwind=8, replay=None,
           note="loop-free region; helper loops over the operator spelling (<= 3 chars) fully unwound: complete for all num1, num2, X")
    kb.job("range.rest", "h_range", unwind=8, defines=["CLASS_REST"], timeout=600,
           note="loop-free region; all constants, all values of the variable's type, widths 16/32/64 for int/long: complete. Complement of the recorded class")
    kb.job("range.mixed", "h_range", kind="known", finding="K22.signed-var-vs-unsigned-const", props=["C03"], unwind=8, defines=["CLASS_MIXED"], timeout=600, expect_fail=["h_range.assertion"],
           note="recorded finding class: signed (or plain char taken as signed) variable against an unsigned constant")
    kb.job("cover", "h_cover", kind="cover", unwind=8)
    kb.assumptions += ["region interfaces: K21 (num1, num2, operator spelling, bit operator spelling, unsignedness flag); K22 (types/signs of both operands, platform widths, constant, operator, side)",
                       "ValueType invariant: bool has no sign and only char may have an unknown sign (established in ValueType::parseDecl, not verified)",
                       "K22: the constant operand carries a ValueType (val_has_vt); the untyped case is not constrained",
                       "K21: the value-flow constants num1/num2 are the operands' values; X ranges over all 64-bit values (>= 0 for the unsigned | case)"]
    return kb
