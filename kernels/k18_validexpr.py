"""K18  Library::isCompliantValidationExpression (lib/library.cpp) - the gate every <valid> range string of a
library configuration passes before it is handed to the tokenizer-based range evaluation.

Unbounded (loop contract; any NUL-terminated string): never reads past the terminator (`*(p+1)` is reached only
when `*p != 0`), terminates, assigns nothing; true => non-empty and not starting with '.'.
Bounded (all byte strings of length <= L): bracketed by the documented grammar:
    strict(s) ==> f(s) ==> loose(s)
strict: the forms the manual lists (value, lo:hi, :hi, lo:, lists, negative and floating bounds, !value);
loose : only the characters 0-9 : , + - . E e ! and no leading '.'.
"""
import re

from vlib import extract, native
from vlib.kernel import KernelBuild, located_rules
from . import _common

ID = "K18"
SERVES = ["C30", "C13"]
TITLE = "Library::isCompliantValidationExpression: safety for any length; grammar bracket for short strings"

CONTRACT = r'''
#ifndef NOCONTRACT
__CPROVER_requires(p == NULL || (g_n <= 1000000 && __CPROVER_is_fresh(p, g_n + 1) && p[g_n] == 0))
__CPROVER_assigns()
#ifndef TWIN
__CPROVER_ensures(__CPROVER_return_value ==> (__CPROVER_old(p) != NULL && __CPROVER_old(p)[0] != 0 && __CPROVER_old(p)[0] != '.'))
#else
__CPROVER_ensures(__CPROVER_return_value ==> (__CPROVER_old(p)[0] >= '0' && __CPROVER_old(p)[0] <= '9'))
#endif
#endif
'''
LOOP = r'''
#ifndef NOCONTRACT
__CPROVER_assigns(p, error, range, has_dot, has_E)
__CPROVER_loop_invariant(__CPROVER_same_object(p, __CPROVER_loop_entry(p)) && (size_t)__CPROVER_POINTER_OFFSET(p) <= g_n)
__CPROVER_loop_invariant(__CPROVER_loop_entry(p)[0] == '.' ==> error)
__CPROVER_decreases(g_n - (size_t)__CPROVER_POINTER_OFFSET(p))
#endif
'''

HARNESS = r'''
#ifndef LMAX
#define LMAX 5
#endif
char g_in_s[LMAX + 1]; size_t g_in_len;
static int rd(char c) { return c >= '0' && c <= '9'; }
/* snum := [+-]? digits ('.' digits)?   returns index after the number or (size_t)-1 */
static size_t r_snum(const char *s, size_t n, size_t i) {
    if (i < n && (s[i] == '+' || s[i] == '-')) i++;
    size_t a = i; while (i < n && rd(s[i])) i++;
    if (i == a) return (size_t)-1;
    if (i < n && s[i] == '.') { i++; size_t b = i; while (i < n && rd(s[i])) i++; if (i == b) return (size_t)-1; }
    return i;
}
/* item := '!' snum | snum | snum ':' snum | ':' snum | snum ':' */
static size_t r_item(const char *s, size_t n, size_t i) {
    if (i < n && s[i] == '!') return r_snum(s, n, i + 1);
    if (i < n && s[i] == ':') return r_snum(s, n, i + 1);
    size_t j = r_snum(s, n, i); if (j == (size_t)-1) return j;
    if (j < n && s[j] == ':') { size_t k = r_snum(s, n, j + 1); return k == (size_t)-1 ? j + 1 : k; }
    return j;
}
static _Bool strict_valid(const char *s, size_t n) {
    size_t i = 0;
    for (int it = 0; it <= LMAX; it++) {
        i = r_item(s, n, i); if (i == (size_t)-1) return 0;
        if (i == n) return 1;
        if (s[i] != ',') return 0;
        i++;
    }
    return 0;
}
static _Bool loose_valid(const char *s, size_t n) {
    if (n == 0 || s[0] == '.') return 0;
    for (size_t i = 0; i < LMAX; i++) if (i < n) { char c = s[i];
        if (!(rd(c) || c == ':' || c == ',' || c == '+' || c == '-' || c == '.' || c == 'E' || c == 'e' || c == '!')) return 0; }
    return 1;
}
void h_valid(void) { const char *p; (void)isCompliantValidationExpression(p); }
void h_valid_b(void) {
    char s[LMAX + 1]; size_t n = nondet_size_t(); __CPROVER_assume(n <= LMAX);
    for (int i = 0; i <= LMAX; i++) { s[i] = nondet_char(); if (i < (int)n) __CPROVER_assume(s[i] != 0); }
    s[n] = 0;
    for (int i = 0; i <= LMAX; i++) g_in_s[i] = s[i]; g_in_len = n;
    _Bool r = isCompliantValidationExpression(s);
    __CPROVER_assert(!strict_valid(s, n) || r, "every <valid> expression of the documented grammar is accepted");
    __CPROVER_assert(!r || loose_valid(s, n), "accepted expressions use only 0-9 : , + - . E e ! and do not start with '.'");
}
void h_cover(void) {
    char s[LMAX + 1]; size_t n = nondet_size_t(); __CPROVER_assume(n <= LMAX);
    for (int i = 0; i <= LMAX; i++) { s[i] = nondet_char(); if (i < (int)n) __CPROVER_assume(s[i] != 0); }
    s[n] = 0;
    _Bool r = isCompliantValidationExpression(s);
    __CPROVER_assert(!(r && n == 5 && s[2] == ':'), "COVER: a 5-char range is accepted");
    __CPROVER_assert(!(!r && loose_valid(s, n)), "COVER: right alphabet but rejected");
}
'''

REPLAY_CPP = r'''
#include "library.h"
#include <cstdio>
#include <cstdlib>
#include <string>
int main(int argc, char **argv) {
    std::string s; for (int i = 1; i < argc; i++) s.push_back((char)atoi(argv[i]));
    bool r = Library::isCompliantValidationExpression(s.c_str());
    bool alpha = !s.empty() && s[0] != '.'; for (char c : s) if (!((c >= '0' && c <= '9') || c == ':' || c == ',' || c == '+' || c == '-' || c == '.' || c == 'E' || c == 'e' || c == '!')) alpha = false;
    printf("isCompliantValidationExpression(\"%s\") = %d; alphabet ok: %d\n", s.c_str(), (int)r, (int)alpha);
    if (r && !alpha) return 1;
    /* the documented simple forms */
    static const char *docs[] = {"0:255", ":0", "1:", "0,2:3", "-10:10", "!0", "0.5:1.5", "1,2", ":-1", "-1:", "+1", 0};
    for (int i = 0; docs[i]; i++) if (s == docs[i] && !r) return 1;
    return 0;
}
'''


def build(ctx):
    kb = KernelBuild(ID, TITLE)
    loc = extract.locate_function("lib/library.cpp", r'^bool Library::isCompliantValidationExpression\s*\(')
    kb.add_located("Library::isCompliantValidationExpression", loc)
    t, n = located_rules(loc, [(r'^bool Library::isCompliantValidationExpression\s*\(', 'bool isCompliantValidationExpression(', 1, 1)], ID)
    sig, body = extract.body_of(t)
    body = extract.insert_loop_contracts(body, [LOOP], ID)
    kb.rules_fired = n
    text = _common.BASE + "size_t g_n;\n" + "%s\n%s%s\n" % (sig, CONTRACT, body)
    extract.residue_scan(text, ID)
    kb.ctext = text + HARNESS
    kb.job("safety", "h_valid", enforce="isCompliantValidationExpression", loop_contracts=True, search="grammar", replay="expr")
    kb.job("safety.twin", "h_valid", kind="twin", enforce="isCompliantValidationExpression", loop_contracts=True, defines=["TWIN"])
    kb.job("grammar", "h_valid_b", kind="bounded", unwind=8, defines=["NOCONTRACT", "LMAX=5"], replay="expr", tier="quick-only",
           note="all NUL-free byte strings of length <= 5, loops fully unwound")
    kb.job("grammar7", "h_valid_b", kind="bounded", unwind=10, defines=["NOCONTRACT", "LMAX=7"], replay="expr", tier="thorough", timeout=1500,
           note="all NUL-free byte strings of length <= 7, loops fully unwound")
    kb.job("cover", "h_cover", kind="cover", unwind=8, defines=["NOCONTRACT", "LMAX=5"])
    kb.assumptions += ["the argument is NULL or a NUL-terminated string (ghost length g_n: some NUL exists at g_n)",
                       "isdigit: CBMC's model; the real call passes a plain char (negative values index glibc's table below zero, which glibc supports)",
                       "strict grammar written from the manual's <valid> examples; exponents and degenerate forms such as ':' are only bounded by the loose alphabet rule"]

    def rp(inputs, ctx):
        b = inputs.get("g_in_s") or []
        ln = int(inputs.get("g_in_len", 0) or 0)
        rc, o, cmd = native.compile_run("replay_K18", REPLAY_CPP, [int(x) for x in b[:ln]])
        return native.verdict_from_rc(rc, o), o, cmd
    kb.replayers["expr"] = rp
    return kb
