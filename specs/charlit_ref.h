/* Reference for K09: the value of a character literal (C11 6.4.4.4, C++ [lex.ccon]; GCC for multi-character literals), for the
 * subset below.  Returns 1 and sets *out when the spelling is a literal of the subset, 0 otherwise (ill-formed, or outside the
 * subset: the check then demands nothing).
 *   prefix:  '  (narrow, type int in C / char in C++: the value of a single character is that of plain char, taken as signed as on
 *               the host; several characters: int, each character shifts the previous ones left by 8, GCC)
 *            u8'  u'  L'  U'  (exactly one character; value range 0xff / 0xffff / 0xffffffff)
 *   characters: any byte except ' \ newline (bytes >= 0x80 only in narrow literals, where each byte is one character);
 *            simple escapes \' \" \? \\ \a \b \f \n \r \t \v; octal \o \oo \ooo; hexadecimal \x followed by one or more hex digits
 *   not in the subset: universal character names, non-ASCII characters in prefixed literals, the GCC escapes \e \E \% \( \[ \{ */
#ifndef VERIF_CHARLIT_REF_H
#define VERIF_CHARLIT_REF_H
#ifndef CHARLIT_MAX
#define CHARLIT_MAX 8
#endif

static int charlit_hexval(unsigned char c) { return (c >= '0' && c <= '9') ? c - '0' : (c >= 'a' && c <= 'f') ? c - 'a' + 10 : (c >= 'A' && c <= 'F') ? c - 'A' + 10 : -1; }

static int charlit_ref(const unsigned char *s, unsigned long n, long long *out)
{
    unsigned long pos; unsigned long long limit; int narrow = 0;
    if (n >= 1 && s[0] == '\'') { narrow = 1; pos = 1; limit = 0xffULL; }
    else if (n >= 3 && s[0] == 'u' && s[1] == '8' && s[2] == '\'') { pos = 3; limit = 0xffULL; }
    else if (n >= 2 && s[0] == 'u' && s[1] == '\'') { pos = 2; limit = 0xffffULL; }
    else if (n >= 2 && (s[0] == 'L' || s[0] == 'U') && s[1] == '\'') { pos = 2; limit = 0xffffffffULL; }
    else return 0;
    if (n < pos + 2 || s[n - 1] != '\'') return 0;
    unsigned long long acc = 0; unsigned count = 0;
    for (int guard = 0; guard <= CHARLIT_MAX; guard++) {
        if (pos >= n - 1) break;
        unsigned char c = s[pos];
        unsigned long long v;
        if (c == '\'' || c == '\n') return 0;
        if (c == '\\') {
            pos++;
            if (pos >= n - 1) return 0;
            unsigned char e = s[pos]; pos++;
            if (e == '\'' || e == '"' || e == '?' || e == '\\') v = e;
            else if (e == 'a') v = 7; else if (e == 'b') v = 8; else if (e == 'f') v = 12; else if (e == 'n') v = 10;
            else if (e == 'r') v = 13; else if (e == 't') v = 9; else if (e == 'v') v = 11;
            else if (e >= '0' && e <= '7') {
                v = e - '0';
                for (int k = 0; k < 2; k++) { if (pos < n - 1 && s[pos] >= '0' && s[pos] <= '7') { v = v * 8 + (s[pos] - '0'); pos++; } else break; }
            } else if (e == 'x') {
                if (pos >= n - 1 || charlit_hexval(s[pos]) < 0) return 0;
                v = 0;
                for (int k = 0; k < CHARLIT_MAX; k++) {
                    if (pos < n - 1 && charlit_hexval(s[pos]) >= 0) { if (v >> 60) return 0; v = v * 16 + (unsigned)charlit_hexval(s[pos]); pos++; } else break;
                }
            } else return 0;
            if (v > limit) return 0;                      /* out of range for the character type: ill-formed / implementation-defined */
        } else {
            if (c >= 0x80 && !narrow) return 0;
            v = c; pos++;
        }
        acc = (acc << 8) | v; count++;
    }
    if (pos != n - 1 || count == 0) return 0;
    if (!narrow) { if (count != 1) return 0; *out = (long long)acc; return 1; }
    if (count == 1) { *out = (long long)(signed char)(unsigned char)acc; return 1; }
    *out = (long long)(int)(unsigned)(acc & 0xffffffffULL);
    return 1;
}
#endif
