/* Reference acceptors for numeric literal spellings, written from C11 6.4.4.1 / 6.4.4.2,
 * C++14 binary literals [lex.icon], C++23 size_t suffixes, and the three documented extensions
 * (Microsoft i64/ui64, user-defined-literal suffix `_x...`, a leading sign kept on the token).
 *
 * Each recogniser f of lib/mathlib.cpp is bracketed:   strict_f(s) ==> f(s) ==> loose_f(s)
 *   strict: exactly the spellings a conforming compiler accepts (plus the sign)  -> f must accept them
 *   loose : right prefix, right digit alphabet, at least one digit, and a tail made only of suffix
 *           characters in a plausible arrangement                               -> f must accept nothing else
 * Independent formulation: index-based recursive descent, no state machine.
 */
#ifndef LITERAL_REF_H
#define LITERAL_REF_H
#include <stddef.h>

static int r_dig(char c) { return c >= '0' && c <= '9'; }
static int r_oct(char c) { return c >= '0' && c <= '7'; }
static int r_hex(char c) { return r_dig(c) || (c >= 'a' && c <= 'f') || (c >= 'A' && c <= 'F'); }
static int r_bin(char c) { return c == '0' || c == '1'; }
static int r_u(char c) { return c == 'u' || c == 'U'; }
static int r_l(char c) { return c == 'l' || c == 'L'; }
static int r_z(char c) { return c == 'z' || c == 'Z'; }

/* integer-suffix, standard: u | l | ll | ul | lu | ull | llu | z | uz | zu  (ll must be same case) */
static int r_isuffix_std(const char *s, size_t n)
{
    if (n == 1) return r_u(s[0]) || r_l(s[0]) || r_z(s[0]);
    if (n == 2) return (r_u(s[0]) && (r_l(s[1]) || r_z(s[1]))) || ((r_l(s[0]) || r_z(s[0])) && r_u(s[1])) || (r_l(s[0]) && s[1] == s[0]);
    if (n == 3) return (r_u(s[0]) && r_l(s[1]) && s[2] == s[1]) || (r_l(s[0]) && s[1] == s[0] && r_u(s[2]));
    return 0;
}
static int r_isuffix_ms(const char *s, size_t n)
{
    if (n == 3) return (s[0] == 'i' || s[0] == 'I') && s[1] == '6' && s[2] == '4';
    if (n == 4) return r_u(s[0]) && (s[1] == 'i' || s[1] == 'I') && s[2] == '6' && s[3] == '4';
    return 0;
}
static int r_udl(const char *s, size_t n) { return n >= 2 && s[0] == '_'; }
static int r_isuffix_strict(const char *s, size_t n) { return n == 0 || r_isuffix_std(s, n) || r_isuffix_ms(s, n) || r_udl(s, n); }
/* loose: up to 3 letters from uUlLzZ in any arrangement, or the MS / UDL forms */
static int r_isuffix_loose(const char *s, size_t n)
{
    if (n == 0 || r_isuffix_ms(s, n) || r_udl(s, n)) return 1;
    if (n > 3) return 0;
    for (size_t i = 0; i < n; i++) if (!(r_u(s[i]) || r_l(s[i]) || r_z(s[i]))) return 0;
    return 1;
}
static size_t r_sign(const char *s, size_t n) { return (n > 0 && (s[0] == '+' || s[0] == '-')) ? 1 : 0; }

/* generic integer: sign? prefix digits+ suffix ; kind: 0 dec, 1 oct, 2 hex, 3 bin */
static int r_int(const char *s, size_t n, int kind, int strict)
{
    size_t i = r_sign(s, n);
    if (kind == 1) { if (!(i < n && s[i] == '0')) return 0; i++; }
    if (kind == 2) { if (!(i + 1 < n && s[i] == '0' && (s[i + 1] == 'x' || s[i + 1] == 'X'))) return 0; i += 2; }
    if (kind == 3) { if (!(i + 1 < n && s[i] == '0' && (s[i + 1] == 'b' || s[i + 1] == 'B'))) return 0; i += 2; }
    size_t d0 = i;
    while (i < n && (kind == 0 ? r_dig(s[i]) : kind == 1 ? r_oct(s[i]) : kind == 2 ? r_hex(s[i]) : r_bin(s[i]))) i++;
    if (i == d0) return 0;
    if (kind == 0 && strict && s[d0] == '0' && i - d0 > 1) return 0;   /* a decimal-constant does not start with 0 */
    return strict ? r_isuffix_strict(s + i, n - i) : r_isuffix_loose(s + i, n - i);
}
static int strict_isDec(const char *s, size_t n) { return r_int(s, n, 0, 1); }
static int loose_isDec(const char *s, size_t n) { return r_int(s, n, 0, 0); }
static int strict_isOct(const char *s, size_t n) { return r_int(s, n, 1, 1); }
static int loose_isOct(const char *s, size_t n) { return r_int(s, n, 1, 0); }
static int strict_isIntHex(const char *s, size_t n) { return r_int(s, n, 2, 1); }
static int loose_isIntHex(const char *s, size_t n) { return r_int(s, n, 2, 0); }
static int strict_isBin(const char *s, size_t n) { return r_int(s, n, 3, 1); }
static int loose_isBin(const char *s, size_t n) { return r_int(s, n, 3, 0); }

/* decimal-floating-constant: (digits? . digits | digits .) exponent? fsuffix? | digits exponent fsuffix? */
static int r_decfloat(const char *s, size_t n, int strict)
{
    size_t i = r_sign(s, n), a = i;
    while (i < n && r_dig(s[i])) i++;
    size_t nd1 = i - a, nd2 = 0; int dot = 0, ex = 0;
    if (i < n && s[i] == '.') { dot = 1; i++; size_t b = i; while (i < n && r_dig(s[i])) i++; nd2 = i - b; }
    if (nd1 + nd2 == 0) return 0;
    if (i < n && (s[i] == 'e' || s[i] == 'E')) {
        ex = 1; i++;
        if (i < n && (s[i] == '+' || s[i] == '-')) i++;
        size_t c = i; while (i < n && r_dig(s[i])) i++;
        if (i == c) return 0;
    }
    if (!dot && !ex) return 0;
    if (i == n) return 1;
    if (i + 1 == n && (s[i] == 'f' || s[i] == 'F' || s[i] == 'l' || s[i] == 'L')) return 1;
    if (!strict && r_udl(s + i, n - i)) return 1;
    return 0;
}
static int strict_isDecimalFloat(const char *s, size_t n) { return r_decfloat(s, n, 1); }
static int loose_isDecimalFloat(const char *s, size_t n) { return r_decfloat(s, n, 0); }

/* hexadecimal-floating-constant: 0x (hex+ (. hex*)? | . hex+) p sign? digits+ fsuffix? ; loose also admits no hex digit at all */
static int r_hexfloat(const char *s, size_t n, int strict)
{
    size_t i = r_sign(s, n);
    if (!(i + 1 < n && s[i] == '0' && (s[i + 1] == 'x' || s[i + 1] == 'X'))) return 0;
    i += 2; size_t a = i;
    while (i < n && r_hex(s[i])) i++;
    size_t nd = i - a;
    if (i < n && s[i] == '.') { i++; size_t b = i; while (i < n && r_hex(s[i])) i++; nd += i - b; }
    else if (nd == 0) return 0;
    if (strict && nd == 0) return 0;
    if (!(i < n && (s[i] == 'p' || s[i] == 'P'))) return 0;
    i++;
    if (i < n && (s[i] == '+' || s[i] == '-')) i++;
    size_t c = i; while (i < n && r_dig(s[i])) i++;
    if (i == c) return 0;
    if (i == n) return 1;
    return i + 1 == n && (s[i] == 'f' || s[i] == 'F' || s[i] == 'l' || s[i] == 'L');
}
static int strict_isFloatHex(const char *s, size_t n) { return r_hexfloat(s, n, 1); }
static int loose_isFloatHex(const char *s, size_t n) { return r_hexfloat(s, n, 0); }

/* isValidIntegerSuffix(str, ms) as a whole-string predicate */
static int strict_isValidIntegerSuffix(const char *s, size_t n, int ms) { return n > 0 && (r_isuffix_std(s, n) || (ms && r_isuffix_ms(s, n)) || r_udl(s, n)); }
static int loose_isValidIntegerSuffix(const char *s, size_t n, int ms) { return n > 0 && r_isuffix_loose(s, n) && (ms || !r_isuffix_ms(s, n)); }
#endif
