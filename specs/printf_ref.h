/* Reference for K40: the minimum number of characters a printf-style call writes for a format string (C11 7.21.6.1),
 * given what is known about the arguments.  Alphabet: ordinary characters, %%, and
 *      % [flags: - 0]* [width: digits] [. digits] [l | ll] conv        conv in d i x u s c n
 * Argument facts: for d/i an argument may have a known value (int range); for s a known length (0 = unknown, any length
 * possible).  Unknown integer arguments can be 0..9, which gives the shortest rendering.  Returns -1 for anything else
 * (undefined behaviour in the analysed program, or outside the alphabet): such formats are unconstrained. */
#ifndef VERIF_PRINTF_REF_H
#define VERIF_PRINTF_REF_H
#ifndef PRINTF_REF_MAX
#define PRINTF_REF_MAX 8      /* longest format body the caller passes: bounds every loop below */
#endif

/* number of characters of the decimal rendering of v, with its sign */
static int printf_declen(long long v)
{
    int neg = v < 0;
    /* digits of |v| by comparison with the powers of ten (no division) */
    unsigned long long a = neg ? (unsigned long long)(-(v + 1)) + 1ULL : (unsigned long long)v;
    int d = 1;
    unsigned long long p = 10ULL;
    for (int k = 0; k < 19; k++) {
        if (a >= p) d = k + 2;
        if (k < 18) p = p * 10ULL;
    }
    return d + neg;
}

static long printf_min_len(const char *b, int n, unsigned nargs, const _Bool *known, const long long *val, const long long *slen)
{
    int i = 0; long total = 0; unsigned argi = 0;
    for (int guard = 0; guard <= PRINTF_REF_MAX; guard++) {
        if (i >= n) return total;
        char c = b[i];
        if (c != '%') { total++; i++; continue; }
        i++;
        if (i >= n) return -1;
        if (b[i] == '%') { total++; i++; continue; }
        int flags = 0, zero_flag = 0;
        for (int k = 0; k < PRINTF_REF_MAX; k++) { if (i < n && (b[i] == '-' || b[i] == '0')) { if (b[i] == '0') zero_flag = 1; flags++; i++; } }
        if (i < n && (b[i] == '-' || b[i] == '0')) return -1;
        long width = 0; int wd = 0;
        for (int k = 0; k < PRINTF_REF_MAX; k++) { if (i < n && b[i] >= '0' && b[i] <= '9') { width = width * 10 + (b[i] - '0'); wd++; i++; } }
        if (i < n && b[i] >= '0' && b[i] <= '9') return -1;
        int hasprec = 0; long prec = 0;
        if (i < n && b[i] == '.') {
            hasprec = 1; i++;
            for (int k = 0; k < PRINTF_REF_MAX; k++) { if (i < n && b[i] >= '0' && b[i] <= '9') { prec = prec * 10 + (b[i] - '0'); i++; } }
            if (i < n && b[i] >= '0' && b[i] <= '9') return -1;
        }
        int nl = 0;
        for (int k = 0; k < 3; k++) { if (i < n && b[i] == 'l') { nl++; i++; } }
        if (i >= n || nl > 2) return -1;
        char conv = b[i]; i++;
        long len;
        _Bool have = argi < nargs && argi < 3;
        if (conv == 'd' || conv == 'i') {
            if (have && known[argi]) {
                long long v = val[argi];
                if (v == 0 && hasprec && prec == 0) len = 0;
                else {
                    long nd = printf_declen(v) - (v < 0);
                    long mind = hasprec ? prec : 1;
                    len = (v < 0) + (nd < mind ? mind : nd);
                }
            } else len = hasprec ? prec : 1;
        } else if (conv == 'x' || conv == 'u') {
            len = hasprec ? prec : 1;
        } else if (conv == 's') {
            if (nl) return -1;
            long long S = have ? slen[argi] : 0;
            len = hasprec ? (S < prec ? S : prec) : S;
        } else if (conv == 'c') {
            if (hasprec || nl || zero_flag) return -1;
            len = 1;
        } else if (conv == 'n') {
            if (hasprec || wd || flags) return -1;
            len = 0;
        } else return -1;
        total += width < len ? len : width;
        argi++;
    }
    return -1;
}
#endif
