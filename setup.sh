#!/bin/bash
# Offline setup: nothing to install (python3 stdlib + cbmc/goto-cc/goto-instrument/z3 already present).
# Warm the private -O0 build of /repo used only for native replay of counterexamples (never /repo/_build).
cd "$(dirname "$0")"
for t in cbmc goto-cc goto-instrument z3 g++ cmake ninja; do command -v $t >/dev/null || { echo "missing tool: $t"; exit 1; }; done
python3 - <<'PY'
import sys
sys.path.insert(0, '.')
from vlib import native
ok, out = native.ensure_build()
print("private replay build:", "ok" if ok else "FAILED (replay of counterexamples will be unavailable; proofs unaffected)")
if not ok:
    print(out[-2000:])
PY
exit 0
