/* common prelude for extracted kernels (C, CBMC) */
#ifndef VERIF_BASE_H
#define VERIF_BASE_H
#include <stddef.h>
#include <stdint.h>
#include <limits.h>
#include <stdbool.h>
typedef long long bigint;
typedef unsigned long long biguint;
/* <ctype.h> must not be included: glibc macros call __ctype_b_loc (no body). */
int isdigit(int); int isxdigit(int); int isalpha(int); int isalnum(int); int isprint(int);
int isspace(int); int isupper(int); int islower(int); int tolower(int); int toupper(int);
char *strchr(const char *, int); size_t strlen(const char *); int strcmp(const char *, const char *);
int strncmp(const char *, const char *, size_t);
/* search jobs (input finders run after a failed contract proof): the harness passes its own recorded objects; under contract
   enforcement __CPROVER_is_fresh would replace them by fresh allocations the harness cannot see, so a search job only requires
   the objects to be readable */
#ifdef VERIF_SEARCH
#define __CPROVER_is_fresh(p, n) __CPROVER_r_ok((p), (n))
#endif
/* throw lowering */
extern int verif_thrown;
#define VERIF_THROW() do { verif_thrown = 1; } while (0)
/* nondet sources */
bigint nondet_bigint(void); biguint nondet_biguint(void); int nondet_int(void); unsigned nondet_unsigned(void);
size_t nondet_size_t(void); unsigned char nondet_uchar(void); char nondet_char(void); _Bool nondet_bool(void);
#endif
