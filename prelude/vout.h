/* output sinks standing for `std::string out; out += ...` / `std::ostringstream << ...` in extracted code.
 *
 * VOUT_CAP-byte bounded sink: records every byte; writing past the capacity sets `overflow`
 * (harnesses assert it stays clear, so a result is never silently truncated).
 */
#ifndef VERIF_VOUT_H
#define VERIF_VOUT_H
#include <stddef.h>
#ifndef VOUT_CAP
#define VOUT_CAP 48
#endif
#ifdef VOUT_ACC
/* shift-register sink: the whole output is one VOUT_CAP*8-bit vector, appended by `acc = acc << 8 | byte`
 * (a constant shift: no symbolic array index), plus the length.  Two outputs are equal iff the lengths
 * and the vectors are equal.  Used for 2-safety checks with many appends of symbolic length. */
typedef unsigned __CPROVER_bitvector[VOUT_CAP * 8] vacc_t;
struct vout { size_t len; _Bool overflow; vacc_t acc; };
static inline void vout_init(struct vout *o) { o->len = 0; o->overflow = 0; o->acc = 0; }
static inline void vout_ch(struct vout *o, char c)
{
    if (o->len >= VOUT_CAP) o->overflow = 1;
    o->acc = (o->acc << 8) | (vacc_t)(unsigned char)c;
    o->len++;
}
#else
struct vout { size_t len; _Bool overflow; unsigned char buf[VOUT_CAP]; };

static inline void vout_init(struct vout *o) { o->len = 0; o->overflow = 0; }
static inline void vout_ch(struct vout *o, char c)
{
    if (o->len < VOUT_CAP) o->buf[o->len] = (unsigned char)c; else o->overflow = 1;
    o->len++;
}
#endif
static inline void vout_str(struct vout *o, const char *s, size_t n) { for (size_t i = 0; i < n; i++) vout_ch(o, s[i]); }
static inline void vout_lit(struct vout *o, const char *lit) { for (size_t i = 0; lit[i] != 0; i++) vout_ch(o, lit[i]); }
/* std::to_string / operator<< of an unsigned integer: base 8/10/16, minimum width, fill character */
static inline void vout_num(struct vout *o, unsigned long long v, unsigned base, unsigned width, char fill)
{
    char tmp[24]; unsigned n = 0;
    do { unsigned d = (unsigned)(v % base); tmp[n++] = (char)(d < 10 ? '0' + d : 'a' + (d - 10)); v /= base; } while (v != 0 && n < 24);
    for (unsigned i = n; i < width; i++) vout_ch(o, fill);
    while (n > 0) vout_ch(o, tmp[--n]);
}
/* std::to_string(v) of an unsigned value, as an abstract renderer with exactly the facts the
 * proofs use:  1..20 decimal digits, no leading zero unless the string is "0";  the digit string
 * denotes v (positional notation), hence  equal digit strings => equal values  (lemma job
 * `dec.lemma` proves this consequence of the Horner definition for <= 10 digits);  and it is a
 * function: equal values => equal strings.  Every rendering is logged so the two facts are
 * instantiated for all pairs of renderings in one run (VDEC_MAX per run, asserted). */
unsigned char nondet_uchar(void); unsigned nondet_unsigned(void);
#ifndef VDEC_MAX
#define VDEC_MAX 12
#endif
#define VDEC_DIGITS 20
struct vdec_rec { unsigned long long v; unsigned n; unsigned char d[VDEC_DIGITS]; };
static struct vdec_rec vdec_log[VDEC_MAX]; static unsigned vdec_cnt;
static inline _Bool vdec_same(const struct vdec_rec *a, const struct vdec_rec *b)
{
    if (a->n != b->n) return 0;
    for (unsigned i = 0; i < VDEC_DIGITS; i++) if (i < a->n && a->d[i] != b->d[i]) return 0;
    return 1;
}
static inline void nondet_vdec(struct vdec_rec *r, unsigned long long v)
{
    r->v = v; r->n = nondet_unsigned(); __CPROVER_assume(r->n >= 1 && r->n <= VDEC_DIGITS);
    for (unsigned i = 0; i < VDEC_DIGITS; i++) { r->d[i] = nondet_uchar(); __CPROVER_assume(r->d[i] <= 9); }
    __CPROVER_assume(r->n == 1 || r->d[0] != 0);
    __CPROVER_assume((v == 0) == (r->n == 1 && r->d[0] == 0));
    __CPROVER_assume((v < 10) == (r->n == 1));
    __CPROVER_assume((v < 100) == (r->n <= 2));
    __CPROVER_assume((v < 1000) == (r->n <= 3));
    __CPROVER_assume(r->n != 1 || r->d[0] == v);
    __CPROVER_assume(v > 0xFFFFFFFFull || r->n <= 10);
}
/* values below 1000 (e.g. anything cast to uint8_t): rendered exactly with 16-bit arithmetic, no log entry needed */
static inline void vout_dec_small(struct vout *o, unsigned long long v)
{
    __CPROVER_assert(v < 1000, "vout_dec_small: value below 1000");
    /* digits by comparison chains and subtraction (no division: SAT-friendly) */
    unsigned short w = (unsigned short)v;
    unsigned short h = (unsigned short)(w >= 900 ? 9 : w >= 800 ? 8 : w >= 700 ? 7 : w >= 600 ? 6 : w >= 500 ? 5 : w >= 400 ? 4 : w >= 300 ? 3 : w >= 200 ? 2 : w >= 100 ? 1 : 0);
    unsigned short r = (unsigned short)(w - 100 * h);
    unsigned short t = (unsigned short)(r >= 90 ? 9 : r >= 80 ? 8 : r >= 70 ? 7 : r >= 60 ? 6 : r >= 50 ? 5 : r >= 40 ? 4 : r >= 30 ? 3 : r >= 20 ? 2 : r >= 10 ? 1 : 0);
    unsigned short u = (unsigned short)(r - 10 * t);
    if (h != 0) vout_ch(o, (char)('0' + h));
    if (h != 0 || t != 0) vout_ch(o, (char)('0' + t));
    vout_ch(o, (char)('0' + u));
}
static inline void vout_dec(struct vout *o, unsigned long long v)
{
    if (v < 1000) { vout_dec_small(o, v); return; }   /* consistent with the facts assumed for longer renderings below */
    __CPROVER_assert(vdec_cnt < VDEC_MAX, "vout_dec: rendering log capacity");
    struct vdec_rec *r = &vdec_log[vdec_cnt];
    nondet_vdec(r, v);
    for (unsigned j = 0; j < VDEC_MAX; j++) if (j < vdec_cnt) {
        __CPROVER_assume(!vdec_same(r, &vdec_log[j]) || r->v == vdec_log[j].v);   /* digits denote the value */
        __CPROVER_assume(r->v != vdec_log[j].v || vdec_same(r, &vdec_log[j]));    /* to_string is a function */
    }
    vdec_cnt++;
    for (unsigned i = 0; i < VDEC_DIGITS; i++) if (i < r->n) vout_ch(o, (char)('0' + r->d[i]));
}
#ifdef VOUT_ACC
static inline _Bool vout_equal(const struct vout *a, const struct vout *b) { return a->len == b->len && a->acc == b->acc; }
static inline _Bool vout_is_prefix(const struct vout *a, const struct vout *b)
{
    if (a->len > b->len || b->len > VOUT_CAP) return 0;
    return (b->acc >> (8 * (b->len - a->len))) == a->acc;
}
#define VOUT_EQ_DEFINED
#endif
#ifndef VOUT_EQ_DEFINED
static inline _Bool vout_equal(const struct vout *a, const struct vout *b)
{
    if (a->len != b->len) return 0;
    for (size_t i = 0; i < VOUT_CAP; i++) if (i < a->len && a->buf[i] != b->buf[i]) return 0;
    return 1;
}
static inline _Bool vout_is_prefix(const struct vout *a, const struct vout *b)
{
    if (a->len > b->len) return 0;
    for (size_t i = 0; i < VOUT_CAP; i++) if (i < a->len && a->buf[i] != b->buf[i]) return 0;
    return 1;
}
#endif
#endif
