/* 1-byte ghost-window sink for unbounded output: remembers only the length and the byte written at
 * a nondeterministic position K chosen by the harness.  A postcondition about win[0] that holds for every K
 * is a statement about every output byte, for inputs of any length.  All helpers are loop-free. */
#ifndef VERIF_VWIN_H
#define VERIF_VWIN_H
#include <stddef.h>
struct vwin { size_t len; size_t K; unsigned char win[1]; };
static inline void vwin_ch(struct vwin *o, char c) { if (o->len == o->K) o->win[0] = (unsigned char)c; o->len++; }
/* operator<< of an unsigned value < 256 with std::setbase(base), std::setw(width), std::setfill(fill): loop-free */
static inline void vwin_num_u8(struct vwin *o, unsigned v, unsigned base, unsigned width, char fill)
{
    __CPROVER_assert(v < 256 && (base == 8 || base == 10 || base == 16) && width <= 4, "vwin_num_u8: supported formatting");
    unsigned d2 = (v / (base * base)) % base, d1 = (v / base) % base, d0 = v % base;
    unsigned n = d2 != 0 ? 3 : (d1 != 0 ? 2 : 1);
    if (width > n + 2) vwin_ch(o, fill);
    if (width > n + 1) vwin_ch(o, fill);
    if (width > n) vwin_ch(o, fill);
    if (n >= 3) vwin_ch(o, (char)(d2 < 10 ? '0' + d2 : 'a' + (d2 - 10)));
    if (n >= 2) vwin_ch(o, (char)(d1 < 10 ? '0' + d1 : 'a' + (d1 - 10)));
    vwin_ch(o, (char)(d0 < 10 ? '0' + d0 : 'a' + (d0 - 10)));
}
#endif
