/* helpers standing for read-only std::string operations on (const char*, size_t) */
#ifndef VERIF_VSTR_H
#define VERIF_VSTR_H
#include <stddef.h>
/* s == "lit": loops run over the literal only, so they are bounded by the literal's length for every s */
static inline _Bool vstr_eq(const char *s, size_t n, const char *lit)
{
    size_t m = 0;
    while (lit[m] != 0) m++;
    if (n != m) return 0;
    for (size_t i = 0; i < m; i++) if (s[i] != lit[i]) return 0;
    return 1;
}
#endif
