"""Native replay / fidelity support: a private build of /repo's current working
tree under /verif/_build/core (never /repo/_build) and a helper that compiles a
small C++ driver against the real code and runs it."""
import glob
import os
import subprocess
import threading

HERE = os.path.dirname(os.path.dirname(os.path.abspath(__file__)))
REPO = os.environ.get("VERIF_REPO", "/repo")
BUILD = os.path.join(HERE, "_build", "core")
_lock = threading.Lock()
_built = [False]

INCLUDES = ["-I%s/lib" % REPO, "-I%s/externals" % REPO, "-I%s/externals/simplecpp" % REPO,
            "-I%s/externals/tinyxml2" % REPO, "-I%s/externals/picojson" % REPO, "-I%s/frontend" % REPO, "-I%s/cli" % REPO]


def ensure_build(log=None):
    """configure (once) and incrementally build cppcheck-core from the working tree."""
    with _lock:
        if _built[0]:
            return True, ""
        os.makedirs(BUILD, exist_ok=True)
        out = ""
        if not os.path.exists(os.path.join(BUILD, "build.ninja")):
            p = subprocess.run(["cmake", "-G", "Ninja", "-S", REPO, "-B", BUILD, "-DCMAKE_BUILD_TYPE=Debug",
                                "-DCMAKE_CXX_FLAGS=-O0 -g0", "-DDISABLE_DMAKE=ON", "-DUSE_MATCHCOMPILER=Off",
                                "-DBUILD_TESTS=OFF"], stdout=subprocess.PIPE, stderr=subprocess.STDOUT)
            out += p.stdout.decode(errors="replace")
            if p.returncode != 0:
                return False, out
        p = subprocess.run(["ninja", "-C", BUILD, "-j", os.environ.get("VERIF_JOBS", "16"), "cppcheck-core", "simplecpp", "tinyxml2"],
                           stdout=subprocess.PIPE, stderr=subprocess.STDOUT)
        out += p.stdout.decode(errors="replace")[-4000:]
        if p.returncode != 0:
            return False, out
        _built[0] = True
        return True, out


def core_objects(exclude=()):
    objs = sorted(glob.glob(os.path.join(BUILD, "lib", "CMakeFiles", "cppcheck-core.dir", "*.o")))
    objs = [o for o in objs if os.path.basename(o) not in exclude]
    objs += sorted(glob.glob(os.path.join(BUILD, "externals", "*", "CMakeFiles", "*.dir", "*.o")))
    return objs


def compile_run(name, cpp_text, args=(), exclude_objs=(), sanitize=False, timeout=120, need_core=True):
    """Compile cpp_text (which may #include real /repo/lib/*.cpp files; list their
    object names in exclude_objs to avoid duplicate symbols) and run it.
    Returns (returncode, output, command-line-to-rerun)."""
    d = os.path.join(HERE, "work", "native")
    os.makedirs(d, exist_ok=True)
    src = os.path.join(d, name + ".cpp")
    exe = os.path.join(d, name)
    with open(src, "w") as f:
        f.write(cpp_text)
    objs = []
    if need_core:
        ok, out = ensure_build()
        if not ok:
            return 99, "private build of /repo failed:\n" + out, ""
        objs = core_objects(exclude_objs)
    defs = []
    try:
        import json as _json
        import re as _re
        for ent in _json.load(open(os.path.join(BUILD, "compile_commands.json"))):
            if "/lib/mathlib.cpp" in ent.get("file", ""):
                defs = sorted(set(_re.findall(r'(?<=\s)-D\S+', ent.get("command", ""))))
                break
    except (OSError, ValueError):
        pass
    # -fno-access-control: replay drivers call private members of the real classes
    cmd = ["g++", "-std=c++11", "-O0", "-g", "-w", "-fno-access-control"] + defs + (["-fsanitize=undefined", "-fno-sanitize-recover=undefined"] if sanitize else []) + \
        INCLUDES + ["-o", exe, src] + objs + ["-lpthread"]
    p = subprocess.run(cmd, stdout=subprocess.PIPE, stderr=subprocess.STDOUT)
    if p.returncode != 0:
        return 98, "replay compile failed:\n" + p.stdout.decode(errors="replace")[-4000:], ""
    run = [exe] + [str(a) for a in args]
    try:
        p = subprocess.run(run, stdout=subprocess.PIPE, stderr=subprocess.STDOUT, timeout=timeout)
        rc, out = p.returncode, p.stdout.decode(errors="replace")
    except subprocess.TimeoutExpired:
        rc, out = 97, "replay timed out"
    rerun = "cd /verif && python3 -c \"from vlib import native; native.ensure_build()\" && %s && %s" % (
        " ".join(cmd[:12]) + " ... (see vlib/native.py)", " ".join(run))
    return rc, out, " ".join(run)


def verdict_from_rc(rc, out):
    """convention for replay programs: exit 0 = property holds on this input,
    exit 1 = violated (observation printed), other = machinery problem.
    A UBSan/ASan abort counts as violated for safety obligations."""
    if rc == 0:
        return "holds"
    if rc == 1 or "runtime error:" in out or "AddressSanitizer" in out:
        return "violated"
    return "error"
