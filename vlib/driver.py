"""vcheck driver: run every kernel serving a property, decide, replay, write evidence."""
import concurrent.futures
import hashlib
import importlib
import json
import os
import pkgutil
import random
import re
import shutil
import subprocess
import sys
import time
import traceback

from . import extract, native
from .cbmc import run_job
from .kernel import COMMON_TRUST, HERE

WORK = os.path.join(HERE, "work")
EVID = os.path.join(HERE, "evidence")
REPLAYS = os.path.join(HERE, "replays")
KNOWN = os.path.join(HERE, "known_findings.txt")


def load_kernels():
    import kernels
    mods = []
    for m in sorted(pkgutil.iter_modules(kernels.__path__), key=lambda x: x.name):
        if m.name.startswith("_"):
            continue
        mods.append(importlib.import_module("kernels." + m.name))
    return mods


def load_known():
    known, fixed = {}, []
    if os.path.exists(KNOWN):
        for ln in open(KNOWN):
            ln = ln.strip()
            if not ln or ln.startswith("#"):
                continue
            if ln.startswith("finding:"):
                mo = re.search(r'property=(\S+)\s+id=(\S+)\s+(.*)$', ln)
                if mo:
                    known[mo.group(2)] = {"property": mo.group(1), "text": mo.group(3)}
            elif ln.startswith("fixed:"):
                fixed.append(ln)
    return known, fixed


class Ctx:
    def __init__(self, prop, tier, seed):
        self.prop = prop
        self.tier = tier
        self.seed = seed
        self.rng = random.Random(seed)


def cbmc_version():
    try:
        return subprocess.run(["cbmc", "--version"], stdout=subprocess.PIPE).stdout.decode().strip()
    except OSError:
        return "?"


def run_property(prop, tier, seed, only_kernel=None, verbose=True):
    t0 = time.time()
    known, fixed = load_known()
    ctx = Ctx(prop, tier, seed)
    mods = [m for m in load_kernels() if prop in m.SERVES and (only_kernel is None or m.ID == only_kernel)]
    out_lines = []
    machinery = []     # reasons for exit 2
    violations = []    # (replay_path, text, nofail)
    known_lines = []
    builds = []
    tasks = []
    for m in mods:
        wd = os.path.join(WORK, prop, m.ID)
        shutil.rmtree(wd, ignore_errors=True)
        os.makedirs(wd, exist_ok=True)
        try:
            kb = m.build(ctx)
        except extract.ExtractError as e:
            machinery.append("%s: extraction stopped: %s" % (m.ID, e))
            continue
        except Exception as e:  # spec bug
            machinery.append("%s: kernel spec error: %s\n%s" % (m.ID, e, traceback.format_exc()))
            continue
        cfile = os.path.join(wd, "kernel.c")
        with open(cfile, "w") as f:
            f.write(kb.ctext)
        scan = scan_generated(kb.ctext)
        if scan:
            machinery.append("%s: generated text scan: %s" % (m.ID, scan))
            continue
        builds.append((m, kb, wd, cfile))
        for j in kb.jobs:
            props = getattr(j, "props", None) or m.SERVES
            if prop not in props:
                continue
            if j.tier == "thorough" and tier != "thorough":
                continue
            if j.tier == "quick-only" and tier != "quick":
                continue
            if j.kind == "search":
                continue
            # debugging aid only (never set by the registered commands): restrict the run to jobs whose note or name matches
            flt = os.environ.get("VERIF_DEBUG_JOB_FILTER")
            if flt and not re.search(flt, j.name + " " + (j.note or "")):
                continue
            tasks.append((m, kb, wd, cfile, j))

    results = []
    nw = int(os.environ.get("VERIF_JOBS", "16"))
    with concurrent.futures.ThreadPoolExecutor(max_workers=nw) as ex:
        futs = {ex.submit(run_job, cfile, j, wd): (m, kb, wd, cfile, j) for (m, kb, wd, cfile, j) in tasks}
        for fu in concurrent.futures.as_completed(futs):
            m, kb, wd, cfile, j = futs[fu]
            try:
                r = fu.result()
            except Exception as e:
                machinery.append("%s.%s: runner error %s" % (m.ID, j.name, e))
                continue
            results.append((m, kb, wd, cfile, j, r))

    results.sort(key=lambda x: (x[0].ID, x[4].name))
    n_obl = n_dis = 0
    n_b_obl = n_b_dis = 0
    n_known_fail = 0
    samples = []
    bounded = []
    per_job = []
    seen_reasons = {}
    solver_s = 0.0
    for (m, kb, wd, cfile, j, r) in results:
        jn = "%s.%s" % (m.ID, j.name)
        solver_s += r.solver_s
        per_job.append({"job": jn, "kind": j.kind, "status": r.status, "obligations": len(r.obligations),
                        "failed": [o["name"] for o in r.failed], "time_s": round(r.time_s, 2),
                        "enforce": j.enforce, "replace": j.replace, "loop_contracts": j.loop_contracts,
                        "unwind": j.unwind, "note": j.note})
        rkey = " ".join(r.reason.split())[:100]
        if r.status == "undecided" and rkey in seen_reasons:
            seen_reasons[rkey] += 1
        elif verbose:
            if r.status == "undecided":
                seen_reasons[rkey] = 1
            out_lines.append("  %-44s %-8s %-9s %3d obligations, %d failed, %.1fs %s" % (
                jn, j.kind, r.status, len(r.obligations), len(r.failed), r.time_s, " ".join(r.reason.split())[:160]))
        for w in r.warnings:
            if "ignoring" in w:
                machinery.append("%s: verifier dropped a quantifier: %s" % (jn, w))
        if r.status == "undecided":
            machinery.append("%s: undecided: %s" % (jn, r.reason))
            continue
        kind = j.kind
        is_known = (kind == "known" and j.finding in known and known[j.finding]["property"] == prop)
        if kind == "known" and not is_known:
            kind = "proof" if j.unwind is None else "bounded"
        if j.loop_contracts and not any("loop_invariant_step" in o["name"] for o in r.obligations):
            machinery.append("%s: loop contract silently dropped (no loop_invariant_step obligation)" % jn)
            continue
        if kind == "cover":
            cov = [o for o in r.obligations if o["description"].startswith("COVER") and o.get("function") in (None, j.harness)]
            if not cov:
                machinery.append("%s: cover job without COVER assertions" % jn)
            for o in cov:
                if o["status"] == "SUCCESS":
                    machinery.append("%s: vacuity: '%s' is unreachable under the precondition" % (jn, o["description"]))
            samples.append({"job": jn, "kind": "cover", "reachable": [o["description"] for o in cov if o["status"] != "SUCCESS"][:4]})
            continue
        if kind == "twin":
            if r.status != "failed":
                machinery.append("%s: must-fail twin passed: the contract is too weak or vacuous" % jn)
            else:
                samples.append({"job": jn, "kind": "twin", "failed_as_expected": [o["name"] for o in r.failed][:3]})
            continue
        if is_known:
            exp = [o for o in r.failed if any(s in o["name"] or s in o["description"] for s in j.expect_fail)] if j.expect_fail else list(r.failed)
            unexp = [o for o in r.failed if o not in exp]
            if exp:
                n_known_fail += len(exp)
                known_lines.append("KNOWN-FINDING: property=%s id=%s %s [failing obligation(s): %s]" % (
                    prop, j.finding, known[j.finding]["text"], ", ".join(o["name"] for o in exp[:4])))
            else:
                out_lines.append("  note: known finding %s no longer fails (%s)" % (j.finding, jn))
            okc = len(r.obligations) - len(r.failed)
            n_obl += okc + len(unexp)
            n_dis += okc
            if unexp:
                violations.append(handle_failure(prop, m, kb, wd, cfile, j, r, unexp, ctx))
            continue
        # proof / bounded
        if kind == "bounded":
            n_b_obl += len(r.obligations)
            n_b_dis += len(r.obligations) - len(r.failed)
            bounded.append({"job": jn, "bound": j.note or ("unwind %s" % j.unwind), "obligations": len(r.obligations),
                            "failed": len(r.failed)})
        else:
            n_obl += len(r.obligations)
            n_dis += len(r.obligations) - len(r.failed)
        if len(samples) < 40:
            ok = [o for o in r.obligations if o["status"] == "SUCCESS"]
            pick = [o for o in ok if "postcondition" in o["description"].lower() or "ensures" in o["description"].lower() or "assert" in o["name"]] or ok
            for o in pick[:2]:
                samples.append({"job": jn, "obligation": o["name"], "description": o["description"][:160], "status": o["status"]})
        if r.failed:
            violations.append(handle_failure(prop, m, kb, wd, cfile, j, r, r.failed, ctx))

    for rk, cnt in seen_reasons.items():
        if cnt > 1:
            out_lines.append("  (+%d more job(s) undecided for the same reason: %s)" % (cnt - 1, rk[:80]))
    # evidence
    wall = time.time() - t0
    funcs = []
    drops = []
    assumptions = []
    trusted = list(COMMON_TRUST)
    for (m, kb, wd, cfile) in builds:
        for f in kb.functions:
            funcs.append(dict(f, kernel=m.ID))
        for d in kb.drops:
            if d not in drops:
                drops.append(d)
        for a in kb.assumptions:
            s = "%s: %s" % (m.ID, a)
            if s not in assumptions:
                assumptions.append(s)
        for a in kb.trusted:
            if a not in trusted:
                trusted.append(a)
    level = "proof" if n_obl > 0 else "model_checking"
    scope = PROPERTY_SCOPE.get(prop, "")
    ev = {
        "property_id": prop, "tier": tier, "seed": seed, "level": level,
        "coverage": {
            "obligations": n_obl, "discharged": n_dis,
            "checker_cmd": "goto-cc --function <harness> kernel.c && goto-instrument --dfcc <harness> --enforce-contract <f> [--replace-call-with-contract g] [--apply-loop-contracts] && cbmc <checks> (per job; exact commands in /verif/work/%s/<kernel>/<job>.log)" % prop,
            "trusted_base": trusted,
            "backend": cbmc_version() + " with --sat-solver cadical unless a job names another back end (z3 for 64-bit division/multiplication)",
            "solver_time_s": round(solver_s, 2),
            "functions_under_contract": funcs,
            "kernels": [m.ID for (m, kb, wd, cfile) in builds],
            "jobs": per_job,
            "bounded_checks": bounded,
            "bounded_obligations": n_b_obl, "bounded_discharged": n_b_dis,
            "known_failing_obligations": n_known_fail,
            "samples": samples[:40] or [{"note": "no job ran"}],
            "evaluations": max(1, n_obl + n_b_obl), "distinct_nontrivial": max(2, len(per_job)),
            "rule": "one evaluation = one verifier obligation; distinct = jobs (harness x contract)",
            "extraction_drops": drops,
            "explanation": scope,
        },
        "assumptions": assumptions + ["machine arithmetic is 64-bit two's complement as in the x86-64 build; results say nothing about code outside the listed functions/regions"],
        "wall_s": round(wall, 2),
        "violations": len(violations),
    }
    # a partial run (one kernel, or the debugging job filter) must not replace the record of the property's full check
    partial = only_kernel is not None or bool(os.environ.get("VERIF_DEBUG_JOB_FILTER"))
    evdir = os.path.join(HERE, "work", prop) if partial else EVID
    os.makedirs(evdir, exist_ok=True)
    with open(os.path.join(evdir, (prop + ".partial.json") if partial else (prop + ".json")), "w") as f:
        json.dump(ev, f, indent=1)

    print("property %s tier=%s seed=%d: %d kernels, %d jobs, proof obligations %d/%d, bounded %d/%d, %.1fs" % (
        prop, tier, seed, len(builds), len(results), n_dis, n_obl, n_b_dis, n_b_obl, wall))
    for ln in out_lines:
        print(ln)
    for ln in known_lines:
        print(ln)
    for (path, text, nofail) in violations:
        print("  " + text)
    for (path, text, nofail) in violations:
        print("VIOLATION property=%s replay=%s%s" % (prop, path, " no-failing-input-found" if nofail else ""))
    if violations:
        return 1
    if machinery:
        seen = set()
        for mm in machinery:
            key = mm.split(":", 1)[-1][:200]
            if key in seen:
                continue
            seen.add(key)
            print("UNDECIDED(machinery): " + " ".join(mm.split())[:600])
        return 2
    if not results:
        print("UNDECIDED(machinery): no job ran for %s" % prop)
        return 2
    return 0


def scan_generated(ctext):
    body = extract.strip_comments(ctext)
    # macro definitions that generate harness functions (names h_*) are harness text
    body = re.sub(r'^[ \t]*#[ \t]*define[ \t]+\w+\([^)]*\)[ \t]*\\\n(?:.*\\\n)*.*\bvoid h_.*$', '', body, flags=re.M)
    body = re.sub(r'^[ \t]*#[ \t]*define[ \t]+(?:.*\\\n)*.*$', '', body, flags=re.M)
    if re.search(r'__CPROVER_assume\s*\(', body):
        # allowed only inside harness functions (h_*) and prelude nondet builders
        for mo in re.finditer(r'__CPROVER_assume\s*\(', body):
            pre = body[:mo.start()]
            fn = re.findall(r'\n(?:static\s+)?[A-Za-z_][\w \*]*?\b([A-Za-z_]\w*)\s*\([^;{}]*\)\s*\{', pre)
            cur = fn[-1] if fn else ""
            if not (cur.startswith("h_") or cur.startswith("mk_") or cur.startswith("nondet_")):
                return "__CPROVER_assume inside non-harness function '%s'" % cur
    if re.search(r'__CPROVER_ensures\s*\(\s*(1|true)?\s*\)', body):
        return "empty ensures clause"
    return ""


def handle_failure(prop, m, kb, wd, cfile, j, r, failed, ctx):
    """Stage 2 (find input) + replay on the real code.  Returns (path, text, nofail)."""
    jn = "%s.%s" % (m.ID, j.name)
    inputs = dict(r.traces.get(failed[0]["name"], {}) or r.trace_inputs)
    search_note = ""
    havocked = j.loop_contracts or j.enforce and getattr(j, "inputs_via_contract", False)
    # a job that enforces a contract builds its inputs from the preconditions (is_fresh objects): the harness-recorded g_in_* of its trace
    # are the zero initialisers, so the designated search job is the input finder
    if (not inputs or j.loop_contracts or j.enforce) and getattr(j, "search", None):
        sj = [x for x in kb.jobs if x.name == j.search]
        if sj:
            sr = run_job(cfile, sj[0], wd)
            if sr.status == "failed":
                inputs = dict(sr.trace_inputs)
                search_note = "input found by bounded search job %s (failed: %s)" % (sj[0].name, ", ".join(o["name"] for o in sr.failed[:3]))
            else:
                inputs = {}
                search_note = "bounded search job %s: %s %s" % (sj[0].name, sr.status, sr.reason)
    elif j.loop_contracts:
        inputs = {}
        search_note = "failed obligation is under loop contracts (havocked state), no search job defined"
    verdict, ntext, cmd = "none", "", ""
    rep = kb.replayers.get(j.replay) if j.replay else None
    if inputs and rep:
        try:
            verdict, ntext, cmd = rep(inputs, ctx)
        except Exception as e:
            verdict, ntext = "error", "replay machinery error: %s" % e
    os.makedirs(os.path.join(REPLAYS, prop), exist_ok=True)
    path = os.path.join(REPLAYS, prop, "%s.json" % re.sub(r'[^A-Za-z0-9_.-]', '_', jn))
    nofail = verdict != "violated"
    tail = ""
    try:
        tail = open(os.path.join(wd, re.sub(r'[^A-Za-z0-9_.-]', '_', j.name) + ".log")).read()[-3000:]
    except OSError:
        pass
    doc = {
        "property": prop, "kernel": m.ID, "job": j.name, "kind": j.kind,
        "functions": kb.functions,
        "failed_obligations": failed,
        "verifier_commands": r.cmds,
        "verifier_log_tail": tail,
        "counterexample_inputs": inputs, "search": search_note,
        "native_replay": {"verdict": verdict, "output": ntext[-4000:], "command": cmd},
        "class": "confirmed-on-real-code" if verdict == "violated" else (
            "counterexample-did-not-reproduce-natively" if verdict == "holds" else "no-failing-input-found"),
        "kernel_c": cfile,
        "rerun": "cd /verif && ./vcheck %s --kernel %s" % (prop, m.ID),
    }
    with open(path, "w") as f:
        json.dump(doc, f, indent=1)
    text = "%s: %d obligation(s) FAILED: %s%s%s" % (
        jn, len(failed), ", ".join("%s (%s)" % (o["name"], o["description"][:80]) for o in failed[:3]),
        ("; input " + json.dumps(inputs)[:300]) if inputs else "",
        ("; native replay: " + verdict) if verdict != "none" else "")
    return (path, text, nofail)


def replay_file(path):
    doc = json.load(open(path))
    print(json.dumps({k: doc[k] for k in ("property", "kernel", "job", "failed_obligations", "counterexample_inputs", "class")}, indent=1))
    cmd = doc.get("native_replay", {}).get("command")
    if cmd:
        print("$ " + cmd)
        rc = subprocess.call(cmd, shell=True)
        return 1 if rc == 1 else (0 if rc == 0 else 2)
    print(doc.get("verifier_log_tail", ""))
    print("no native replay recorded; re-run: " + doc.get("rerun", ""))
    return 1


PROPERTY_SCOPE = {}


def main(argv):
    import argparse
    ap = argparse.ArgumentParser()
    ap.add_argument("prop", nargs="?")
    ap.add_argument("--tier", default=os.environ.get("VERIF_TIER", "quick"))
    ap.add_argument("--kernel")
    ap.add_argument("--replay")
    ap.add_argument("--list", action="store_true")
    a = ap.parse_args(argv)
    sys.path.insert(0, HERE)
    if a.replay:
        return replay_file(a.replay)
    if a.list:
        for m in load_kernels():
            print(m.ID, ",".join(m.SERVES), m.TITLE)
        return 0
    seed = int(os.environ.get("VERIF_SEED", "0") or 0)
    tier = a.tier if a.tier in ("quick", "thorough") else "quick"
    try:
        from kernels import _scope
        PROPERTY_SCOPE.update(_scope.SCOPE)
    except ImportError:
        pass
    return run_property(a.prop, tier, seed, a.kernel)
