"""Kernel description objects shared by kernels/*.py and the driver."""
import os

from . import extract
from .cbmc import Job  # noqa: F401  (re-export)

HERE = os.path.dirname(os.path.dirname(os.path.abspath(__file__)))

COMMON_DROPS = [
    "namespaces / class scoping / access control (X::f -> X_f or f)",
    "const& vs value passing; references lowered to pointers",
    "C++ enum class underlying type (becomes int-sized C enum; uses are equality/switch)",
    "std::string ownership, SSO, allocation failure; a read-only std::string is (const char*, size_t) and the NUL after end() is kept as one extra readable byte",
    "stack unwinding on throw (throw -> ghost flag + return)",
    "inline / attributes / name mangling",
]

COMMON_TRUST = [
    "CBMC 6.11.0 (goto-cc C semantics = GCC x86-64 LP64: signed char, two's complement, arithmetic >>), SAT back end CaDiCaL (cbmc --sat-solver cadical) unless a job names z3",
    "cxx2c rewrite rules in /verif/vlib/extract.py and the kernel spec (surface syntax only; validated by native fidelity/replay builds, not proved)",
    "prelude type models in /verif/prelude (struct layouts field-for-field what the extracted code reads)",
]


class KernelBuild:
    """What a kernel spec hands to the driver."""

    def __init__(self, kid, title):
        self.kid = kid
        self.title = title
        self.ctext = ""
        self.jobs = []
        self.functions = []      # list of dicts {name, where, sha, kind: 'function'|'region'}
        self.drops = list(COMMON_DROPS)
        self.assumptions = []
        self.trusted = []
        self.rules_fired = 0
        self.replayers = {}      # name -> callable(inputs, ctx) -> (verdict, text, extra)

    def add_located(self, name, loc, kind="function"):
        self.functions.append({"name": name, "where": loc.where(), "sha": loc.sha, "kind": kind})

    def job(self, *a, **kw):
        j = Job(*a, **kw)
        self.jobs.append(j)
        return j


def located_rules(loc, rules, what):
    text, fired = extract.apply_rules(loc.text, extract.GENERIC + list(rules), what)
    return text, sum(n for _, n in fired)
