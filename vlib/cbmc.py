"""goto-cc / goto-instrument --dfcc / cbmc pipeline for one job, with timeout and
memory limit, returning every obligation with its verdict."""
import json
import os
import re
import subprocess
import time

HERE = os.path.dirname(os.path.dirname(os.path.abspath(__file__)))
PRELUDE = os.path.join(HERE, "prelude")
SPECS = os.path.join(HERE, "specs")
MEM_KB = int(os.environ.get("VERIF_MEM_KB", str(3600 * 1024)))   # 16 parallel jobs on a 62 GB machine

DEFAULT_CHECKS = ["--bounds-check", "--pointer-check", "--pointer-overflow-check",
                  "--signed-overflow-check", "--div-by-zero-check", "--undefined-shift-check",
                  "--pointer-primitive-check"]


class Job:
    """One verifier query.

    kind: 'proof'   unbounded (loop-free or loops closed by contracts) -> counted as discharged
          'bounded' --unwind N with unwinding assertions                -> reported, never counted as proof
          'cover'   assertions whose description starts with COVER must FAIL (reachability / non-vacuity)
          'twin'    deliberately wrong postcondition: at least one obligation must FAIL
          'known'   obligation restricted to a recorded known-finding class: expected to FAIL
    """

    def __init__(self, name, harness, kind="proof", enforce=None, replace=(), loop_contracts=False,
                 unwind=None, unwindset=(), defines=(), flags=(), timeout=180, tier="quick", finding=None,
                 note="", no_std_checks=False, solver=None, object_bits=None, replay=None, expect_fail=(),
                 search=None, props=None, mem_kb=None):
        self.mem_kb = mem_kb        # per-job memory limit (default MEM_KB)
        self.search = search        # name of a kind='search' job run on failure to find a concrete input
        self.props = props          # restrict the job to these properties (default: the kernel's SERVES)
        self.name = name
        self.harness = harness
        self.kind = kind
        self.enforce = enforce
        self.replace = list(replace)
        self.loop_contracts = loop_contracts
        self.unwind = unwind
        self.unwindset = list(unwindset)
        self.defines = list(defines)
        self.flags = list(flags)
        self.timeout = timeout
        self.tier = tier
        self.finding = finding      # id in known_findings.txt for kind == 'known'
        self.note = note
        self.no_std_checks = no_std_checks
        self.solver = solver
        self.object_bits = object_bits
        self.replay = replay        # name of replay routine in the kernel spec (optional)
        self.expect_fail = tuple(expect_fail)  # for 'known': substrings of obligations expected to fail


class JobResult:
    def __init__(self, job):
        self.job = job
        self.status = "undecided"   # ok | failed | undecided
        self.reason = ""
        self.obligations = []       # dicts: name, description, status, line, function
        self.failed = []
        self.trace_inputs = {}      # g_in_* assignments of the first failing obligation's trace
        self.traces = {}            # obligation name -> inputs
        self.time_s = 0.0
        self.solver_s = 0.0
        self.cmds = []
        self.raw_tail = ""
        self.warnings = []


def _run(cmd, timeout, cwd, log, mem_kb=None):
    t0 = time.time()
    # the budget is CPU time (ulimit -t: the same verdict on a loaded and on an idle machine); the wall-clock limit is only a backstop
    sh = "ulimit -v %d; ulimit -t %d; exec timeout -k 5 %d %s" % (mem_kb or MEM_KB, timeout, 4 * timeout, " ".join(_q(c) for c in cmd))
    p = subprocess.run(["bash", "-c", sh], cwd=cwd, stdout=subprocess.PIPE, stderr=subprocess.PIPE)
    dt = time.time() - t0
    out = p.stdout.decode(errors="replace")
    err = p.stderr.decode(errors="replace")
    with open(log, "a") as f:
        f.write("$ %s\n[exit %d, %.2fs]\n" % (" ".join(cmd), p.returncode, dt))
        if cmd[0] != "cbmc":
            f.write(out)
        f.write(err[-20000:])
        f.write("\n")
    return p.returncode, out, err, dt


def _q(s):
    if re.match(r'^[A-Za-z0-9_./=:,+-]+$', s):
        return s
    return "'" + s.replace("'", "'\\''") + "'"


def _trace_inputs(trace):
    """collect assignments to globals named g_in_* (inputs recorded by the harness)."""
    vals = {}
    for st in trace:
        if st.get("stepType") != "assignment":
            continue
        lhs = st.get("lhs", "")
        if not lhs.startswith("g_in_"):
            continue
        v = st.get("value", {})
        val = _value(v)
        if val is None:
            continue
        mo = re.match(r'^(g_in_\w+)\[(\d+)l*\]$', lhs)
        if mo:
            arr = vals.setdefault(mo.group(1), [])
            if not isinstance(arr, list):
                arr = vals[mo.group(1)] = []
            i = int(mo.group(2))
            while len(arr) <= i:
                arr.append(0)
            arr[i] = val
        else:
            vals[lhs] = val
    return vals


def _value(v):
    if "elements" in v:
        return [_value(e.get("value", {})) for e in v["elements"]]
    if "members" in v:
        return dict((m["name"], _value(m.get("value", {}))) for m in v["members"])
    b = v.get("binary")
    if b is not None and re.match(r'^[01]+$', b):
        n = int(b, 2)
        ty = v.get("type", "")
        signed = not (ty.startswith("unsigned") or ty in ("size_t", "_Bool", "biguint", "uint8_t", "uint16_t", "uint32_t", "uint64_t") or "unsigned" in ty)
        if v.get("name") == "pointer":
            return v.get("data")
        if signed and b[0] == '1' and len(b) > 1:
            n -= 1 << len(b)
        return n
    d = v.get("data")
    if d is None:
        return None
    if d in ("TRUE", "true"):
        return 1
    if d in ("FALSE", "false"):
        return 0
    try:
        return int(d.rstrip("ulUL"))
    except ValueError:
        return d


def run_job(cfile, job, workdir):
    r = JobResult(job)
    t0 = time.time()
    base = os.path.join(workdir, re.sub(r'[^A-Za-z0-9_.-]', '_', job.name))
    log = base + ".log"
    open(log, "w").close()
    a, b = base + ".a.gb", base + ".b.gb"
    cc = ["goto-cc", "--function", job.harness, "-I", PRELUDE, "-I", SPECS, "-DVERIF_CBMC"] + (["-DVERIF_SEARCH"] if job.kind == "search" else []) + \
         ["-D" + d for d in job.defines] + [cfile, "-o", a]
    r.cmds.append(" ".join(cc))
    rc, out, err, _ = _run(cc, 120, workdir, log)
    if rc != 0:
        r.reason = "goto-cc failed (exit %d): %s" % (rc, (err or out)[-1500:])
        r.time_s = time.time() - t0
        return r
    target = a
    if job.enforce or job.replace or job.loop_contracts:
        gi = ["goto-instrument", "--dfcc", job.harness]
        if job.enforce:
            gi += ["--enforce-contract", job.enforce]
        for g in job.replace:
            gi += ["--replace-call-with-contract", g]
        if job.loop_contracts:
            gi += ["--apply-loop-contracts"]
        gi += [a, b]
        r.cmds.append(" ".join(gi))
        rc, out, err, _ = _run(gi, 180, workdir, log)
        if rc != 0:
            r.reason = "goto-instrument failed (exit %d): %s" % (rc, (err or out)[-1500:])
            r.time_s = time.time() - t0
            return r
        for ln in (out + err).splitlines():
            if "ignoring" in ln or "no body for" in ln.lower():
                r.warnings.append(ln.strip())
        target = b
    cb = ["cbmc", target, "--json-ui", "--trace", "--drop-unused-functions"]
    if job.no_std_checks:
        cb += ["--no-standard-checks"]
    else:
        cb += DEFAULT_CHECKS
    if job.unwind is not None:
        cb += ["--unwind", str(job.unwind), "--unwinding-assertions"]
    for u in job.unwindset:
        cb += ["--unwindset", u]
    if job.object_bits:
        cb += ["--object-bits", str(job.object_bits)]
    if job.solver:
        cb += [job.solver] if job.solver.startswith("--") else ["--" + job.solver]
    elif "--sat-solver" not in job.flags and "--external-sat-solver" not in job.flags:
        cb += ["--sat-solver", "cadical"]   # default back end: CaDiCaL (MiniSat stalled for minutes on several small instances)
    cb += job.flags
    r.cmds.append(" ".join(cb))
    rc, out, err, dt = _run(cb, job.timeout, workdir, log, job.mem_kb)
    r.solver_s = dt
    r.time_s = time.time() - t0
    for f in (a, b):
        try:
            os.remove(f)
        except OSError:
            pass
    if rc in (124, 137, 152, 158, -24, -9) or (rc != 0 and dt >= job.timeout and not out.strip()):
        r.reason = "cbmc timeout after %ds of CPU time" % job.timeout
        return r
    try:
        msgs = json.loads(out)
    except ValueError:
        r.reason = "cbmc output not JSON (exit %d): %s" % (rc, (out[-800:] + err[-800:]))
        return r
    results = None
    for m in msgs:
        if isinstance(m, dict):
            if "result" in m:
                results = m["result"]
            if m.get("messageType") in ("WARNING", "ERROR"):
                t = m.get("messageText", "")
                if "ignoring" in t or "no body for" in t.lower() or m.get("messageType") == "ERROR":
                    r.warnings.append(t.strip())
    if results is None:
        r.reason = "cbmc produced no result table (exit %d): %s" % (rc, "; ".join(r.warnings)[-1500:] or out[-1500:])
        return r
    with open(base + ".results.json", "w") as f:
        json.dump([{k: v for k, v in x.items() if k != "trace"} for x in results], f, indent=0)
    other = 0
    for x in results:
        sl = x.get("sourceLocation", {})
        ob = {"name": x.get("property", "?"), "description": x.get("description", ""), "status": x.get("status", "?"),
              "line": sl.get("line"), "function": sl.get("function")}
        r.obligations.append(ob)
        if ob["status"] not in ("SUCCESS", "FAILURE"):
            other = other + 1
        elif ob["status"] == "FAILURE":
            r.failed.append(ob)
            if "trace" in x:
                ins = _trace_inputs(x["trace"])
                r.traces[ob["name"]] = ins
                if not r.trace_inputs:
                    r.trace_inputs = ins
    if not r.obligations:
        r.reason = "zero obligations generated"
        return r
    unw = [o for o in r.failed if ".unwind." in o["name"] or o["description"].startswith("unwinding assertion")]
    if unw and job.kind != "cover":
        # an insufficient unwinding bound is a machinery problem (undecided), never a property violation
        r.reason = "unwinding assertion failed (%s): the bound of this bounded job is too small for the current code" % unw[0]["name"]
        r.failed = []
        return r
    if other and not r.failed:
        r.reason = "%d obligation(s) with status other than SUCCESS/FAILURE (cbmc exit %d: out of memory or internal error)" % (other, rc)
        return r
    r.status = "failed" if r.failed else "ok"
    return r
