"""cxx2c: mechanical extraction of C++ functions / regions from /repo into C text.

Every rule is a (regex, replacement, min_fires[, max_fires]) tuple.  A rule that
does not fire the required number of times raises ExtractError, which the driver
turns into exit status 2 ("machinery needs attention"), never into a VIOLATION.
Rules rewrite C++ surface syntax only; operators, constants, comparisons,
statement order and control flow pass through verbatim.
"""
import hashlib
import os
import re

REPO = os.environ.get("VERIF_REPO", "/repo")


class ExtractError(Exception):
    pass


def read(relpath):
    p = os.path.join(REPO, relpath)
    try:
        with open(p, encoding="utf-8", errors="replace") as f:
            return f.read()
    except OSError as e:
        raise ExtractError("cannot read %s: %s" % (p, e))


def mask(text, keep_strings=False):
    """Return text with comments and string/char literal *contents* replaced by
    spaces (same length), so that structural scanning ignores them."""
    if keep_strings:
        m = mask(text)
        out = list(m)
        i, n = 0, len(text)
        while i < n:
            if m[i] in '"\'':
                q = m[i]
                j = m.find(q, i + 1)
                if j < 0:
                    break
                out[i:j + 1] = list(text[i:j + 1])
                i = j + 1
            else:
                i += 1
        return ''.join(out)
    out = list(text)
    i, n = 0, len(text)
    while i < n:
        c = text[i]
        if c == '/' and i + 1 < n and text[i + 1] == '/':
            j = text.find('\n', i)
            j = n if j < 0 else j
            for k in range(i, j):
                out[k] = ' '
            i = j
        elif c == '/' and i + 1 < n and text[i + 1] == '*':
            j = text.find('*/', i + 2)
            j = n if j < 0 else j + 2
            for k in range(i, j):
                if text[k] != '\n':
                    out[k] = ' '
            i = j
        elif c == '"' or c == "'":
            q = c
            j = i + 1
            while j < n and text[j] != q:
                if text[j] == '\\':
                    j += 1
                j += 1
            for k in range(i + 1, min(j, n)):
                if text[k] != '\n':
                    out[k] = ' '
            i = j + 1
        else:
            i += 1
    return ''.join(out)


def strip_comments(text):
    m = mask(text)
    out = []
    i, n = 0, len(text)
    # remove comments only (keep literals): re-scan
    while i < n:
        c = text[i]
        if c == '/' and i + 1 < n and text[i + 1] == '/':
            j = text.find('\n', i)
            j = n if j < 0 else j
            i = j
        elif c == '/' and i + 1 < n and text[i + 1] == '*':
            j = text.find('*/', i + 2)
            j = n if j < 0 else j + 2
            out.append(' ')
            i = j
        elif c == '"' or c == "'":
            q = c
            j = i + 1
            while j < n and text[j] != q:
                if text[j] == '\\':
                    j += 1
                j += 1
            out.append(text[i:j + 1])
            i = j + 1
        else:
            out.append(c)
            i += 1
    return ''.join(out)


def match_brace(text, open_pos, masked=None, open_ch='{', close_ch='}'):
    """index of the brace closing the one at open_pos (comment/literal aware)."""
    m = masked if masked is not None else mask(text)
    if m[open_pos] != open_ch:
        raise ExtractError("match_brace: no '%s' at %d" % (open_ch, open_pos))
    depth = 0
    for i in range(open_pos, len(m)):
        if m[i] == open_ch:
            depth += 1
        elif m[i] == close_ch:
            depth -= 1
            if depth == 0:
                return i
    raise ExtractError("unbalanced braces from %d" % open_pos)


class Located:
    def __init__(self, relpath, text, start, end, full):
        self.relpath = relpath
        self.text = text          # signature + body (or region text)
        self.start = start        # byte offsets in file
        self.end = end
        self.line0 = full.count('\n', 0, start) + 1
        self.line1 = full.count('\n', 0, end) + 1
        self.sha = hashlib.sha256(text.encode()).hexdigest()[:16]

    def where(self):
        return "%s:%d-%d" % (self.relpath, self.line0, self.line1)


def locate_function(relpath, sig_regex, which=None, within=None):
    """Locate a function definition whose signature matches sig_regex (searched
    with re.M on the comment-masked file).  The match must be followed (after an
    optional const/noexcept/initialiser-free gap) by '{'.  Exactly one definition
    must match (or `which` selects the n-th)."""
    full = read(relpath)
    m = mask(full)
    hits = []
    for mo in re.finditer(sig_regex, m, re.M):
        # find the opening brace after the signature: skip to first '{' or ';'
        j = mo.end()
        while j < len(m) and m[j] not in '{;':
            j += 1
        if j >= len(m) or m[j] == ';':
            continue  # declaration only
        end = match_brace(full, j, m)
        hits.append((mo.start(), j, end))
    if within is not None:
        enc = locate_function(relpath, within)
        hits = [h for h in hits if enc.start < h[0] and h[2] < enc.end]
    if which is not None:
        if which >= len(hits):
            raise ExtractError("%s: signature /%s/ has %d definitions, wanted #%d" % (relpath, sig_regex, len(hits), which))
        hits = [hits[which]]
    if len(hits) != 1:
        raise ExtractError("%s: signature /%s/ matched %d definitions (need exactly 1)" % (relpath, sig_regex, len(hits)))
    s, b, e = hits[0]
    return Located(relpath, full[s:e + 1], s, e + 1, full)


def locate_region(relpath, func_sig_regex, start_regex, end_regex, include_end=True, which=None, occurrence=None, expect=1):
    """Region inside a located function: from the match of start_regex to the first
    following match of end_regex (inclusive when include_end).  start_regex must match
    exactly `expect` times in the function; `occurrence` selects one when expect > 1."""
    f = locate_function(relpath, func_sig_regex, which)
    full = read(relpath)
    body = f.text
    mb = mask(body, keep_strings=True)
    ms = list(re.finditer(start_regex, mb, re.M))
    if len(ms) != expect:
        raise ExtractError("%s: region start /%s/ matched %d times in function (need %d)" % (relpath, start_regex, len(ms), expect))
    ms = [ms[occurrence or 0]]
    s = ms[0].start()
    me = re.compile(end_regex, re.M).search(mb, ms[0].end() if ms[0].end() > ms[0].start() else ms[0].start())
    if not me:
        raise ExtractError("%s: region end /%s/ not found" % (relpath, end_regex))
    e = me.end() if include_end else me.start()
    return Located(relpath, body[s:e], f.start + s, f.start + e, full)


def body_of(fn_text):
    """split 'sig { body }' -> (sig, body-with-braces)"""
    m = mask(fn_text)
    j = m.find('{')
    return fn_text[:j].rstrip(), fn_text[j:]


def apply_rules(text, rules, what=""):
    fired = []
    for r in rules:
        rx, repl, lo = r[0], r[1], r[2]
        hi = r[3] if len(r) > 3 else None
        flags = re.M | re.S
        if len(r) > 4 and r[4] == "code":
            # surface rule for code only: a match inside a string / character literal or a comment is left alone
            # (the pattern word "nullptr" of a Token::Match literal is not the keyword nullptr)
            mtext = mask(text)
            cnt = [0]

            def _code_only(mo, repl=repl, mtext=mtext, cnt=cnt):
                if mtext[mo.start():mo.end()] != mo.group(0):
                    return mo.group(0)
                cnt[0] += 1
                return repl(mo) if callable(repl) else mo.expand(repl)
            new = re.sub(rx, _code_only, text, flags=flags)
            n = cnt[0]
        else:
            new, n = re.subn(rx, repl, text, flags=flags)
        if n < lo or (hi is not None and n > hi):
            raise ExtractError("%s: rule /%s/ fired %d times (need %s..%s)" % (what, rx, n, lo, hi if hi is not None else "inf"))
        fired.append((rx, n))
        text = new
    return text, fired


# Generic surface rules usable by most kernels (all min 0: they are harmless when
# they do not fire; kernel-specific rules carry the must-fire counts).
GENERIC = [
    (r'\bMathLib::bigint\b', 'bigint', 0),
    (r'\bMathLib::biguint\b', 'biguint', 0),
    (r'\bstd::(u?int(?:8|16|32|64)_t)\b', r'\1', 0),
    (r'\bstd::size_t\b', 'size_t', 0),
    (r'\bstd::(isdigit|isxdigit|isalpha|isalnum|isprint|isspace|isupper|islower|tolower|toupper|strchr|strlen|strcmp|strncmp|memchr|abs)\b', r'\1', 0),
    (r'\bnullptr\b', 'NULL', 0, None, "code"),
    (r'\bnonneg\b', '', 0, None, "code"),
    (r'\bstatic_cast<\s*([^<>]+?)\s*>\s*\(', r'(\1)(', 0),
    (r'\bconstexpr\b', 'const', 0, None, "code"),
    (r'\bnoexcept\b', '', 0, None, "code"),
    (r'\[\[maybe_unused\]\]', '', 0),
]

RESIDUE = [
    (r'::', "scope operator"),
    (r'\bstd\b', "std"),
    (r'\bauto\b', "auto"),
    (r'\btemplate\b', "template"),
    (r'\b(?:static|const|reinterpret|dynamic)_cast\b', "C++ cast"),
    (r'\bthrow\b', "throw"),
    (r'\bnew\b', "new"),
    (r'\bdelete\b', "delete"),
    (r'\bnullptr\b', "nullptr"),
    (r'\bclass\b', "class"),
    (r'\bnamespace\b', "namespace"),
    (r'\boperator\b', "operator"),
    (r'[A-Za-z_0-9\)\]]\s*\.\s*[A-Za-z_]\w*\s*\((?!\s*\*)', "method call"),
    (r'->\s*[A-Za-z_]\w*\s*\(', "method call through pointer"),
    (r'&\s*[A-Za-z_]\w*\s*[,\)]\s*(?=[^;{]*\{)', None),  # placeholder, not enforced
]


def residue_scan(ctext, what="", allow=()):
    m = mask(strip_comments(ctext))
    bad = []
    for rx, name in RESIDUE:
        if name is None or name in allow:
            continue
        mo = re.search(rx, m)
        if mo:
            line = m.count('\n', 0, mo.start()) + 1
            bad.append("%s at extracted line %d: %r" % (name, line, m[max(0, mo.start() - 20):mo.end() + 20]))
    if bad:
        raise ExtractError("%s: C++ residue after rewriting: %s" % (what, "; ".join(bad)))


def find_loops(body):
    """positions (index just after the loop header's closing ')' ) of for/while
    loops in source order, and of `do` keywords.  Returns list of (kind, insert_pos)."""
    m = mask(body)
    res = []
    for mo in re.finditer(r'\b(for|while|do)\b', m):
        kw = mo.group(1)
        if kw == 'do':
            res.append(('do', mo.end()))
            continue
        j = mo.end()
        while j < len(m) and m[j].isspace():
            j += 1
        if j >= len(m) or m[j] != '(':
            continue
        e = match_brace(body, j, m, '(', ')')
        # a `while (...) ;` that terminates a do-loop is not a loop head
        k = e + 1
        while k < len(m) and m[k].isspace():
            k += 1
        if kw == 'while' and k < len(m) and m[k] == ';':
            # could be do-while tail or empty-body while; treat as do tail if a 'do' is open
            if any(r[0] == 'do' for r in res):
                continue
        res.append((kw, e + 1))
    return res


def insert_loop_contracts(body, contracts, what=""):
    """contracts: list (by loop ordinal) of contract text or None.  The number of
    loops found must equal len(contracts)."""
    loops = find_loops(body)
    if len(loops) != len(contracts):
        raise ExtractError("%s: found %d loops, spec has %d loop contracts" % (what, len(loops), len(contracts)))
    out = body
    for (kind, pos), c in sorted(zip(loops, contracts), key=lambda x: -x[0][1]):
        if c:
            out = out[:pos] + "\n" + c.strip() + "\n" + out[pos:]
    return out


def enum_list(relpath, enum_regex, prefix, strip_values=False):
    """Generate a C enum from a C++ `enum [class] Name [: T] { ... }` in a /repo
    header.  Returns (c_text, [enumerator names])."""
    full = strip_comments(read(relpath))
    mo = re.search(enum_regex, full)
    if not mo:
        raise ExtractError("%s: enum /%s/ not found" % (relpath, enum_regex))
    j = full.find('{', mo.start())
    e = match_brace(full, j)
    inner = full[j + 1:e]
    names = []
    items = []
    for part in inner.split(','):
        part = part.strip()
        if not part:
            continue
        pm = re.match(r'([A-Za-z_]\w*)\s*(?:=\s*(.+))?$', part, re.S)
        if not pm:
            raise ExtractError("%s: cannot parse enumerator %r" % (relpath, part))
        nm, val = pm.group(1), pm.group(2)
        names.append(nm)
        if val is not None:
            val = re.sub(r'\b([A-Za-z_]\w*)\b', lambda x: (prefix + x.group(1)) if x.group(1) in names else x.group(1), val)
            items.append("%s%s = %s" % (prefix, nm, val.strip()))
        else:
            items.append("%s%s" % (prefix, nm))
    return "{ " + ", ".join(items) + " }", names
