#!/usr/bin/env python3
"""Regenerate /verif/MANIFEST.json from the tables below (claimed properties) and
properties.jsonl (everything else -> not_applicable with its reason)."""
import json
import os
import sys

HERE = os.path.dirname(os.path.dirname(os.path.abspath(__file__)))
sys.path.insert(0, HERE)
from kernels import _scope  # noqa: E402

TECH = "contract-based deductive verification: CBMC 6.11 code contracts (goto-instrument --dfcc) on C text extracted mechanically from /repo on every run; bounded stand-ins labelled"


def main():
    props = [json.loads(l) for l in open(os.path.join(HERE, "properties.jsonl"))]
    checks = []
    na = []
    for p in props:
        pid = p["id"]
        if pid in _scope.CLAIMED:
            c = _scope.CLAIMED[pid]
            checks.append({
                "property_id": pid,
                "quick_cmd": "./vcheck %s --tier quick" % pid,
                "thorough_cmd": "./vcheck %s --tier thorough" % pid,
                "evidence_file": "/verif/evidence/%s.json" % pid,
                "replay_cmd_template": "./vcheck --replay {path}",
                "engine": "vcheck",
                "level_claimed": {"category": c.get("category", "proof"), "text": c["level_text"], "design_ref": "DESIGN.md section 5 (%s), section 4 kernels %s" % (pid, c["kernels"])},
                "level_note": c["note"],
                "technique": TECH,
            })
        else:
            na.append({"property_id": pid, "reason": _scope.NOT_APPLICABLE.get(pid, "no contract within reach decides it (DESIGN.md section 5)")})
    m = {
        "version": 1,
        "setup_cmd": "./setup.sh",
        "hooks": {"guard": "DANMAR_CPPCHECK_VERIF", "enable": "no hooks: the verifier reads /repo sources directly; nothing in /repo is guarded",
                  "baseline_off_cmd": "cmake --build /repo/_build -j16 && (ctest --test-dir /repo/_build -j8 --timeout 900 || ctest --test-dir /repo/_build --rerun-failed --timeout 900)",
                  "source_commits": _scope.FIX_COMMITS, "add_only": True},
        "engines": [{"name": "vcheck", "path": "/verif/vcheck", "serves_properties": sorted(_scope.CLAIMED),
                     "kind_free_text": "extractor (C++ -> C, rule based, must-fire) + CBMC contracts driver + native replay against a private build of /repo"}],
        "checks": checks,
        "not_applicable": na,
        "notes": "exit 0 = all obligations discharged (known findings printed as KNOWN-FINDING lines); exit 1 = VIOLATION line; exit 2 = undecided (extraction stopped, solver timeout, vacuity guard) - never reported as a violation.",
    }
    with open(os.path.join(HERE, "MANIFEST.json"), "w") as f:
        json.dump(m, f, indent=1)
    print("MANIFEST.json: %d checks, %d not_applicable" % (len(checks), len(na)))


if __name__ == "__main__":
    main()
