#!/bin/bash
# usage: confirm_seed.sh <worktree> : confirm a seeded change (patch.diff + demo.sh) in its scratch worktree:
#   with the change: builds, ctest passes, demo fails;  without it: demo passes.
W=$1; cd "$W" || exit 2
J=${J:-8}
log() { echo "[confirm $(basename $W)] $*"; }
git diff -- lib cli externals tools frontend > /tmp/cur_$$.diff
if ! diff -q /tmp/cur_$$.diff patch.diff >/dev/null; then log "worktree diff differs from patch.diff: resetting to patch"; git checkout -- lib cli externals tools frontend 2>/dev/null; git apply patch.diff || { log "patch does not apply"; exit 2; }; fi
rm -f /tmp/cur_$$.diff
cmake --build _build -j$J >/tmp/build_$$.log 2>&1 || { log "BUILD FAILED with change"; tail -5 /tmp/build_$$.log; exit 1; }
log "build with change: ok"
ctest --test-dir _build -j$J --timeout 900 >/tmp/ctest_$$.log 2>&1
if ! grep -q "100% tests passed" /tmp/ctest_$$.log; then
  ctest --test-dir _build --rerun-failed --timeout 900 >/tmp/ctest2_$$.log 2>&1
  if ! grep -q "100% tests passed" /tmp/ctest2_$$.log; then log "CTEST FAILS with change:"; grep -E "Failed|\*\*\*" /tmp/ctest2_$$.log | head; exit 1; fi
  log "ctest with change: ok after rerun of flaky test(s): $(grep -E '^\s+[0-9]+ - ' /tmp/ctest_$$.log | tr -s ' ' | tr '\n' ',')"
else log "ctest with change: 112/112 ok"; fi
bash ./demo.sh >/tmp/demo_with_$$.log 2>&1; rc=$?
log "demo with change: exit $rc"; tail -3 /tmp/demo_with_$$.log
[ $rc -ne 0 ] || { log "DEMO DOES NOT FAIL with change"; exit 1; }
git apply -R patch.diff || { log "cannot reverse patch"; exit 2; }
cmake --build _build -j$J >/tmp/build_$$.log 2>&1 || { log "BUILD FAILED without change"; exit 1; }
bash ./demo.sh >/tmp/demo_without_$$.log 2>&1; rc2=$?
log "demo without change: exit $rc2"; tail -2 /tmp/demo_without_$$.log
git apply patch.diff
[ $rc2 -eq 0 ] || { log "DEMO FAILS without change"; exit 1; }
log "CONFIRMED"
rm -f /tmp/*_$$.log
