#!/bin/bash
# usage: with_seed.sh <seed-id> <command...> : apply /verif/seeded/<seed-id>/patch(_rebased).diff to /repo, run the command in /verif, undo the patch
S=$1; shift
D=/verif/seeded/$S
P="$D/patch.diff"; [ -f "$D/patch_rebased.diff" ] && P="$D/patch_rebased.diff"
cd /repo || exit 2
if ! git diff --quiet; then echo "/repo has uncommitted changes; refusing"; exit 2; fi
git apply "$P" || { echo "patch does not apply to /repo HEAD"; exit 2; }
cd /verif && "$@"; rc=$?
git -C /repo checkout -- .
exit $rc
