#!/bin/bash
# usage: eval_seed.sh <seed-id> [properties...]
# Applies /verif/seeded/<seed-id>/patch.diff to /repo, runs the quick check of each property
# (default: the property the seed breaks, from meta.json), records the outcome and undoes the patch.
S=$1; shift
D=/verif/seeded/$S
[ -f "$D/patch.diff" ] || { echo "no $D/patch.diff"; exit 2; }
PROPS="$@"
[ -n "$PROPS" ] || PROPS=$(python3 -c "import json;print(json.load(open('$D/meta.json'))['breaks'])")
cd /repo || exit 2
if ! git diff --quiet; then echo "/repo has uncommitted changes; refusing"; exit 2; fi
P="$D/patch.diff"; [ -f "$D/patch_rebased.diff" ] && P="$D/patch_rebased.diff"; git apply "$P" || { echo "patch does not apply to /repo HEAD"; exit 2; }
for P in $PROPS; do
  cd /verif && timeout 3000 ./vcheck $P > "$D/result_$P.txt" 2>&1; rc=$?
  v=$(grep -c '^VIOLATION' "$D/result_$P.txt")
  echo "seed $S vs $P: exit $rc, $v VIOLATION line(s)"
  grep -E '^VIOLATION|^UNDECIDED' "$D/result_$P.txt" | cut -c1-300 | head -5
done
git -C /repo checkout -- . ; git -C /repo status --short | grep -v _build
